From Coq Require Import List NArith Bool Lia.
Import ListNotations.

Definition str := list N.
Definition str_eqb (a b : str) : bool := if list_eq_dec N.eq_dec a b then true else false.
Lemma str_eqb_eq a b : str_eqb a b = true <-> a = b.
Proof. unfold str_eqb; destruct (list_eq_dec N.eq_dec a b); split; congruence. Qed.

Inductive xml := Elem (tag : str) (attrs : list (str * str)) (text tail : option str) (kids : list xml).

Definition tag_of (e : xml) := let 'Elem t _ _ _ _ := e in t.
Definition kids_of (e : xml) := let 'Elem _ _ _ _ k := e in k.
Definition text_of (e : xml) := let 'Elem _ _ t _ _ := e in t.

Fixpoint find_tag (t : str) (l : list xml) : option xml :=
  match l with [] => None | e :: r => if str_eqb (tag_of e) t then Some e else find_tag t r end.

(* child id: text of first <tagID> child *)
Definition child_id (idtag : str) (e : xml) : option (option str) :=
  match find_tag idtag (kids_of e) with Some c => Some (text_of c) | None => None end.

Section Seq.
(* abstract view: children are either "elements of interest with id" or others *)
Variable A : Type.
Variable key : A -> option str. (* Some id for stories, None for metadata *)

Fixpoint find_idx (id : str) (l : list A) (i : nat) : option nat :=
  match l with
  | [] => None
  | x :: r => match key x with
              | Some k => if str_eqb k id then Some i else find_idx id r (S i)
              | None => find_idx id r (S i)
              end
  end.

Fixpoint remove_at (i : nat) (l : list A) : list A :=
  match l, i with [], _ => [] | _ :: r, O => r | x :: r, S j => x :: remove_at j r end.
Fixpoint insert_at (i : nat) (x : A) (l : list A) : list A :=
  match i, l with O, _ => x :: l | S j, [] => [x] | S j, y :: r => y :: insert_at j x r end.

Definition keys (l : list A) : list str := flat_map (fun x => match key x with Some k => [k] | None => [] end) l.
Definition others (l : list A) : list A := filter (fun x => match key x with Some _ => false | None => true end) l.

Lemma others_remove_at_key i l x : nth_error l i = Some x -> key x <> None -> others (remove_at i l) = others l.
Proof.
  revert i; induction l as [|y r IH]; intros [|i] H Hk; simpl in *; try discriminate.
  - injection H as ->. destruct (key x); [reflexivity|congruence].
  - destruct (key y); [apply IH; assumption | f_equal; apply IH; assumption].
Qed.
End Seq.
