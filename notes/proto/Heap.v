From Coq Require Import List NArith Arith Bool Lia.
Import ListNotations.

(* Object-identity model of ElementTree nodes: just enough for C13.
   The payload of a node (tag, attrs, text, tail) is abstracted to one value. *)
Section Heap.
Variable D : Type.
Definition loc := nat.
Record node := { dat : D ; kids : list loc }.
Definition heap := list (loc * node).   (* association list; lookup = first match *)

Fixpoint lookup (h : heap) (l : loc) : option node :=
  match h with [] => None | (k, n) :: r => if Nat.eqb k l then Some n else lookup r l end.

Inductive tree := T (d : D) (ks : list tree).

Fixpoint all_some {X} (l : list (option X)) : option (list X) :=
  match l with
  | [] => Some []
  | Some x :: r => match all_some r with Some xs => Some (x :: xs) | None => None end
  | None :: _ => None
  end.

Fixpoint view (fuel : nat) (h : heap) (l : loc) : option tree :=
  match fuel with
  | O => None
  | S f => match lookup h l with
           | None => None
           | Some n => option_map (T (dat n)) (all_some (map (view f h) (kids n)))
           end
  end.

Fixpoint reach (fuel : nat) (h : heap) (l : loc) : list loc :=
  match fuel with
  | O => [l]
  | S f => l :: match lookup h l with None => [] | Some n => flat_map (reach f h) (kids n) end
  end.

(* the only mutation ElementTree list edits perform: replace the child list of one node *)
Definition set_kids (h : heap) (p : loc) (ks : list loc) : heap :=
  match lookup h p with Some n => (p, {| dat := dat n; kids := ks |}) :: h | None => h end.

Lemma lookup_set_kids_other h p ks l : l <> p -> lookup (set_kids h p ks) l = lookup h l.
Proof.
  intros Hne. unfold set_kids. destruct (lookup h p); [|reflexivity]. simpl.
  destruct (Nat.eqb p l) eqn:E; [apply Nat.eqb_eq in E; congruence|reflexivity].
Qed.

(* FRAME: mutating a node that is not reachable from m leaves m's view and reach unchanged *)
Lemma frame fuel : forall h p ks m,
  ~ In p (reach fuel h m) ->
  view fuel (set_kids h p ks) m = view fuel h m /\ reach fuel (set_kids h p ks) m = reach fuel h m.
Proof.
  induction fuel as [|f IH]; intros h p ks m Hnot; [split; reflexivity|].
  cbn [reach] in Hnot. cbn [view reach].
  assert (Hm : m <> p) by (intros ->; apply Hnot; now left).
  rewrite (lookup_set_kids_other h p ks m Hm).
  destruct (lookup h m) as [n|]; [|split; reflexivity].
  assert (Hk : forall k, In k (kids n) -> ~ In p (reach f h k)).
  { intros k Hk Hin. apply Hnot. right. apply in_flat_map. exists k. split; assumption. }
  split.
  - f_equal. f_equal. apply map_ext_in. intros k Hin. apply IH. apply Hk; assumption.
  - f_equal. clear Hnot. induction (kids n) as [|k r IHr]; [reflexivity|]. cbn [flat_map].
    rewrite (proj2 (IH h p ks k (Hk k (or_introl eq_refl)))), IHr; [reflexivity|].
    intros k' Hk'. apply Hk. now right.
Qed.

(* fresh allocation: copying a tree into locations >= next *)
Fixpoint alloc (t : tree) (h : heap) (next : loc) : heap * loc * loc :=   (* heap', root, next' *)
  match t with
  | T d ks =>
    let '(h1, roots, n1) :=
      (fix go (ts : list tree) (h : heap) (n : loc) : heap * list loc * loc :=
         match ts with
         | [] => (h, [], n)
         | t :: r => let '(h', root, n') := alloc t h n in
                     let '(h'', roots, n'') := go r h' n' in (h'', root :: roots, n'')
         end) ks h next in
    ((n1, {| dat := d; kids := roots |}) :: h1, n1, S n1)
  end.
End Heap.
