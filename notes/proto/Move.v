From Coq Require Import List NArith Arith Bool Lia Permutation.
Import ListNotations.

Definition str := list N.
Definition str_eqb (a b : str) : bool := if list_eq_dec N.eq_dec a b then true else false.
Lemma str_eqb_eq a b : str_eqb a b = true <-> a = b.
Proof. unfold str_eqb; destruct (list_eq_dec N.eq_dec a b); split; congruence. Qed.
Lemma str_eqb_refl a : str_eqb a a = true. Proof. apply str_eqb_eq; reflexivity. Qed.
Lemma str_eqb_neq a b : str_eqb a b = false <-> a <> b.
Proof. unfold str_eqb; destruct (list_eq_dec N.eq_dec a b); split; congruence. Qed.

(* ---------- specification on ID lists: no positions anywhere *)
Definition mem (x : str) (l : list str) : bool := existsb (str_eqb x) l.
Definition remove_all (srcs l : list str) : list str := filter (fun x => negb (mem x srcs)) l.
Fixpoint insert_before (t : str) (new l : list str) : option (list str) :=
  match l with
  | [] => None
  | x :: r => if str_eqb x t then Some (new ++ x :: r)
              else match insert_before t new r with Some r' => Some (x :: r') | None => None end
  end.
Definition spec_move (tgt : option str) (srcs l : list str) : option (list str) :=
  let rest := remove_all srcs l in
  match tgt with None => Some (rest ++ srcs) | Some t => insert_before t srcs rest end.

(* ---------- model: a child list where some children carry a key *)
Section Seq.
Variable A : Type.
Variable key : A -> option str.

Definition has_key (id : str) (x : A) : bool :=
  match key x with Some k => str_eqb k id | None => false end.
Definition keys (l : list A) : list str := flat_map (fun x => match key x with Some k => [k] | None => [] end) l.
Definition others (l : list A) : list A := filter (fun x => match key x with Some _ => false | None => true end) l.

(* find_child: first child with the key; returns position *)
Fixpoint find_pos (id : str) (l : list A) : option nat :=
  match l with
  | [] => None
  | x :: r => if has_key id x then Some O else option_map S (find_pos id r)
  end.

(* Python: nodes found one after the other in the ORIGINAL list *)
Fixpoint find_all (ids : list str) (l : list A) : option (list nat) :=
  match ids with
  | [] => Some []
  | i :: r => match find_pos i l, find_all r l with Some p, Some ps => Some (p :: ps) | _, _ => None end
  end.

Fixpoint remove_positions (ps : list nat) (i : nat) (l : list A) : list A :=
  match l with
  | [] => []
  | x :: r => if existsb (Nat.eqb i) ps then remove_positions ps (S i) r else x :: remove_positions ps (S i) r
  end.

Definition insert_many (i : nat) (xs l : list A) : list A := firstn i l ++ xs ++ skipn i l.

Fixpoint nodup_nat (ps : list nat) : bool :=
  match ps with [] => true | p :: r => negb (existsb (Nat.eqb p) r) && nodup_nat r end.

(* validate all, remove all, locate the target in the remainder, insert in message order *)
Definition gen_move (tgt : option str) (srcs : list str) (l : list A) : option (list A) :=
  match find_all srcs l with
  | None => None
  | Some ps =>
    if negb (nodup_nat ps) then None else
    let moved := flat_map (fun p => match nth_error l p with Some x => [x] | None => [] end) ps in
    let rest := remove_positions ps 0 l in
    match tgt with
    | None => Some (rest ++ moved)
    | Some t =>
      match find_pos t l with
      | None => None
      | Some tp =>
        if existsb (Nat.eqb tp) ps then None else
        match find_pos t rest with
        | None => None
        | Some i => Some (insert_many i moved rest)
        end
      end
    end
  end.

(* ---------- lemmas *)
Lemma keys_app l1 l2 : keys (l1 ++ l2) = keys l1 ++ keys l2.
Proof. apply flat_map_app. Qed.
Lemma others_app l1 l2 : others (l1 ++ l2) = others l1 ++ others l2.
Proof. apply filter_app. Qed.

Lemma find_pos_spec id l p : find_pos id l = Some p ->
  exists pre x post, l = pre ++ x :: post /\ length pre = p /\ key x = Some id /\
    forall y, In y pre -> has_key id y = false.
Proof.
  revert p; induction l as [|y r IH]; intros p H; simpl in H; [discriminate|].
  destruct (has_key id y) eqn:E.
  - injection H as <-. exists [], y, r. repeat split; auto.
    + unfold has_key in E. destruct (key y); [|discriminate]. apply str_eqb_eq in E. congruence.
    + intros ? [].
  - destruct (find_pos id r) as [q|] eqn:Eq; [|discriminate]. injection H as <-.
    destruct (IH q eq_refl) as (pre & x & post & -> & <- & Hk & Hpre).
    exists (y :: pre), x, post. repeat split; auto. intros z [<-|Hz]; auto.
Qed.

Lemma keys_insert_many i xs l : keys (insert_many i xs l) = keys (firstn i l) ++ keys xs ++ keys (skipn i l).
Proof. unfold insert_many. rewrite !keys_app. reflexivity. Qed.

Lemma insert_before_keys t new pre x post :
  (forall y, In y pre -> y <> t) -> x = t ->
  insert_before t new (pre ++ x :: post) = Some (pre ++ new ++ x :: post).
Proof.
  intros Hpre ->. induction pre as [|y pre IH]; simpl.
  - rewrite str_eqb_refl. reflexivity.
  - assert (str_eqb y t = false) as -> by (apply str_eqb_neq; apply Hpre; now left).
    rewrite IH; [reflexivity|]. intros z Hz. apply Hpre. now right.
Qed.

Lemma keys_has_key_false id l : (forall y, In y l -> has_key id y = false) -> forall k, In k (keys l) -> k <> id.
Proof.
  induction l as [|y l IH]; intros H k Hk; simpl in Hk; [destruct Hk|].
  apply in_app_or in Hk as [Hk|Hk].
  - specialize (H y (or_introl eq_refl)). unfold has_key in H. destruct (key y) as [ky|]; [|destruct Hk].
    destruct Hk as [<-|[]]. apply str_eqb_neq. exact H.
  - apply IH; auto. intros z Hz. apply H. now right.
Qed.

(* inserting keyed elements before the target: protocol on keys, nothing else moves *)
Theorem insert_at_target t xs rest i :
  find_pos t rest = Some i ->
  keys (insert_many i xs rest) = match insert_before t (keys xs) (keys rest) with Some r => r | None => [] end
  /\ insert_before t (keys xs) (keys rest) <> None
  /\ (others xs = [] -> others (insert_many i xs rest) = others rest).
Proof.
  intros H. destruct (find_pos_spec _ _ _ H) as (pre & x & post & -> & <- & Hk & Hpre).
  unfold insert_many. rewrite firstn_app, skipn_app, Nat.sub_diag, firstn_all, skipn_all. simpl. rewrite app_nil_r.
  rewrite !keys_app. simpl. rewrite Hk. simpl.
  rewrite (insert_before_keys t (keys xs) (keys pre) t (keys post)) by (auto; apply keys_has_key_false; exact Hpre).
  repeat split; auto; [discriminate|].
  intros Ho. rewrite !others_app, Ho. reflexivity.
Qed.
End Seq.
