From Coq Require Import List NArith Arith Bool Lia.
Import ListNotations.
Require Import Xml.

Section Seq.
Variable A : Type.
Variable key : A -> option str.

Definition has_key (id : str) (x : A) : bool :=
  match key x with Some k => str_eqb k id | None => false end.

(* python: for i, c in enumerate(parent): if c.tag == tag and id matches: return (c, i) *)
Fixpoint find_from (id : str) (l : list A) (i : nat) : option (A * nat) :=
  match l with
  | [] => None
  | x :: r => if has_key id x then Some (x, i) else find_from id r (S i)
  end.
Definition find (id : str) (l : list A) := find_from id l 0.

Fixpoint remove_at (i : nat) (l : list A) : list A :=
  match l, i with [], _ => [] | _ :: r, O => r | x :: r, S j => x :: remove_at j r end.
(* python list.insert(i, x) for i >= 0: clamps to len *)
Definition insert_at (i : nat) (x : A) (l : list A) : list A := firstn i l ++ x :: skipn i l.
Definition insert_many (i : nat) (xs : list A) (l : list A) : list A := firstn i l ++ xs ++ skipn i l.

(* for k, x in enumerate(xs, start=i): parent.insert(k, x) *)
Fixpoint insert_loop (i : nat) (xs : list A) (l : list A) : list A :=
  match xs with [] => l | x :: r => insert_loop (S i) r (insert_at i x l) end.

Lemma insert_loop_many i xs l : i <= length l -> insert_loop i xs l = insert_many i xs l.
Proof.
  revert i l; induction xs as [|x r IH]; intros i l Hi; simpl.
  - unfold insert_many; simpl. now rewrite firstn_skipn.
  - rewrite IH.
    + unfold insert_many, insert_at.
      assert (Hl: length (firstn i l) = i) by (rewrite firstn_length; lia).
      rewrite firstn_app, skipn_app, Hl.
      replace (S i - i) with 1 by lia.
      rewrite (firstn_all2 (firstn i l)) by lia.
      rewrite (skipn_all2 (firstn i l)) by lia. simpl.
      rewrite <- app_assoc. reflexivity.
    + unfold insert_at. rewrite app_length, firstn_length. simpl. rewrite skipn_length. lia.
Qed.

Definition keys (l : list A) : list str := flat_map (fun x => match key x with Some k => [k] | None => [] end) l.
Definition others (l : list A) : list A := filter (fun x => match key x with Some _ => false | None => true end) l.

Lemma keys_app l1 l2 : keys (l1 ++ l2) = keys l1 ++ keys l2.
Proof. unfold keys. apply flat_map_app. Qed.
Lemma others_app l1 l2 : others (l1 ++ l2) = others l1 ++ others l2.
Proof. unfold others. apply filter_app. Qed.

Lemma find_from_split id l i x j :
  find_from id l i = Some (x, j) ->
  exists pre post, l = pre ++ x :: post /\ j = i + length pre /\ has_key id x = true /\
                   forallb (fun y => negb (has_key id y)) pre = true.
Proof.
  revert i; induction l as [|y r IH]; intros i H; simpl in H; [discriminate|].
  destruct (has_key id y) eqn:E.
  - injection H as <- <-. exists [], r. simpl. repeat split; auto; lia.
  - apply IH in H as (pre & post & -> & -> & Hk & Hall).
    exists (y :: pre), post. simpl. rewrite E. simpl. repeat split; auto; lia.
Qed.

(* insert before target: the protocol on keys *)
Theorem insert_before_keys id l x j xs :
  find id l = Some (x, j) -> (forall y, In y xs -> key y <> None) ->
  exists pre post, l = pre ++ x :: post /\
    keys (insert_loop j xs l) = keys pre ++ keys xs ++ keys (x :: post) /\
    others (insert_loop j xs l) = others l.
Proof.
  intros H Hxs. apply find_from_split in H as (pre & post & -> & -> & Hk & Hall).
  exists pre, post. split; [reflexivity|]. simpl.
  rewrite insert_loop_many by (rewrite app_length; simpl; lia).
  unfold insert_many. rewrite firstn_app, skipn_app, Nat.sub_diag, firstn_all, skipn_all. simpl.
  rewrite app_nil_r. split.
  - rewrite !keys_app. reflexivity.
  - rewrite !others_app. replace (others xs) with (@nil A); [reflexivity|].
    symmetry. unfold others. induction xs as [|z r IH]; simpl; [reflexivity|].
    specialize (Hxs z (or_introl eq_refl)) as Hz. destruct (key z); [|congruence].
    apply IH. intros y Hy. apply Hxs. now right.
Qed.
End Seq.
