"""Subprocess helper: run mosromgr.cli.main on a batch of invocations.
stdin JSON {'repo':..., 'runs': [{'files': {name: text-or-null-or-'<dir>'}, 'argv': [...], 'outfile': name-or-null}]}
(file names in argv are given as @name and replaced by paths in a fresh temp dir)
stdout JSON [{'status':, 'stdout':, 'stderr':, 'outfile': content-or-null}]"""
import sys
import os
import io
import json
import shutil
import tempfile
import contextlib

req = json.load(sys.stdin)
sys.path.insert(0, req['repo'])
import logging
logging.disable(logging.CRITICAL)
from mosromgr.cli import main

out = []
for run in req['runs']:
    d = tempfile.mkdtemp(prefix='mosverif-cli-')
    try:
        # bystanders: files that sit in the directory but are not named on the command line
        for name, content in list(run.get('bystanders', {}).items()) + list(run['files'].items()):
            p = os.path.join(d, name)
            if isinstance(content, str) and content.startswith('<notdir>'):
                # a path with a trailing slash whose last component is a regular file (holding what follows the marker)
                p, content = p.rstrip('/'), content[len('<notdir>'):]
            os.makedirs(os.path.dirname(p), exist_ok=True)
            if content == '<dir>':
                os.mkdir(p)
            elif isinstance(content, dict):
                # {'enc': ..., 'text': ...}: the document stored in that encoding with the matching declaration
                with open(p, 'wb') as f:
                    f.write(('<?xml version="1.0" encoding="%s"?>' % content['enc'] + content['text']).encode(content['enc']))
            elif content is not None:
                with open(p, 'wb') as f:
                    f.write(content.encode('utf-8') if isinstance(content, str) else bytes(content))
        argv = [os.path.join(d, a[1:]) if a.startswith('@') else a for a in run['argv']]
        if run.get('s3') is not None:
            # the S3 variants of the commands run against an in-memory fake (no source change needed)
            sys.path.insert(0, os.path.dirname(os.path.abspath(__file__)))
            import fakes3
            from mosromgr.utils import s3 as s3mod
            fakes3.install(s3mod, objects={k: v.encode('utf-8') for k, v in run['s3'].items()}, lazy=True)
        so, se = io.StringIO(), io.StringIO()
        status = None
        cwd0 = os.getcwd()
        if run.get('cwd'):
            os.chdir(d)                 # the command is run from inside the directory: bare relative names on the command line
        with contextlib.redirect_stdout(so), contextlib.redirect_stderr(se):
            try:
                status = main(argv)
            except SystemExit as e:
                status = 'exit:%r' % (e.code,)
            except BaseException as e:
                status = 'raised:' + type(e).__name__
        os.chdir(cwd0)
        of = None
        if run.get('outfile'):
            p = os.path.join(d, run['outfile'])
            if os.path.exists(p):
                of = open(p, encoding='utf-8').read()
        out.append({'status': status, 'stdout': so.getvalue().replace(d + os.sep, '@'), 'stderr': se.getvalue().replace(d + os.sep, '@'), 'outfile': of})
    finally:
        shutil.rmtree(d, ignore_errors=True)
json.dump(out, sys.stdout)
