"""A fake S3 for mosromgr.utils.s3 (set as s3._client / s3._resource; no source change needed)."""
import io


def filter_pages(pages, prefix):
    if not prefix:
        return pages
    out = []
    for p in pages:
        if 'Contents' in p:
            p = dict(p, Contents=[c for c in p['Contents'] if c['Key'].startswith(prefix)])
        out.append(p)
    return out


class FakePaginator:
    def __init__(self, pages):
        self.pages = pages

    def paginate(self, Bucket=None, Prefix=None, **kw):
        # like S3: only the keys that start with the prefix are listed
        for p in filter_pages(self.pages, Prefix):
            yield p


class FakeClient:
    def __init__(self, pages):
        self.pages = pages

    def get_paginator(self, name):
        assert name == 'list_objects'
        return FakePaginator(self.pages)


class FakeObject:
    def __init__(self, data):
        self.data = data

    def get(self):
        return {'Body': io.BytesIO(self.data)}


class FakeResource:
    def __init__(self, objects):
        self.objects = objects

    def Object(self, bucket, key):
        return FakeObject(self.objects[key])


def install(s3mod, pages=None, objects=None, page_size=2):
    """objects: {key: bytes}; pages default: the keys, page_size per page, with empty pages interleaved"""
    objects = objects or {}
    if pages is None:
        keys = list(objects)
        pages = [{}]
        for i in range(0, len(keys), page_size):
            pages.append({'Contents': [{'Key': k} for k in keys[i:i + page_size]]})
            pages.append({})
    s3mod.s3._client = FakeClient(pages)
    s3mod.s3._resource = FakeResource(objects)
