"""A fake S3 for mosromgr.utils.s3 (set as s3._client / s3._resource; no source change needed)."""
import io


def filter_pages(pages, prefix):
    if not prefix:
        return pages
    out = []
    for p in pages:
        if 'Contents' in p:
            p = dict(p, Contents=[c for c in p['Contents'] if c['Key'].startswith(prefix)])
        out.append(p)
    return out


class FakePaginator:
    def __init__(self, pages):
        self.pages = pages

    def paginate(self, Bucket=None, Prefix=None, **kw):
        # like S3: only the keys that start with the prefix are listed
        for p in filter_pages(self.pages, Prefix):
            yield p


class FakeClient:
    def __init__(self, pages):
        self.pages = pages

    def get_paginator(self, name):
        assert name == 'list_objects'
        return FakePaginator(self.pages)


class FakeObject:
    def __init__(self, data):
        self.data = data

    def get(self):
        return {'Body': io.BytesIO(self.data)}


class FakeResource:
    def __init__(self, objects, bucket=None):
        self.objects = objects
        self.bucket = bucket

    def Object(self, bucket, key):
        if self.bucket is not None and bucket != self.bucket:
            raise KeyError('NoSuchBucket: %r' % (bucket,))
        if key not in self.objects:
            raise KeyError('NoSuchKey: %r' % (key,))
        return FakeObject(self.objects[key])


# keys as they occur in real buckets: characters that URL decoding, path normalisation, stripping, case folding or
# Unicode normalisation would change
KEY_SHAPES = ['k.mos.xml', 'prog/20210101T120000+0100-1.mos.xml', 'a%41b%2Fc.mos.xml', 'sp ace/caf\u00e9.mos.xml',
              'a//b/./c/../d.mos.xml', ' lead-and-trail .mos.xml', 'Upper/CASE.mos.xml', 'e\u0301-combining.mos.xml',
              'q?versionId=1#frag.mos.xml', 'back\\slash.mos.xml', '/rooted/k.mos.xml', 'dir/.mos.xml']


def key_variants(key):
    """other keys a careless implementation might ask for instead of *key*"""
    import urllib.parse
    import posixpath
    import unicodedata
    vs = [urllib.parse.unquote_plus(key), urllib.parse.unquote(key), urllib.parse.quote(key), urllib.parse.quote_plus(key),
          key.strip(), key.lower(), key.lstrip('/'), posixpath.normpath(key), key.replace('\\', '/'),
          unicodedata.normalize('NFC', key), unicodedata.normalize('NFD', key), key.split('?')[0], key.split('#')[0]]
    return [v for v in dict.fromkeys(vs) if v != key]


def with_decoys(objects, decoy):
    """*objects* plus a decoy object under every variant of every key (never replacing a real one)"""
    out = dict(objects)
    for k in objects:
        for v in key_variants(k):
            out.setdefault(v, decoy)
    return out


class FakeBoto:
    """stands in for the boto3 module inside mosromgr.utils.s3, so that the deferred creation of the handles runs"""
    def __init__(self, client, resource):
        self._c, self._r = client, resource
        self.calls = []

    def client(self, name, *a, **kw):
        self.calls.append(('client', name))
        if name != 's3':
            raise ValueError('unknown service: %r' % (name,))
        return self._c

    def resource(self, name, *a, **kw):
        self.calls.append(('resource', name))
        if name != 's3':
            raise ValueError('unknown service: %r' % (name,))
        return self._r


def install(s3mod, pages=None, objects=None, page_size=2, bucket=None, listed=None, lazy=False):
    """objects: {key: bytes}; pages default: the keys, page_size per page, with empty pages interleaved"""
    objects = objects or {}
    if pages is None:
        keys = list(objects) if listed is None else list(listed)
        pages = [{}]
        for i in range(0, len(keys), page_size):
            pages.append({'Contents': [{'Key': k} for k in keys[i:i + page_size]]})
            pages.append({})
    if lazy:
        # the handles are not there yet: mosromgr creates them on first use, through (a stand-in for) boto3
        s3mod.s3._client = None
        s3mod.s3._resource = None
        s3mod.boto3 = FakeBoto(FakeClient(pages), FakeResource(objects, bucket))
        return
    s3mod.s3._client = FakeClient(pages)
    s3mod.s3._resource = FakeResource(objects, bucket)
