"""Runs cases through the implementation and the extracted model and pairs the outcomes."""
import os
import subprocess
import tempfile
from concurrent.futures import ThreadPoolExecutor

import exchange as X
import impl

HERE = os.path.dirname(os.path.abspath(__file__))
MODEL = os.path.join(os.path.dirname(HERE), 'ocaml', 'model')
NPROC = int(os.environ.get('VERIF_JOBS', '8'))


def run_model(lines):
    """feed lines to the extracted model (sharded over processes); returns output lines"""
    if not lines:
        return []
    nshard = max(1, min(NPROC, len(lines) // 200 + 1))
    shards = [lines[i::nshard] for i in range(nshard)]

    def one(shard):
        r = subprocess.run([MODEL], input='\n'.join(shard) + '\n', capture_output=True,
                           text=True, check=True)
        out = r.stdout.split('\n')
        if out and out[-1] == '':
            out.pop()
        if len(out) != len(shard):
            raise RuntimeError('model printed %d lines for %d cases' % (len(out), len(shard)))
        return out
    with ThreadPoolExecutor(nshard) as ex:
        outs = list(ex.map(one, shards))
    res = [None] * len(lines)
    for k, out in enumerate(outs):
        res[k::nshard] = out
    return res


def oracle_prefix(elems):
    nums, times = impl.oracle_tables(elems)
    return X.table_toks(nums) + ' ' + X.table_toks(times)


def parse_outcome(toks):
    """<Class> <err> W<n> <warn>* <tree> -> dict ; or classerr <exn>"""
    if toks[0] == 'classerr':
        return {'classerr': toks[1]}
    cls, err = toks[0], toks[1]
    n = int(toks[2][1:])
    warns = toks[3:3 + n]
    tree = X.Reader(toks, 3 + n).tree()
    return {'cls': cls, 'err': None if err == 'none' else err, 'warns': list(warns), 'tree': tree}


def add_cases(cases):
    """for each {'ro','msg'} case: (impl outcome, model outcome) as dicts"""
    lines = []
    impl_out = []
    for c in cases:
        ro_e = impl.parse_doc(c['ro'])
        msg_e = impl.parse_doc(c['msg'])
        lines.append('add %s %s %s' % (oracle_prefix([ro_e, msg_e]), X.elem_line(ro_e), X.elem_line(msg_e)))
        impl_out.append(impl.run_add(c['ro'], c['msg']))
    model_out = [parse_outcome(l.split(' ')) for l in run_model(lines)]
    return list(zip(impl_out, model_out))


def hist_cases(cases):
    """for each {'ro','msgs'} case: (impl steps, model steps)"""
    lines = []
    impl_out = []
    for c in cases:
        ro_e = impl.parse_doc(c['ro'])
        ms = [impl.parse_doc(m) for m in c['msgs']]
        lines.append('hist %s %s %d %s' % (oracle_prefix([ro_e] + ms), X.elem_line(ro_e), len(ms),
                                           ' '.join(X.elem_line(m) for m in ms)))
        impl_out.append(impl.run_hist(c['ro'], c['msgs']))
    res = []
    for io, l in zip(impl_out, run_model(lines)):
        steps = [parse_outcome(s.strip().split(' ')) for s in l.split(' ; ') if s.strip()]
        res.append((io, steps))
    return res


def same_outcome(a, b, keys=('classerr', 'cls', 'err', 'warns', 'tree')):
    return all(a.get(k) == b.get(k) for k in keys)


def schema_flags(cases):
    """model's guards per {'ro','msg'} case: dict(wf, msg, schema, payload, timing) or None"""
    lines = []
    for c in cases:
        ro_e = impl.parse_doc(c['ro'])
        msg_e = impl.parse_doc(c['msg'])
        lines.append('schema %s %s %s' % (oracle_prefix([ro_e, msg_e]), X.elem_line(ro_e), X.elem_line(msg_e)))
    out = []
    for l in run_model(lines):
        if l.startswith('noclass'):
            out.append(None)
        else:
            out.append({kv.split('=')[0]: kv.split('=')[1] == '1' for kv in l.split(' ')})
    return out


def classify_cases(texts):
    """model classification of parsed documents: ('ok', cls, completed) | ('err', exn)"""
    lines = ['classify ' + X.elem_line(impl.parse_doc(t)) for t in texts]
    res = []
    for l in run_model(lines):
        t = l.split(' ')
        res.append(('ok', t[1], t[2] == '1') if t[0] == 'ok' else ('err', t[1]))
    return res


def coll_cases(cases):
    """for each {'docs': [...], 'inc': bool, 'strict': bool}: model outcome
    {'err0': exn} | {'err':, 'warns':, 'tree':}"""
    lines = []
    for c in cases:
        es = [impl.parse_doc(t) for t in c['docs']]
        lines.append('coll %s %d %d %d %s' % (oracle_prefix(es), 1 if c['inc'] else 0, 1 if c['strict'] else 0,
                                               len(es), ' '.join(X.elem_line(e) for e in es)))
    res = []
    for l in run_model(lines):
        t = l.split(' ')
        if t[0] == 'err':
            res.append({'err0': t[1]})
        else:
            err = t[1]
            n = int(t[2][1:])
            res.append({'err': None if err == 'none' else err, 'warns': t[3:3 + n],
                        'tree': X.Reader(t, 3 + n).tree()})
    return res


def readers_cases(cases):
    """for each {'docs', 'inc'}: ('err', exn) | ('ok', ro_mid, [(mid, cls)...])"""
    lines = []
    for c in cases:
        es = [impl.parse_doc(t) for t in c['docs']]
        lines.append('readers %d %d %s' % (1 if c['inc'] else 0, len(es), ' '.join(X.elem_line(e) for e in es)))
    res = []
    for l in run_model(lines):
        t = l.split(' ')
        if t[0] == 'err':
            res.append(('err', t[1]))
        else:
            res.append(('ok', int(t[1]), [(int(x.split(':')[0]), x.split(':')[1]) for x in t[2:]]))
    return res
