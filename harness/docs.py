"""Builders for MOS documents (running orders and every message type).

A reference value is a string (the ID text), None (tag present but blank) or ABSENT
(tag omitted)."""
from xml.etree import ElementTree as ET

ABSENT = '<absent>'


def E(tag, *kids, text=None, tail=None, **attrs):
    e = ET.Element(tag, {k: v for k, v in attrs.items()})
    e.text = text
    e.tail = tail
    for k in kids:
        if k is not None:
            e.append(k)
    return e


def ref(tag, v):
    """an ID tag for a reference value, or None when absent"""
    if v == ABSENT:
        return None
    return E(tag, text=v)


def to_text(e, pretty=False):
    if pretty:
        import copy
        e = copy.deepcopy(e)
        ET.indent(e)
    return ET.tostring(e, encoding='unicode')


def mos(message_id, *body, mos_id='MOS', ncs_id='NCS'):
    return E('mos', E('mosID', text=mos_id), E('ncsID', text=ncs_id),
             None if message_id == ABSENT else E('messageID', text=None if message_id is None else str(message_id)),
             *body)


def payload(duration=None, text_time=None, media_time=None, started=None, ended=None, extra=()):
    kids = []
    if duration is not None:
        kids.append(E('StoryDuration', text=duration))
    if text_time is not None:
        kids.append(E('TextTime', text=text_time))
    if media_time is not None:
        kids.append(E('MediaTime', text=media_time))
    if started is not None:
        kids.append(E('StoryStarted', text=started))
    if ended is not None:
        kids.append(E('StoryEnded', text=ended))
    kids.extend(extra)
    return E('mosExternalMetadata', E('mosSchema', text='http://schema/story'), E('mosPayload', *kids))


def item(iid, slug=None, extra=(), obj_id=None):
    return E('item', ref('itemID', iid),
             None if slug is None else E('itemSlug', text=slug),
             None if obj_id is None else E('objID', text=obj_id), *extra)


def story(sid, body=(), slug=None, meta=None, extra=(), tag='story'):
    """body: sequence of elements (items, paragraphs, others) in document order"""
    return E(tag, ref('storyID', sid),
             None if slug is None else E('storySlug', text=slug),
             *body, meta, *extra)


def p(text=None):
    return E('p', text=text)


def ro_create(kids, ro_id='RO1', slug='Slug', message_id=1, extra_root=()):
    """kids: the children of roCreate after roID/roSlug are up to the caller"""
    return mos(message_id, E('roCreate', *kids), *extra_root)


def ro_head(ro_id='RO1', slug='Slug'):
    return [E('roID', text=ro_id), E('roSlug', text=slug)]


# ---- messages ------------------------------------------------------------

def story_send(mid, sid, body=(), pre=(), post=(), ro_id='RO1', with_body=True):
    """roStorySend: pre children, storyBody (holding body), post children"""
    kids = [E('roID', text=ro_id), ref('storyID', sid), *pre]
    if with_body:
        kids.append(E('storyBody', *body))
    kids.extend(post)
    return mos(mid, E('roStorySend', *kids))


def story_append(mid, stories, ro_id='RO1'):
    return mos(mid, E('roStoryAppend', E('roID', text=ro_id), *stories))


def story_delete(mid, ids, ro_id='RO1'):
    return mos(mid, E('roStoryDelete', E('roID', text=ro_id), *[ref('storyID', i) for i in ids]))


def story_insert(mid, target, stories, ro_id='RO1'):
    return mos(mid, E('roStoryInsert', E('roID', text=ro_id), ref('storyID', target), *stories))


def story_move(mid, ids, ro_id='RO1'):
    return mos(mid, E('roStoryMove', E('roID', text=ro_id), *[ref('storyID', i) for i in ids]))


def story_replace(mid, target, stories, ro_id='RO1'):
    return mos(mid, E('roStoryReplace', E('roID', text=ro_id), ref('storyID', target), *stories))


def item_delete(mid, sid, ids, ro_id='RO1'):
    return mos(mid, E('roItemDelete', E('roID', text=ro_id), ref('storyID', sid),
                      *[ref('itemID', i) for i in ids]))


def item_insert(mid, sid, target, items, ro_id='RO1'):
    return mos(mid, E('roItemInsert', E('roID', text=ro_id), ref('storyID', sid),
                      ref('itemID', target), *items))


def item_move_multiple(mid, sid, ids, ro_id='RO1'):
    return mos(mid, E('roItemMoveMultiple', E('roID', text=ro_id), ref('storyID', sid),
                      *[ref('itemID', i) for i in ids]))


def item_replace(mid, sid, target, items, ro_id='RO1'):
    return mos(mid, E('roItemReplace', E('roID', text=ro_id), ref('storyID', sid),
                      ref('itemID', target), *items))


def ro_replace(mid, kids, ro_id='RO1', slug='Replaced'):
    return mos(mid, E('roReplace', E('roID', text=ro_id), E('roSlug', text=slug), *kids))


def metadata_replace(mid, kids, ro_id='RO1'):
    return mos(mid, E('roMetadataReplace', E('roID', text=ro_id), *kids))


def ready_to_air(mid, ro_id='RO1'):
    return mos(mid, E('roReadyToAir', E('roID', text=ro_id), E('roAir', text='READY')))


def ro_delete(mid, ro_id='RO1'):
    return mos(mid, E('roDelete', E('roID', text=ro_id)))


def element_action(mid, operation, target, sources, ro_id='RO1'):
    """target: None (no element_target) or list of child elements;
    sources: list of lists of child elements, one element_source per inner list;
    operation: string or ABSENT"""
    attrs = {} if operation == ABSENT else {'operation': operation}
    kids = [E('roID', text=ro_id)]
    if target is not None:
        kids.append(E('element_target', *[k for k in target if k is not None]))
    for s in sources:
        kids.append(E('element_source', *[k for k in s if k is not None]))
    return mos(mid, E('roElementAction', *kids, **attrs))


def ea_target(sid, iid=ABSENT):
    return [ref('storyID', sid), ref('itemID', iid)]
