"""Static extractions from /repo's source (Python ast): additional ties where a table or a
discipline is the whole story.

  copy_discipline(repo)  -> list of call sites that insert a node which is neither a deep copy
                            nor one of the running order's own nodes (C13)
  class_tables(repo)     -> the tag -> class table and the roElementAction shape table (C08)
  validate_asserts(repo) -> assert statements left in MosCollection._validate (C11)
"""
import ast
import os


def _src(node):
    return ast.unparse(node)


def _is_deepcopy(node):
    return isinstance(node, ast.Call) and _src(node.func) in ('copy.deepcopy', 'deepcopy')


class _FuncVisitor(ast.NodeVisitor):
    def __init__(self):
        self.sites = []
        self.func = None
        self.cls = None
        self.deep_vars = set()

    def visit_ClassDef(self, node):
        old = self.cls
        self.cls = node.name
        self.generic_visit(node)
        self.cls = old

    def visit_FunctionDef(self, node):
        old, oldv = self.func, self.deep_vars
        self.func = node.name
        self.deep_vars = set()
        for n in ast.walk(node):
            if isinstance(n, ast.Assign) and _is_deepcopy(n.value):
                for t in n.targets:
                    if isinstance(t, ast.Name):
                        self.deep_vars.add(t.id)
        self.generic_visit(node)
        self.func, self.deep_vars = old, oldv

    def visit_Call(self, node):
        name = _src(node.func)
        inserted = None
        if name in ('insert_node', 'append_node', 'replace_node'):
            for kw in node.keywords:
                if kw.arg in ('node', 'new_node'):
                    inserted = kw.value
            if inserted is None:
                pos = {'insert_node': 1, 'append_node': 1, 'replace_node': 2}[name]
                if len(node.args) > pos:
                    inserted = node.args[pos]
        elif isinstance(node.func, ast.Attribute) and node.func.attr in ('append', 'insert', 'extend') and \
                _src(node.func.value) not in ('stories', 'items', 'source_items', 'files', 'warns', 'kids', 'out'):
            base = _src(node.func.value)
            if base in ('mosromgrmeta', 'parent', 'story', 'ro.base_tag', 'ro.xml', 'ss_tag') or base.endswith('.xml') or base.endswith('base_tag'):
                inserted = node.args[-1] if node.args else None
        if inserted is not None:
            self.sites.append({'class': self.cls, 'function': self.func, 'line': node.lineno, 'call': name,
                               'node': _src(inserted), 'ok': self.allowed(inserted)})
        self.generic_visit(node)

    def allowed(self, expr):
        if _is_deepcopy(expr):
            return 'deep copy'
        if isinstance(expr, ast.Name) and expr.id in self.deep_vars:
            return 'variable holding a deep copy'
        if self.func in ('_move_before', '_swap'):
            return "the parent's own nodes (helper)"
        if self.func in ('insert_node', 'append_node', 'replace_node'):
            return 'primitive definition'
        if self.func == '_convert_story_send_to_story_tag' and 'ss_tag' in self.deep_vars:
            return 'children of the private deep copy'
        if self.cls == 'StorySend' and self.func == 'merge' and _src(expr) == 'self.story.xml':
            return 'fresh conversion (deep copy) of the roStorySend'
        return None


def copy_discipline(repo):
    sites = []
    for rel in ('mosromgr/mostypes.py', 'mosromgr/utils/xml.py', 'mosromgr/moscollection.py'):
        p = os.path.join(repo, rel)
        v = _FuncVisitor()
        v.visit(ast.parse(open(p).read()))
        for s in v.sites:
            s['file'] = rel
        sites += v.sites
    # StorySend.story must go through the converting deep copy
    tree = ast.parse(open(os.path.join(repo, 'mosromgr/mostypes.py')).read())
    conv_ok = False
    for n in ast.walk(tree):
        if isinstance(n, ast.FunctionDef) and n.name == '_convert_story_send_to_story_tag':
            first = [s for s in n.body if isinstance(s, ast.Assign)]
            conv_ok = bool(first) and _is_deepcopy(first[0].value)
    if not conv_ok:
        sites.append({'file': 'mosromgr/mostypes.py', 'class': 'StorySend', 'function': '_convert_story_send_to_story_tag',
                      'line': 0, 'call': 'deepcopy', 'node': 'ss_tag_orig', 'ok': None})
    return sites


def class_tables(repo):
    """({tag: class name} in source order, {(operation, target_item, source_item): class name})"""
    tree = ast.parse(open(os.path.join(repo, 'mosromgr/mostypes.py')).read())
    tags, shapes = None, None
    for n in ast.walk(tree):
        if isinstance(n, ast.Dict) and n.keys and all(isinstance(k, ast.Constant) and isinstance(k.value, str) for k in n.keys):
            if any(k.value == 'roCreate' for k in n.keys):
                tags = [(k.value, _src(v)) for k, v in zip(n.keys, n.values)]
        if isinstance(n, ast.Dict) and n.keys and all(isinstance(k, ast.Tuple) for k in n.keys):
            shapes = {tuple(ast.literal_eval(k)): _src(v) for k, v in zip(n.keys, n.values)}
    return tags, shapes


def validate_asserts(repo):
    tree = ast.parse(open(os.path.join(repo, 'mosromgr/moscollection.py')).read())
    out = []
    for n in ast.walk(tree):
        if isinstance(n, ast.FunctionDef) and n.name == '_validate':
            out = [a.lineno for a in ast.walk(n) if isinstance(a, ast.Assert)]
    return out


if __name__ == '__main__':
    import json
    import sys
    repo = sys.argv[1] if len(sys.argv) > 1 else '/repo'
    print(json.dumps({'sites': copy_discipline(repo), 'tables': [class_tables(repo)[0], {str(k): v for k, v in class_tables(repo)[1].items()}],
                      'asserts': validate_asserts(repo)}, indent=1))
