"""Translator for the classification tables: the two dict literals of mosromgr/mostypes.py
(tag -> class in MosFile._classify, (operation, target_item, source_item) -> class in
ElementAction._classify), the base_tag_name of every class, the exception hierarchy of exc.py and the
except clause of MosCollection.merge are read from the current source with `ast`, emitted as Coq terms into
work/GenTables.v and proved equal to the model's tables (Classify.tag_class_map, Classify.ea_table)
by the kernel.  Fail closed: anything the translator does not recognise is an error, not a guess.

The theorems C08_factor / C08_table are about `classify`, which is defined from those two tables;
this ties the tables to what the source says now."""
import os
import ast
import subprocess

ROOT = os.path.dirname(os.path.dirname(os.path.abspath(__file__)))
COQ = os.path.join(ROOT, 'coq')
CLASSES = {'RunningOrder', 'StorySend', 'StoryAppend', 'StoryDelete', 'StoryInsert', 'StoryMove', 'StoryReplace', 'ItemDelete',
           'ItemInsert', 'ItemMoveMultiple', 'ItemReplace', 'RunningOrderReplace', 'MetaDataReplace', 'ReadyToAir', 'RunningOrderEnd',
           'EAStoryReplace', 'EAItemReplace', 'EAStoryDelete', 'EAItemDelete', 'EAStoryInsert', 'EAItemInsert', 'EAStorySwap',
           'EAItemSwap', 'EAStoryMove', 'EAItemMove'}


class Untranslatable(Exception):
    pass


def cstr(s):
    if not isinstance(s, str) or not s.isascii():
        raise Untranslatable('not an ASCII string literal: %r' % (s,))
    return '[' + '; '.join(str(ord(c)) for c in s) + ']'


def find_method(tree, cls, name):
    for n in tree.body:
        if isinstance(n, ast.ClassDef) and n.name == cls:
            for f in n.body:
                if isinstance(f, ast.FunctionDef) and f.name == name:
                    return f
    raise Untranslatable('%s.%s not found' % (cls, name))


def dict_literals(fn):
    return [n for n in ast.walk(fn) if isinstance(n, ast.Dict)]


def translate(repo):
    """returns the text of GenTables.v"""
    tree = ast.parse(open(os.path.join(repo, 'mosromgr/mostypes.py')).read())
    # --- MosFile._classify: {'roCreate': RunningOrder, ..., 'roElementAction': ElementAction}
    ds = [d for d in dict_literals(find_method(tree, 'MosFile', '_classify'))]
    if len(ds) != 1:
        raise Untranslatable('MosFile._classify: expected one dict literal, found %d' % len(ds))
    rows = []
    for k, v in zip(ds[0].keys, ds[0].values):
        if not (isinstance(k, ast.Constant) and isinstance(v, ast.Name)):
            raise Untranslatable('MosFile._classify: entry %s: %s' % (ast.dump(k), ast.dump(v)))
        if v.id == 'ElementAction':
            rows.append('(%s, None)' % cstr(k.value))
        elif v.id in CLASSES:
            rows.append('(%s, Some %s)' % (cstr(k.value), v.id))
        else:
            raise Untranslatable('MosFile._classify: unknown class %s' % v.id)
    # --- ElementAction._classify: {('REPLACE', False, False): EAStoryReplace, ...}
    ds = [d for d in dict_literals(find_method(tree, 'ElementAction', '_classify'))]
    if len(ds) != 1:
        raise Untranslatable('ElementAction._classify: expected one dict literal, found %d' % len(ds))
    erows = []
    for k, v in zip(ds[0].keys, ds[0].values):
        if not (isinstance(k, ast.Tuple) and len(k.elts) == 3 and all(isinstance(e, ast.Constant) for e in k.elts) and isinstance(v, ast.Name)):
            raise Untranslatable('ElementAction._classify: entry %s' % ast.dump(k))
        op, t, s = (e.value for e in k.elts)
        if not (isinstance(t, bool) and isinstance(s, bool)) or v.id not in CLASSES:
            raise Untranslatable('ElementAction._classify: entry (%r, %r, %r): %s' % (op, t, s, v.id))
        erows.append('((%s, %s, %s), %s)' % (cstr(op), str(t).lower(), str(s).lower(), v.id))
    # --- base_tag_name of every class (own property or the nearest base class that defines one)
    classes = {n.name: n for n in tree.body if isinstance(n, ast.ClassDef)}

    def base_tag_of(name, depth=0):
        if name not in classes or depth > 10:
            raise Untranslatable('base_tag_name: class %s not found' % name)
        c = classes[name]
        for f in c.body:
            if isinstance(f, ast.FunctionDef) and f.name == 'base_tag_name':
                rets = [n for n in ast.walk(f) if isinstance(n, ast.Return)]
                if len(rets) == 1 and isinstance(rets[0].value, ast.Constant) and isinstance(rets[0].value.value, str):
                    return rets[0].value.value
                if not rets:
                    break               # the abstract property of MosFile: look further up
                raise Untranslatable('base_tag_name of %s is not a single string literal' % name)
        for b in c.bases:
            if isinstance(b, ast.Name) and b.id in classes:
                try:
                    return base_tag_of(b.id, depth + 1)
                except Untranslatable:
                    continue
        raise Untranslatable('base_tag_name of %s not found' % name)
    brows = ['(%s, %s)' % (c, cstr(base_tag_of(c))) for c in sorted(CLASSES)]
    # --- the exception hierarchy (exc.py): which of the library's exceptions are MosMergeError
    etree = ast.parse(open(os.path.join(repo, 'mosromgr/exc.py')).read())
    eclasses = {n.name: [b.id for b in n.bases if isinstance(b, ast.Name)] for n in etree.body if isinstance(n, ast.ClassDef)}

    def is_sub(name, anc, depth=0):
        if name == anc:
            return True
        return depth < 10 and any(is_sub(b, anc, depth + 1) for b in eclasses.get(name, []))
    xrows = []
    for e in ('MosMergeError', 'MosCompletedMergeError', 'UnknownMosFileType', 'MosInvalidXML', 'InvalidMosCollection'):
        if e not in eclasses or not is_sub(e, 'MosRoMgrException'):
            raise Untranslatable('exception %s is not a MosRoMgrException in exc.py' % e)
        xrows.append('(%s, %s)' % (e, str(is_sub(e, 'MosMergeError')).lower()))
    # --- MosCollection.merge downgrades exactly MosMergeError (and its subclasses)
    ctree = ast.parse(open(os.path.join(repo, 'mosromgr/moscollection.py')).read())
    handlers = [h for h in ast.walk(find_method(ctree, 'MosCollection', 'merge')) if isinstance(h, ast.ExceptHandler)]
    if len(handlers) != 1 or not (isinstance(handlers[0].type, ast.Name) and handlers[0].type.id == 'MosMergeError'):
        raise Untranslatable('MosCollection.merge: expected exactly one handler, `except MosMergeError`')
    return '\n'.join([
        '(* generated by harness/gentables.py from mosromgr/mostypes.py - do not edit *)',
        'From Coq Require Import List NArith Bool.', 'Import ListNotations.',
        'From Mos Require Import Str Classify.', 'Local Open Scope N_scope.', '',
        'Definition src_tag_class_map : list (str * option mclass) :=', '  [ ' + ';\n    '.join(rows) + ' ].', '',
        'Definition src_ea_table : list ((str * bool * bool) * mclass) :=', '  [ ' + ';\n    '.join(erows) + ' ].', '',
        '(* what the source says is what the model is defined from *)',
        'Lemma tag_table_is_the_source : src_tag_class_map = tag_class_map.', 'Proof. vm_compute. reflexivity. Qed.',
        'Lemma ea_table_is_the_source : src_ea_table = ea_table.', 'Proof. vm_compute. reflexivity. Qed.', '',
        'Definition src_base_tags : list (mclass * str) :=', '  [ ' + ';\n    '.join(brows) + ' ].', '',
        'Lemma base_tags_are_the_source :',
        '  length src_base_tags = 25%nat /\\ forallb (fun p => str_eqb (base_tag_name (fst p)) (snd p)) src_base_tags = true.',
        'Proof. split; vm_compute; reflexivity. Qed.', '',
        'From Mos Require Import Outcome.',
        'Definition src_merge_errors : list (exn * bool) :=', '  [ ' + '; '.join(xrows) + ' ].', '',
        '(* the exceptions a non-strict collection merge downgrades (except MosMergeError) *)',
        'Lemma merge_errors_are_the_source :',
        '  forallb (fun p => Bool.eqb (is_merge_error (fst p)) (snd p)) src_merge_errors = true.',
        'Proof. vm_compute. reflexivity. Qed.', ''])


def run(repo, log=print):
    import tempfile
    import shutil
    os.makedirs(os.path.join(ROOT, 'work'), exist_ok=True)
    try:
        text = translate(repo)
    except (Untranslatable, SyntaxError, OSError) as e:
        return {'ok': False, 'stage': 'translate', 'detail': str(e)}
    d = tempfile.mkdtemp(prefix='gen-', dir=os.path.join(ROOT, 'work'))      # private: checks may run in parallel
    try:
        p = os.path.join(d, 'GenTables.v')
        open(p, 'w').write(text)
        r = subprocess.run(['coqc', '-Q', os.path.join(COQ, 'theories'), 'Mos', p], capture_output=True, text=True, timeout=300)
        os.replace(p, os.path.join(ROOT, 'work', 'GenTables.v'))                # the last generated file, for inspection
    finally:
        shutil.rmtree(d, ignore_errors=True)
    if r.returncode != 0:
        return {'ok': False, 'stage': 'coqc', 'detail': (r.stdout + r.stderr)[-600:]}
    return {'ok': True, 'rows': text.count('Some ') + text.count('None)') + text.count('), EA')}


if __name__ == '__main__':
    import sys
    print(run(sys.argv[1] if len(sys.argv) > 1 else '/repo'))
