"""Runs the real mosromgr code (from $MOSROMGR_REPO, default /repo) and records observables."""
import os
import sys
import logging
import warnings
from fractions import Fraction
from xml.etree import ElementTree as ET

REPO = os.environ.get('MOSROMGR_REPO', '/repo')
if sys.path[0] != REPO:
    sys.path.insert(0, REPO)
logging.disable(logging.CRITICAL)

import mosromgr  # noqa: E402
from mosromgr import mostypes, moscollection, moselements, exc  # noqa: E402
from mosromgr.mostypes import MosFile, RunningOrder  # noqa: E402
from dateutil.parser import parse as du_parse  # noqa: E402

assert os.path.realpath(mosromgr.__file__).startswith(os.path.realpath(REPO)), mosromgr.__file__

from exchange import elem_to_tree, tree_line  # noqa: E402

NUM_TAGS = ('StoryDuration', 'TextTime', 'MediaTime')
TIME_TAGS = ('roEdStart', 'StoryStarted', 'StoryEnded')


def ename(e):
    """the name under which an exception is observed: its nearest class that is a built-in or one of mosromgr's own (so
    dateutil's ParserError counts as the ValueError it is, xml's ParseError as the SyntaxError it is)"""
    for k in type(e).__mro__:
        if k.__module__ == 'builtins' or k.__module__.startswith('mosromgr'):
            return k.__name__
    return type(e).__name__


def wnames(ws):
    return [w.category.__name__ for w in ws if issubclass(w.category, exc.MosRoMgrWarning)]


def other_warnings(ws):
    return [w.category.__name__ for w in ws if not issubclass(w.category, exc.MosRoMgrWarning)]


def num_us(text):
    """float(text) in microseconds, to the nearest one (None = float() raises ValueError)"""
    try:
        f = float(text)
    except ValueError:
        return None
    try:
        return round(Fraction(f) * 1000000)
    except (ValueError, OverflowError):
        return None


def time_us(text):
    """dateutil parse(text) in microseconds (naive datetimes read as UTC); None = raises"""
    import datetime
    try:
        d = du_parse(text)
    except Exception:
        return None
    if d.tzinfo is None:
        d = d.replace(tzinfo=datetime.timezone.utc)
    delta = d - datetime.datetime(1970, 1, 1, tzinfo=datetime.timezone.utc)
    return (delta.days * 86400 + delta.seconds) * 1000000 + delta.microseconds


def oracle_tables(elems):
    nums, times = {}, {}
    for root in elems:
        for e in root.iter():
            if e.text is None:
                continue
            if e.tag in NUM_TAGS:
                nums[e.text] = num_us(e.text)
            elif e.tag in TIME_TAGS:
                times[e.text] = time_us(e.text)
    return nums, times


def parse_doc(text):
    return ET.fromstring(text)


def run_add(ro_text, msg_text):
    """ro + msg on freshly parsed objects.
    Returns dict(cls, err, warns, tree, returned_self, other_warnings)"""
    try:
        ro = RunningOrder.from_string(ro_text)
    except Exception as e:
        # a running order that cannot be read: an observation like any other (the model reads every well-formed document)
        return {'classerr': 'running order: ' + ename(e)}
    try:
        m = MosFile.from_string(msg_text)
    except Exception as e:
        return {'classerr': ename(e)}
    with warnings.catch_warnings(record=True) as ws:
        warnings.simplefilter('always')
        err = None
        ret = None
        try:
            ret = ro + m
        except Exception as e:
            err = ename(e)
    return {
        'cls': type(m).__name__,
        'err': err,
        'warns': wnames(ws),
        'tree': elem_to_tree(ro.xml),
        'returned_self': ret is ro if err is None else None,
        'other_warnings': other_warnings(ws),
    }


def run_hist(ro_text, msg_texts):
    """fold of ro += msg, stopping at the first exception; every intermediate outcome"""
    ro = RunningOrder.from_string(ro_text)
    steps = []

    def repr_completed():
        try:
            return 'completed' in repr(ro)
        except Exception as e:
            return ename(e)                       # an exception is a value of the observation
    try:
        _ = ro.completed
    except Exception:
        pass
    repr_completed()
    for mt in msg_texts:
        try:
            m = MosFile.from_string(mt)
        except Exception as e:
            steps.append({'classerr': ename(e)})
            break
        with warnings.catch_warnings(record=True) as ws:
            warnings.simplefilter('always')
            err = None
            try:
                ro += m
            except Exception as e:
                err = ename(e)
        try:
            comp = bool(ro.completed)
        except Exception as e:
            comp = ename(e)
        steps.append({'cls': type(m).__name__, 'err': err, 'warns': wnames(ws),
                      'tree': elem_to_tree(ro.xml), 'completed': comp,
                      'repr_completed': repr_completed()})
    return steps


def encode_doc(t):
    """the bytes of a document as a file or an S3 object holds it: in the encoding its XML declaration names"""
    import re
    m = re.match(r'''<\?xml[^>]*encoding=["']([^"']+)''', t)
    return t.encode(m.group(1) if m else 'utf-8')


def run_coll(texts, allow_incomplete, strict, how='strings', tmpdir=None, again=False):
    saved = None
    if how == 's3':
        import fakes3
        from mosromgr.utils import s3 as s3mod
        saved = (s3mod, s3mod.s3._client, s3mod.s3._resource)
        objects = {}
        for i, t in enumerate(texts):
            # key names whose lexicographic order differs from the numeric message-ID order
            # and with characters that URL decoding, stripping or normalising would change
            objects['ro/%d-%s%s.mos.xml' % ((i * 7) % 11, 'abcdefgh'[i % 8], ['', '+0100', '%41', ' sp', '/./x', '\u00e9'][i % 6])] = encode_doc(t)
        objects['ro/ignored.txt'] = b'not a mos file'
        listed = list(objects)
        decoy = b'<mos><mosID>DECOY</mosID><ncsID>NCS</ncsID><messageID>424242</messageID><roReadyToAir><roID>DECOY</roID><roAir>READY</roAir></roReadyToAir></mos>'
        fakes3.install(s3mod, objects=fakes3.with_decoys(objects, decoy), bucket='b', listed=listed)
    try:
        with warnings.catch_warnings(record=True) as ws:
            warnings.simplefilter('always')
            try:
                if how == 'strings':
                    mc = moscollection.MosCollection.from_strings(texts, allow_incomplete=allow_incomplete)
                elif how == 'files':
                    paths = []
                    written = {}
                    names = ['0.mos.xml', 'msg[1].mos.xml', 'copy (2) a+b%41.mos.xml', 'q?*.mos.xml']
                    for i, t in enumerate(texts):
                        if t not in written:
                            # files spread over four directories, the same base names in each; names with glob
                            # metacharacters, beside a bystander ('msg1.mos.xml') that such a pattern would match
                            d = os.path.join(tmpdir, 'part%d' % (i % 4))
                            os.makedirs(d, exist_ok=True)
                            name = names[(i // 4) % 4] if i < 16 else 'f%04d.mos.xml' % i
                            written[t] = os.path.join(d, name)
                            with open(written[t], 'wb') as f:
                                f.write(encode_doc(t))
                            with open(os.path.join(d, 'msg1.mos.xml'), 'wb') as f:
                                f.write(b'<mos><mosID>BYSTANDER</mosID><ncsID>N</ncsID><messageID>424242</messageID><roReadyToAir><roID>BYSTANDER</roID><roAir>READY</roAir></roReadyToAir></mos>')
                            paths.append(written[t])
                        else:
                            # a document supplied twice is one file listed twice - in the same spelling, or another one
                            paths.append(written[t] if i % 2 else os.path.join(os.path.dirname(written[t]), '.', os.path.basename(written[t])))
                    mc = moscollection.MosCollection.from_files(paths, allow_incomplete=allow_incomplete)
                elif how == 's3':
                    mc = moscollection.MosCollection.from_s3(bucket_name='b', prefix='ro/', allow_incomplete=allow_incomplete)
                else:
                    raise ValueError(how)
            except Exception as e:
                return {'err0': ename(e)}
            err = None
            try:
                mc.merge(strict=strict)
            except Exception as e:
                err = ename(e)
        out = {'err': err, 'warns': wnames(ws), 'tree': elem_to_tree(mc.ro.xml)}
        if again:
            # merge() called a second time on the same collection object
            with warnings.catch_warnings(record=True) as ws2:
                warnings.simplefilter('always')
                err2 = None
                try:
                    mc.merge(strict=strict)
                except Exception as e:
                    err2 = ename(e)
            out.update({'err2': err2, 'warns2': wnames(ws2), 'tree2': elem_to_tree(mc.ro.xml)})
        return out
    finally:
        if saved:
            saved[0].s3._client, saved[0].s3._resource = saved[1], saved[2]


def res_line(cls, err, warns, tree):
    """the same rendering the OCaml driver prints for an outcome"""
    return '%s %s W%d%s %s' % (cls, err or 'none', len(warns),
                               ''.join(' ' + w for w in warns), tree_line(tree))
