"""Regenerates /verif/MANIFEST.json from the table below (run by hand after adding a check)."""
import json
import os

ROOT = os.path.dirname(os.path.dirname(os.path.abspath(__file__)))
NOTE = ('Trusted: Coq 8.16.1 kernel; ExtrOcamlBasic extraction + OCaml driver; Python harness; CPython '
        'ElementTree/expat as parser; the model is hand-written and tied to /repo by the correspondence run '
        '(extracted model vs real code on the same inputs) on every invocation. Print Assumptions of every '
        'property theorem: closed under the global context (captured in the evidence on each run).')

CHECKS = {
    'C01': ('proof', 'Theorems C01_story_order (all 11 story-level classes, any running order with unique story IDs, any '
            'resolvable message: story IDs after the merge = protocol specification written without index arithmetic) and '
            'C01_moves_swaps_conserve (moves/swaps permute roCreate children or leave them untouched, no hypothesis), proved by '
            'induction over child lists in Coq; correspondence: extracted model vs /repo on exhaustive small running orders x '
            'all story-level messages and on random histories; on a break the extracted proto_story oracle finds the failing input. '
            'The hypothesis of unique story IDs is itself an invariant: C01_unique_ids_preserved / _along_histories (fresh payloads), C01_item_ops_keep_story_ids.',
            'section 5 C01', 'Coq theorems on a Gallina model + extracted-model differential run'),
    'C02': ('proof', 'Theorems C02_item_order (9 item-level classes: item IDs of the addressed story = protocol; every other child '
            'of roCreate untouched) and C02_moves_swaps_conserve, proved in Coq; correspondence run on stories with 0..n items, '
            'paragraph layouts, repeated item IDs across stories, moves of 3-5 sources straddling the target, padded IDs, random histories. '
            'C02_unique_item_ids_preserved / _everywhere: unique item IDs per story is an invariant under executable freshness conditions.',
            'section 5 C02', 'Coq theorems on a Gallina model + extracted-model differential run'),
    'C05': ('proof', 'Theorems C05_failed_merge_is_identity / C05_any_running_order / C05_any_running_order_any_message: for every document with a roCreate element, every class and every parsed message '
            '(with or without a usable messageID, since repair F29), if ro + m raises the document is unchanged (the model carries the state at the point of failure, so '
            'this is about the order of checks and edits in all 24 merges); C05_nonstrict_sequences: a non-strict merge equals the fold '
            'over the messages that did not fail. Correspondence: k-th-of-n unresolvable IDs, swap/move operand combinations, '
            'exhaustive small message spaces, running orders with blank-ID / ID-less placeholder stories, messages with any one element (messageID included) removed or a blank / non-integer messageID, random histories on fresh and on live objects, non-strict collections with every failing subset.',
            'section 5 C05', 'Coq theorems on a Gallina model + extracted-model differential run'),
    'C07': ('proof', 'Theorems C07_rodelete_marks, C07_terminal (all classes, any later history), C07_never_spurious (invariant over any '
            'history without roDelete) proved in Coq; the serialise / re-read / re-classify round trip is checked on the real code at '
            'every step of random histories (and proved for the model codec in C14); collections with the roDelete at any rank among the message IDs, strict and non-strict, three constructors.',
            'section 5 C07', 'Coq theorems (induction over histories) + differential histories'),
    'C08': ('proof', 'Theorems C08_factor (classify = classify_spec o features), C08_noninterference, C08_total, C08_table proved in Coq. '
            'PARTIAL: malformed XML -> MosInvalidXML and file = str = bytes, default = -W error are runtime clauses checked by '
            'differential runs (expat and file I/O are not modelled).',
            'section 5 C08', 'Coq theorems on the decision function + differential classification under two interpreter configurations'),
    'C09': ('proof', 'Theorems C09_strict, C09_nonstrict and C09_collection_is_sequential_addition (end to end from the documents: readers, sorting, validation, loop) characterise the model merge loop (prefix / first error; one '
            'MosMergeNonStrictWarning per failing message; state = sequential application). Correspondence: random mixed sequences, '
            'both modes, from_strings and from_files, compared with the model and with a hand fold of ro += msg.',
            'section 5 C09', 'Coq theorems (induction over the message list) + differential collections'),
    'C10': ('proof', 'Theorems C10_perm_invariant (any permutation of readers with distinct IDs sorts to the same list), C10_numeric '
            '(ascending in the numeric ID), C10_collection_merge_perm_invariant (end to end: readers, sorting, validation and merge loop give the same outcome for every ordering of the documents, both modes, any oracles), C10_sort_stable (equal IDs keep the supplied order, as Python's sorted). Correspondence: all permutations of order-sensitive message sets with mixed digit counts.',
            'section 5 C10', 'Coq theorems (sortedness + permutation uniqueness) + exhaustive permutations'),
    'C11': ('proof', 'Theorems C11_accept_iff, C11_selected and C11_accept_multiset (acceptance is invariant under permutation of the readers) and C11_partition (the readers are exactly the selected roCreate plus the others, none of which is a roCreate) proved in Coq for the model validation; exhaustive multisets run through the '
            'real constructor under default flags and python -O (kinds interleaved in message-ID order, roCreate of every inner shape, padded / blank / missing roIDs); allow_incomplete given and left out through every construction route; documents supplied twice; completed roCreate documents.',
            'section 5 C11', 'Coq theorems + exhaustive small collections under two interpreter configurations'),
    'C12': ('proof', 'Theorems C12_classify, C12_merge (all 25 classes: outcome is success, MosMergeError or MosCompletedMergeError under '
            'schema_ok, timing_ok, for any document with a roCreate: C12_any_running_order; the model contains the built-in exception paths) and C12_nonstrict_terminates, proved in Coq. '
            'Correspondence: all classes x blank/unknown/repeated/self-referential IDs x '
            'running orders with/without timing metadata x histories, plus histories merged into one live RunningOrder object. '
            'C12_timing_preserved / C12_nonstrict_terminates_on_inputs: the timing guard is an invariant, so the collection theorem needs conditions on its inputs only.',
            'section 5 C12', 'Coq theorems on a Gallina model + extracted-model differential run'),
    'C03': ('proof', 'Theorems C03_frame_story_ops (every child of roCreate that the message neither names nor carries keeps identical '
            'content and relative order, all 11 story-level classes; no ID hypothesis for the 8 non-move classes), '
            'C03_frame_item_ops (whatever the message, only the children of the one addressed story can change), C03_frame_inside_story '
            '(inside it, the children neither named nor carried keep content and order) and '
            'C03_frame_metadata (children not matched by tag / (tag, mosSchema) untouched), proved in Coq. Correspondence on '
            'the complete resulting tree over rich running orders, including ones holding placeholder stories with blank / missing IDs.',
            'section 5 C03', 'Coq frame theorems on a Gallina model + extracted-model differential run on whole trees'),
    'C04': ('proof', 'Theorems C04_story_send_shape, C04_payload_present (carried elements spliced in as identical values, contiguous, '
            'in message order), C04_insert_dups_present, C04_roreplace, C04_metadata proved in Coq. Correspondence: random payloads '
            'of depth <=4 [<=7] with attributes, mixed text/tails, markup-significant characters, vendor XML in namespaces, comments / PIs, for the 13 payload-carrying classes; histories on one live object; the same messages read from files in four encodings and through collections built from strs.',
            'section 5 C04', 'Coq theorems on a Gallina model + extracted-model differential run'),
    'C06': ('proof', 'Theorems C06_raise_or_warn, C06_raise_or_warn_items (silent success implies every named story / item ID was found), C06_delete_warnings, '
            'C06_insert_warnings, C06_item_delete_warnings (exactly one warning per absent / duplicate element, the rest applied), '
            'C06_fully_applied_is_silent, proved in Coq. Correspondence on (exception class, warning categories, resulting IDs), for fresh '
            'running orders and along histories merged into one live object.',
            'section 5 C06', 'Coq theorems on a Gallina model + extracted-model differential run'),
    'C20': ('proof', 'Theorems C20_inspect_no_raise, C20_inspect_mentions_sources, C20_story_move_target, C20_sources_are_id_tags, '
            'C20_carried_exposed about the accessor functions the merge model itself uses; differential run of every Python accessor '
            '(target / source IDs, carried XML) and of the text inspect() prints, compact and pretty-printed.',
            'section 5 C20', 'Coq theorems on the accessor model + extracted-model differential run of accessors and inspect()'),
    'C15': ('proof', 'Theorems C15_stories_no_raise_and_agree (with numeric timing data the story listing does not raise and is the <story> '
            'children in order - any subset of optional metadata), C15_absent_is_none, C15_items_agree, C15_duration_absent_is_none, '
            'C15_wf_reachable (well-formedness is an invariant of every history of schema-shaped messages). Correspondence: every '
            'documented read accessor on random running orders and on states reached by merges, an exception being a value of the report.',
            'section 5 C15', 'Coq theorems on the accessor model + extracted-model differential run of all accessors'),
    'C16': ('proof', 'Theorems C16_duration, C16_offsets (offset of the k-th story = sum of the durations before it, any number of stories, '
            'dict semantics with unique IDs), C16_stories_table, C16_ro_duration, C16_start, C16_end, C16_ro_end over exact arithmetic. '
            'PARTIAL: exact arithmetic in whole microseconds (duration texts with at most six fractional digits, dyadic or not); binary64 rounding below a microsecond is not modelled. Correspondence as exact integers plus an arithmetic oracle.',
            'section 5 C16', 'Coq theorems over exact integer arithmetic + extracted-model differential run'),
    'C17': ('proof', 'Theorems C17_body, C17_script (exactly the non-empty, non-technical paragraphs, stripped, in order), C17_strip, '
            'C17_ro_concat. Correspondence on paragraphs of every bracket / white-space shape and on roStorySend bodies; the white-space '
            'table is compared with str.isspace over all 0x110000 code points on every run.',
            'section 5 C17', 'Coq theorems on the script/body model + extracted-model differential run + exhaustive table comparison'),
    'C18': ('proof', 'Theorems C18_listing (every key with the suffix across any number of pages), C18_empty_page_hides_nothing, C18_reader '
            '(reader metadata and restore) proved in Coq. PARTIAL: the interchangeability of file / str / bytes / S3 object is '
            'translation validation by differential runs only (three encodings, fake S3 client and resource): file I/O, byte '
            'decoding and boto3 are not modelled (S3 keys with characters that decoding / normalising changes, decoys under every variant; the deferred boto3 handles through a stand-in); the three collection constructors over the same contents are compared directly.',
            'section 5 C18', 'Coq theorems on the listing / reader model + differential runs over sources and encodings'),
    'C19': ('proof', 'Theorems C19_detect_line, C19_detect_compositional (one bad file never hides the others, by construction of the output '
            'as a concatenation per file - for any list), C19_detect_status, C19_merge_output on the command functions. PARTIAL: '
            'argparse, the file system and the exit status are glue covered by running mosromgr.cli.main in a subprocess.',
            'section 5 C19', 'Coq theorems on the command-function model + differential CLI runs in a subprocess'),
    'C13': ('proof', 'Theorems C13_frame, C13_copy_fresh, C13_copy_same_content (a deep copy denotes exactly the copied tree, the source keeps its content), C13_discipline (for any disciplined sequence of store primitives the message\'s '
            'locations stay closed, disjoint from the running order\'s region, and denote the same trees - this merge, later merges, '
            'other running orders), C13_sharing_refuted / C13_copy_example in a store model of ElementTree nodes. PARTIAL: adherence '
            'of the 24 merges to the discipline is checked statically (ast of every insert / append / replace call site) and by '
            'reuse histories on the real code (what the message reports through its public properties, node sharing with the running order); the merges are not re-modelled over the store.',
            'section 5 C13', 'Coq theorems on a store (heap) model + static call-site extraction + object-reuse histories'),
    'C14': ('proof', 'Theorems C14_codec_roundtrip (parse (serialise t) = t for every well-formed tree: nested induction, escaping lemmas), '
            'C14_wf_reachable and C14_reachable_roundtrip (the fragment is an invariant of every history), C14_envelope, '
            'C14_cr_refuted (known finding F18). PARTIAL: expat on arbitrary documents is trusted. Correspondence: model serialiser vs '
            'str(ro), model parser vs from_string, live object vs re-read object after every step of random histories.',
            'section 5 C14', 'Coq theorems on a serialiser/parser model + extracted-codec differential run + live-vs-reread histories'),
}


def main():
    props = [json.loads(l) for l in open(os.path.join(ROOT, 'properties.jsonl'))]
    checks = []
    na = []
    for p in props:
        pid = p['id']
        if pid in CHECKS:
            cat, text, ref, tech = CHECKS[pid]
            checks.append({
                'property_id': pid,
                'quick_cmd': './check %s --tier quick' % pid,
                'thorough_cmd': './check %s --tier thorough' % pid,
                'evidence_file': '/verif/evidence/%s.json' % pid,
                'replay_cmd_template': './check %s --replay {path}' % pid,
                'engine': 'coq-model',
                'level_claimed': {'category': cat, 'text': text, 'design_ref': 'DESIGN.md ' + ref},
                'level_note': NOTE,
                'technique': tech,
            })
        else:
            na.append({'property_id': pid, 'reason': 'check under construction (not yet claimed)'})
    m = {
        'version': 1,
        'setup_cmd': './setup.sh',
        'hooks': {'guard': 'MOSROMGR_VERIF',
                  'enable': 'no hooks are needed: every observable is reached through the public API (MOSROMGR_VERIF is unused)',
                  'baseline_off_cmd': 'cd /repo && /venv/bin/python -m pytest -ra -q -p no:cacheprovider --timeout=900 --continue-on-collection-errors',
                  'source_commits': [], 'add_only': True},
        'engines': [{'name': 'coq-model', 'path': '/verif/coq', 'serves_properties': sorted(CHECKS),
                     'kind_free_text': 'Coq 8.16.1 development (model + theorems), extracted to OCaml and run against /repo by harness/runner.py'}],
        'checks': checks,
        'not_applicable': na,
        'notes': 'See DESIGN.md. ./check <ID> rebuilds (make is a no-op when nothing changed), re-checks props/<ID>.v, runs corpus + generated cases.',
    }
    json.dump(m, open(os.path.join(ROOT, 'MANIFEST.json'), 'w'), indent=1)


if __name__ == '__main__':
    main()
