"""Regenerates /verif/MANIFEST.json from the table below (run by hand after adding a check)."""
import json
import os

ROOT = os.path.dirname(os.path.dirname(os.path.abspath(__file__)))
NOTE = ('Trusted: Coq 8.16.1 kernel; ExtrOcamlBasic extraction + OCaml driver; Python harness; CPython '
        'ElementTree/expat as parser; the model is hand-written and tied to /repo by the correspondence run '
        '(extracted model vs real code on the same inputs) on every invocation. Print Assumptions of every '
        'property theorem: closed under the global context (captured in the evidence on each run).')

CHECKS = {
    'C01': ('proof', 'Theorems C01_story_order (all 11 story-level classes, any running order with unique story IDs, any '
            'resolvable message: story IDs after the merge = protocol specification written without index arithmetic) and '
            'C01_moves_swaps_conserve (moves/swaps permute roCreate children or leave them untouched, no hypothesis), proved by '
            'induction over child lists in Coq; correspondence: extracted model vs /repo on exhaustive small running orders x '
            'all story-level messages and on random histories; on a break the extracted proto_story oracle finds the failing input.',
            'section 5 C01', 'Coq theorems on a Gallina model + extracted-model differential run'),
    'C02': ('proof', 'Theorems C02_item_order (9 item-level classes: item IDs of the addressed story = protocol; every other child '
            'of roCreate untouched) and C02_moves_swaps_conserve, proved in Coq; correspondence run on stories with 0..n items, '
            'paragraph layouts, repeated item IDs across stories, random histories.',
            'section 5 C02', 'Coq theorems on a Gallina model + extracted-model differential run'),
}


def main():
    props = [json.loads(l) for l in open(os.path.join(ROOT, 'properties.jsonl'))]
    checks = []
    na = []
    for p in props:
        pid = p['id']
        if pid in CHECKS:
            cat, text, ref, tech = CHECKS[pid]
            checks.append({
                'property_id': pid,
                'quick_cmd': './check %s --tier quick' % pid,
                'thorough_cmd': './check %s --tier thorough' % pid,
                'evidence_file': '/verif/evidence/%s.json' % pid,
                'replay_cmd_template': './check %s --replay {path}' % pid,
                'engine': 'coq-model',
                'level_claimed': {'category': cat, 'text': text, 'design_ref': 'DESIGN.md ' + ref},
                'level_note': NOTE,
                'technique': tech,
            })
        else:
            na.append({'property_id': pid, 'reason': 'check under construction (not yet claimed)'})
    m = {
        'version': 1,
        'setup_cmd': './setup.sh',
        'hooks': {'guard': 'MOSROMGR_VERIF',
                  'enable': 'no hooks are needed: every observable is reached through the public API (MOSROMGR_VERIF is unused)',
                  'baseline_off_cmd': 'cd /repo && /venv/bin/python -m pytest -ra -q -p no:cacheprovider --timeout=900 --continue-on-collection-errors',
                  'source_commits': [], 'add_only': True},
        'engines': [{'name': 'coq-model', 'path': '/verif/coq', 'serves_properties': sorted(CHECKS),
                     'kind_free_text': 'Coq 8.16.1 development (model + theorems), extracted to OCaml and run against /repo by harness/runner.py'}],
        'checks': checks,
        'not_applicable': na,
        'notes': 'See DESIGN.md. ./check <ID> rebuilds (make is a no-op when nothing changed), re-checks props/<ID>.v, runs corpus + generated cases.',
    }
    json.dump(m, open(os.path.join(ROOT, 'MANIFEST.json'), 'w'), indent=1)


if __name__ == '__main__':
    main()
