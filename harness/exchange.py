"""Exchange format between the Python harness and the extracted Coq model.

A tree is a preorder token stream:  E <tag> <nattrs> (<k> <v>)* <text> <tail> <nkids> <kid>*
A string is  s<hex>.<hex>...  (code points), the empty string is  s , None is  n .
In Python a tree is the nested tuple (tag, attrs, text, tail, kids) with attrs a tuple of
(k, v) pairs and kids a tuple of trees.
"""
from xml.etree import ElementTree as ET


def s_tok(s):
    if s is None:
        return 'n'
    return 's' + '.'.join('%x' % ord(c) for c in s)


def tok_s(t):
    if t == 'n':
        return None
    if t == 's':
        return ''
    return ''.join(chr(int(h, 16)) for h in t[1:].split('.'))


def elem_to_tree(e):
    return (e.tag, tuple(e.attrib.items()), e.text, e.tail, tuple(elem_to_tree(c) for c in e))


def tree_to_elem(t):
    tag, attrs, text, tail, kids = t
    e = ET.Element(tag, dict(attrs))
    e.text = text
    e.tail = tail
    for k in kids:
        e.append(tree_to_elem(k))
    return e


def tree_toks(t, out):
    tag, attrs, text, tail, kids = t
    out.append('E')
    out.append(s_tok(tag))
    out.append(str(len(attrs)))
    for k, v in attrs:
        out.append(s_tok(k))
        out.append(s_tok(v))
    out.append(s_tok(text))
    out.append(s_tok(tail))
    out.append(str(len(kids)))
    for k in kids:
        tree_toks(k, out)


def tree_line(t):
    out = []
    tree_toks(t, out)
    return ' '.join(out)


def elem_line(e):
    return tree_line(elem_to_tree(e))


class Reader:
    def __init__(self, toks, pos=0):
        self.toks = toks
        self.pos = pos

    def next(self):
        t = self.toks[self.pos]
        self.pos += 1
        return t

    def tree(self):
        e = self.next()
        assert e == 'E', e
        tag = tok_s(self.next())
        na = int(self.next())
        attrs = tuple((tok_s(self.next()), tok_s(self.next())) for _ in range(na))
        text = tok_s(self.next())
        tail = tok_s(self.next())
        nk = int(self.next())
        kids = tuple(self.tree() for _ in range(nk))
        return (tag, attrs, text, tail, kids)


def parse_tree(line):
    return Reader(line.split(' ')).tree()


def table_toks(tbl):
    """oracle table {str: int-or-None}"""
    out = [str(len(tbl))]
    for k in sorted(tbl):
        out.append(s_tok(k))
        out.append('n' if tbl[k] is None else str(tbl[k]))
    return ' '.join(out)


# ---- tree helpers used by projections and oracles

def kids(t):
    return t[4]


def find(t, tag):
    for k in t[4]:
        if k[0] == tag:
            return k
    return None


def findall(t, tag):
    return [k for k in t[4] if k[0] == tag]


def child_text(t, tag):
    """('absent',) | ('text', s-or-None)"""
    c = find(t, tag)
    return None if c is None else c[2]


def tree_to_string(t):
    return ET.tostring(tree_to_elem(t), encoding='unicode')
