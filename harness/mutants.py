"""Systematic small source changes ("mutants") of /repo, as a measure of what the checks notice.

  mutants.py list                       -> number of mutation sites per file
  mutants.py run [--files a.py,b.py] [--workers N] [--limit K] [--only i,j,k]
                                        -> notes/mutants.json (one row per mutant)

For each mutant (one AST-level change in one source file, written into a scratch copy of the package under
/tmp, never into /repo): does the package still import, does the repository's test suite still pass, and -
only for those the suite lets through - which of the 20 checks raise an alarm (quick tier, MOSROMGR_REPO
pointing at the scratch copy), with or without a concrete failing input.  A mutant that the suite lets
through and no check reports is either equivalent (the change cannot be observed) or a gap in the checks;
those are the rows to read.  This is a measurement tool, not one of the registered checks.

Operators: comparison swaps (== / !=, < / <=, is / is not, in / not in), `not` added to an if / while test,
and <-> or, + <-> -, integer constants 0 <-> 1 and n -> n+1, a call `f(x)` of deepcopy / sorted / list /
reversed / strip replaced by its argument, a statement (expression call, assignment, augmented assignment,
raise, return value, break / continue) deleted or neutralised, `return x` -> `return None`, keyword
argument values True <-> False, string constants of tag names perturbed (first character dropped).
"""
import ast
import os
import sys
import json
import copy
import shutil
import subprocess
import tempfile
from concurrent.futures import ThreadPoolExecutor

ROOT = os.path.dirname(os.path.dirname(os.path.abspath(__file__)))
REPO = '/repo'
PY = '/venv/bin/python'
FILES = ['mosromgr/mostypes.py', 'mosromgr/moselements.py', 'mosromgr/moscollection.py', 'mosromgr/utils/xml.py',
         'mosromgr/utils/s3.py', 'mosromgr/cli.py', 'mosromgr/exc.py']
CHECKS = ['C20', 'C07', 'C13', 'C14', 'C19', 'C11', 'C15', 'C16', 'C17', 'C09', 'C18', 'C10', 'C04', 'C08', 'C06', 'C12', 'C02', 'C03', 'C05', 'C01']

CMP = {ast.Eq: ast.NotEq, ast.NotEq: ast.Eq, ast.Lt: ast.LtE, ast.LtE: ast.Lt, ast.Gt: ast.GtE, ast.GtE: ast.Gt,
       ast.Is: ast.IsNot, ast.IsNot: ast.Is, ast.In: ast.NotIn, ast.NotIn: ast.In}
UNWRAP = {'deepcopy', 'sorted', 'list', 'reversed', 'strip', 'copy', 'tuple', 'set'}


class Sites(ast.NodeVisitor):
    """enumerate (kind, node path) mutation sites; the mutation itself is applied by index on a fresh parse"""

    def __init__(self):
        self.sites = []

    def generic_visit(self, node):
        if isinstance(node, (ast.FunctionDef, ast.AsyncFunctionDef)) and node.body and isinstance(node.body[0], ast.Expr) \
                and isinstance(getattr(node.body[0], 'value', None), ast.Constant) and isinstance(node.body[0].value.value, str):
            pass
        kinds = []
        if isinstance(node, ast.Compare) and len(node.ops) == 1 and type(node.ops[0]) in CMP:
            kinds.append('cmp')
        if isinstance(node, (ast.If, ast.While)):
            kinds.append('negate-test')
        if isinstance(node, ast.IfExp):
            kinds.append('negate-ifexp')
        if isinstance(node, ast.BoolOp):
            kinds.append('boolop')
        if isinstance(node, ast.BinOp) and isinstance(node.op, (ast.Add, ast.Sub)):
            kinds.append('addsub')
        if isinstance(node, ast.Constant) and type(node.value) is int and 0 <= node.value <= 3:
            kinds.append('int')
        if isinstance(node, ast.Constant) and type(node.value) is bool:
            kinds.append('bool')
        if isinstance(node, ast.Constant) and type(node.value) is str and 2 <= len(node.value) <= 24 and node.value.isidentifier():
            kinds.append('str')
        if isinstance(node, ast.Call) and len(node.args) >= 1 and not node.keywords and \
                ((isinstance(node.func, ast.Name) and node.func.id in UNWRAP) or
                 (isinstance(node.func, ast.Attribute) and node.func.attr in UNWRAP and isinstance(node.func.value, ast.Name) and node.func.value.id == 'copy')):
            kinds.append('unwrap')
        if isinstance(node, ast.Call) and isinstance(node.func, ast.Attribute) and node.func.attr == 'strip' and not node.args:
            kinds.append('unstrip')
        if isinstance(node, (ast.Expr,)) and isinstance(node.value, ast.Call):
            kinds.append('del-stmt')
        if isinstance(node, (ast.Assign, ast.AugAssign)):
            kinds.append('del-stmt')
        if isinstance(node, ast.Raise):
            kinds.append('del-stmt')
        if isinstance(node, ast.Return) and node.value is not None and not (isinstance(node.value, ast.Constant) and node.value.value is None):
            kinds.append('return-none')
        if isinstance(node, ast.Break):
            kinds.append('break-continue')
        if isinstance(node, ast.Continue):
            kinds.append('continue-break')
        for k in kinds:
            self.sites.append((k, node))
        super().generic_visit(node)


def docstring_nodes(tree):
    out = set()
    for n in ast.walk(tree):
        if isinstance(n, (ast.FunctionDef, ast.ClassDef, ast.Module, ast.AsyncFunctionDef)) and n.body and isinstance(n.body[0], ast.Expr) \
                and isinstance(n.body[0].value, ast.Constant) and isinstance(n.body[0].value.value, str):
            out.add(id(n.body[0]))
            out.add(id(n.body[0].value))
    return out


def sites_of(src):
    tree = ast.parse(src)
    doc = docstring_nodes(tree)
    v = Sites()
    v.visit(tree)
    # drop docstrings, logging calls, and the argparse help texts of the CLI
    out = []
    for k, n in v.sites:
        if id(n) in doc:
            continue
        if k == 'del-stmt' and isinstance(n, ast.Expr) and isinstance(n.value, ast.Call) and isinstance(n.value.func, ast.Attribute) \
                and isinstance(n.value.func.value, ast.Name) and n.value.func.value.id in ('logger', 'logging', 'warnings') and n.value.func.attr != 'warn':
            continue
        out.append((k, n))
    return tree, out


def mutate(src, index):
    """source text of mutant number *index*, and a one-line description"""
    tree, sites = sites_of(src)
    k, n = sites[index]
    line = getattr(n, 'lineno', 0)
    before = ast.unparse(n)[:80]

    class T(ast.NodeTransformer):
        def visit(self, node):
            if node is n:
                return self.apply(node)
            return super().generic_visit(node)

        def apply(self, node):
            if k == 'cmp':
                node.ops = [CMP[type(node.ops[0])]()]
            elif k in ('negate-test', 'negate-ifexp'):
                node.test = ast.UnaryOp(op=ast.Not(), operand=node.test)
            elif k == 'boolop':
                node.op = ast.Or() if isinstance(node.op, ast.And) else ast.And()
            elif k == 'addsub':
                node.op = ast.Sub() if isinstance(node.op, ast.Add) else ast.Add()
            elif k == 'int':
                node.value = {0: 1, 1: 0}.get(node.value, node.value + 1)
            elif k == 'bool':
                node.value = not node.value
            elif k == 'str':
                node.value = node.value[1:]
            elif k == 'unwrap':
                return node.args[0]
            elif k == 'unstrip':
                return node.func.value
            elif k == 'del-stmt':
                return ast.Pass()
            elif k == 'return-none':
                node.value = ast.Constant(value=None)
            elif k == 'break-continue':
                return ast.Continue()
            elif k == 'continue-break':
                return ast.Break()
            return node
    new = T().visit(tree)
    ast.fix_missing_locations(new)
    return ast.unparse(new), '%s at line %d: %s' % (k, line, before)


def all_mutants(files):
    out = []
    for f in files:
        src = open(os.path.join(REPO, f)).read()
        _, sites = sites_of(src)
        for i in range(len(sites)):
            out.append((f, i))
    return out


def sh(cmd, cwd=None, env=None, timeout=1800):
    try:
        r = subprocess.run(cmd, cwd=cwd, shell=True, capture_output=True, text=True, env=env, timeout=timeout)
        return r.returncode, r.stdout + r.stderr
    except subprocess.TimeoutExpired:
        return 124, 'timeout'


def one(job):
    f, i, checks = job
    src = open(os.path.join(REPO, f)).read()
    try:
        new, desc = mutate(src, i)
    except Exception as e:
        return {'file': f, 'index': i, 'error': 'mutate: %r' % (e,)}
    row = {'file': f, 'index': i, 'what': desc}
    d = tempfile.mkdtemp(prefix='mut-', dir='/tmp')
    try:
        for sub in ('mosromgr', 'tests', 'setup.py', 'setup.cfg', 'pyproject.toml', 'conftest.py', 'pytest.ini', 'tox.ini'):
            p = os.path.join(REPO, sub)
            if os.path.isdir(p):
                shutil.copytree(p, os.path.join(d, sub), ignore=shutil.ignore_patterns('__pycache__'))
            elif os.path.exists(p):
                shutil.copy(p, os.path.join(d, sub))
        open(os.path.join(d, f), 'w').write(new)
        env = dict(os.environ, PYTHONPATH=d, PYTHONHASHSEED='0', PYTHONDONTWRITEBYTECODE='1')
        rc, out = sh('%s -c "import mosromgr.mostypes, mosromgr.moscollection, mosromgr.cli"' % PY, cwd=d, env=env, timeout=120)
        if rc != 0:
            row['outcome'] = 'does-not-import'
            return row
        rc, out = sh('%s -m pytest -q -x -p no:cacheprovider --timeout=120 2>&1 | tail -1' % PY, cwd=d, env=env, timeout=900)
        row['tests'] = out.strip()[-80:]
        if ' passed' not in out or 'failed' in out or 'error' in out:
            row['outcome'] = 'killed-by-tests'
            return row
        env2 = dict(os.environ, MOSROMGR_REPO=d, VERIF_EVIDENCE_DIR=os.path.join(d, 'ev'), VERIF_REPLAY_DIR=os.path.join(d, 'rp'))
        alarms = {}
        for c in checks:
            rc, out = sh('./check %s --tier quick' % c, cwd=ROOT, env=env2, timeout=1200)
            if rc != 0:
                lines = [l for l in out.split('\n') if l.startswith('VIOLATION')]
                kind = 'input' if lines and 'no-failing-input-found' not in lines[0] else ('no-input' if lines else 'crash')
                what = ''
                if kind == 'input':
                    try:
                        what = json.load(open(lines[0].split('replay=')[1].split()[0])).get('what', '')[:160]
                    except Exception:
                        pass
                alarms[c] = [kind, what]
                if kind == 'input':
                    break                                    # reported with a concrete input: enough
        row['alarms'] = alarms
        row['outcome'] = ('reported' if any(v[0] == 'input' for v in alarms.values()) else
                          'reported-no-input' if alarms else 'silent')
        return row
    finally:
        shutil.rmtree(d, ignore_errors=True)


if __name__ == '__main__':
    args = sys.argv[1:]
    files = FILES
    workers, limit, only = 4, None, None
    if '--files' in args:
        files = args[args.index('--files') + 1].split(',')
    if '--workers' in args:
        workers = int(args[args.index('--workers') + 1])
    if '--limit' in args:
        limit = int(args[args.index('--limit') + 1])
    if '--only' in args:
        only = [int(x) for x in args[args.index('--only') + 1].split(',')]
    muts = all_mutants(files)
    if args and args[0] == 'list':
        from collections import Counter
        print(Counter(f for f, _ in muts), len(muts))
        sys.exit(0)
    if only is not None:
        muts = [m for m in muts if m[1] in only]
    if limit:
        import random
        random.Random(0).shuffle(muts)
        muts = muts[:limit]
    outp = os.path.join(ROOT, 'notes', 'mutants.json')
    rows = json.load(open(outp)) if os.path.exists(outp) else []
    done = {(r['file'], r['index']) for r in rows}
    jobs = [(f, i, CHECKS) for f, i in muts if (f, i) not in done]
    with ThreadPoolExecutor(max_workers=workers) as ex:
        for k, row in enumerate(ex.map(one, jobs)):
            rows.append(row)
            print(k, row.get('file'), row.get('index'), row.get('outcome'), row.get('what'), {c: v[0] for c, v in row.get('alarms', {}).items()}, flush=True)
            if k % 10 == 9:
                json.dump(rows, open(outp, 'w'), indent=1)
    json.dump(rows, open(outp, 'w'), indent=1)
