"""Subprocess helper: classify documents under this interpreter's flags (-W error, -O).
stdin: JSON {'repo':..., 'mode': 'classify'|'collection', 'items': [...]} ; stdout: JSON list."""
import sys
import json
import os
import tempfile

req = json.load(sys.stdin)
sys.path.insert(0, req['repo'])
import logging
logging.disable(logging.CRITICAL)
import warnings



def declared(text):
    """the encoding a document's XML declaration names (bytes and files hold the document in it), else UTF-8"""
    import re
    m = re.match(r'''<\?xml[^>]*encoding=["']([^"']+)''', text)
    try:
        if m:
            text.encode(m.group(1))
            return m.group(1)
    except (LookupError, UnicodeEncodeError):
        pass
    return 'utf-8'


out = []
if req['mode'] == 'classify':
    from mosromgr.mostypes import MosFile
    tmp = tempfile.mkdtemp(prefix='mosverif')
    for k, text in enumerate(req['items']):
        row = {}
        for how in ('str', 'bytes', 'file'):
            try:
                if how == 'str':
                    mo = MosFile.from_string(text)
                elif how == 'bytes':
                    mo = MosFile.from_string(text.encode(declared(text)))
                else:
                    p = os.path.join(tmp, 'd%d.mos.xml' % k)
                    with open(p, 'wb') as f:
                        f.write(text.encode(declared(text)))
                    mo = MosFile.from_file(p)
                    os.unlink(p)
                row[how] = ['ok', type(mo).__name__, bool(mo.completed), str(mo)]
            except Exception as e:
                row[how] = ['err', type(e).__name__]
        # the same document stored in other encodings (with the matching XML declaration), as bytes and as a file
        for enc in ('utf-16', 'iso-8859-1'):
            if '<?xml' in text or text.startswith('\ufeff'):
                continue                                 # the text has its own declaration
            try:
                data = ('<?xml version="1.0" encoding="%s"?>' % enc + text).encode(enc)
            except UnicodeEncodeError:
                continue
            for how in ('bytes', 'file'):
                try:
                    if how == 'bytes':
                        mo = MosFile.from_string(data)
                    else:
                        p = os.path.join(tmp, 'e%d.mos.xml' % k)
                        with open(p, 'wb') as f:
                            f.write(data)
                        mo = MosFile.from_file(p)
                        os.unlink(p)
                    row[how + ':' + enc] = ['ok', type(mo).__name__, bool(mo.completed), str(mo)]
                except Exception as e:
                    row[how + ':' + enc] = ['err', type(e).__name__]
        out.append(row)
    import shutil
    shutil.rmtree(tmp, ignore_errors=True)
elif req['mode'] == 'collection':
    from mosromgr.moscollection import MosCollection
    for item in req['items']:
        try:
            if item['inc'] is None:
                mc = MosCollection.from_strings(item['docs'])                  # the default: incompleteness is not allowed
            else:
                mc = MosCollection.from_strings(item['docs'], allow_incomplete=item['inc'])
            out.append(['ok', mc.ro.message_id, [[mr.message_id, mr.mos_type.__name__] for mr in mc.mos_readers], type(mc.ro).__name__])
        except Exception as e:
            out.append(['err', type(e).__name__])
json.dump(out, sys.stdout)
