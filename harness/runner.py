"""Entry point of every check:  runner.py <ID> [--tier quick|thorough] [--replay FILE]

Protocol (DESIGN.md 3.5): build gate -> corpus -> generated cases -> compare obs_P ->
on any break search for a concrete failing input -> evidence -> exit status."""
import os
import sys
import re
import json
import time
import fcntl
import random
import hashlib
import argparse
import importlib
import subprocess

HERE = os.path.dirname(os.path.abspath(__file__))
ROOT = os.path.dirname(HERE)
COQ = os.path.join(ROOT, 'coq')
sys.path.insert(0, HERE)

FORBIDDEN = re.compile(r'\b(Admitted|admit|Axiom|Axioms|Parameter|Parameters|Conjecture|Hypothesis|Hypotheses|Variable|Variables)\b|Unset\s+Guard|bypass_check|type-in-type|impredicative-set|Admit\s+Obligations')
TRUSTED_BASE = [
    'Coq 8.16.1 kernel (coqc); vm_compute for Examples and finite tables; no native_compute',
    'Extraction with ExtrOcamlBasic only (its directives: Extract Inductive bool, option, unit, list, prod, sumbool, sumor; Extract Inlined Constant andb, orb); N, Z, positive, nat stay extracted inductives; no Extract Constant / Extract Inductive of our own',
    'OCaml 4.13.1 compiler; /verif/ocaml/driver.ml (exchange format, printers)',
    'Python harness: generators, exchange encoding, obs projections, oracles (harness/)',
    'CPython 3.12 xml.etree.ElementTree / expat as the parser both sides start from; copy.deepcopy, list, dict, warnings, float(), int() beyond ASCII digits, dateutil',
    'The model is hand-written: behaviour on the explored inputs ties it to /repo; in addition harness/gentables.py translates the classification tables, base_tag_name of every class, the exception hierarchy and the except clause of MosCollection.merge from the current source into work/GenTables.v, where they are proved equal to the model\'s tables (C08, C09) - that translator (python ast, ~130 lines, fail-closed) is trusted',
]


def log(*a):
    print(*a, flush=True)


def sh(cmd, cwd=None, timeout=None):
    return subprocess.run(cmd, cwd=cwd, shell=isinstance(cmd, str), capture_output=True, text=True,
                          timeout=timeout)


def strip_comments(text):
    out, depth, i = [], 0, 0
    while i < len(text):
        if text.startswith('(*', i):
            depth += 1
            i += 2
        elif text.startswith('*)', i) and depth:
            depth -= 1
            i += 2
        else:
            if not depth:
                out.append(text[i])
            i += 1
    return ''.join(out)


def grep_gate():
    """no Admitted / Axiom / Parameter ... anywhere in the development.
    Section-local Variable / Hypothesis are allowed only inside a Section."""
    bad = []
    for d, _, fs in os.walk(os.path.join(COQ, 'theories')):
        for f in fs:
            if not f.endswith('.v'):
                continue
            p = os.path.join(d, f)
            text = strip_comments(open(p).read())
            depth = 0
            for ln, line in enumerate(text.split('\n'), 1):
                if re.match(r'\s*Section\b', line):
                    depth += 1
                elif re.match(r'\s*End\b', line) and depth:
                    depth -= 1
                for mm in FORBIDDEN.finditer(line):
                    w = mm.group(0)
                    if w.split()[0] in ('Variable', 'Variables', 'Hypothesis', 'Hypotheses') and depth > 0:
                        continue
                    bad.append('%s:%d: %s' % (os.path.relpath(p, ROOT), ln, w))
    return bad


def build_gate(pid):
    """full .vo build, model binary, and a fresh compile of props/<pid>.v.
    Returns dict(ok, obligations, discharged, assumptions, detail)"""
    os.makedirs(os.path.join(ROOT, 'work'), exist_ok=True)
    lock = open(os.path.join(ROOT, 'work', '.build.lock'), 'w')
    fcntl.flock(lock, fcntl.LOCK_EX)
    try:
        bad = grep_gate()
        if bad:
            return {'ok': False, 'detail': 'forbidden constructs: ' + '; '.join(bad[:5])}
        if not os.path.exists(os.path.join(COQ, 'Makefile')):
            r = sh('coq_makefile -f _CoqProject -o Makefile', cwd=COQ, timeout=120)
            if r.returncode:
                return {'ok': False, 'detail': 'coq_makefile failed: ' + r.stderr[-400:]}
        try:
            r = sh('make -j16', cwd=COQ, timeout=2400)
        except subprocess.TimeoutExpired:
            return {'ok': False, 'detail': 'make timed out'}
        if r.returncode:
            err = [l for l in (r.stdout + r.stderr).split('\n') if l.strip()]
            return {'ok': False, 'detail': 'make failed: ' + ' | '.join(err[-8:])}
        model = os.path.join(ROOT, 'ocaml', 'model')
        srcs = [os.path.join(COQ, 'theories', f) for f in os.listdir(os.path.join(COQ, 'theories'))
                if f.endswith('.v')] + [os.path.join(ROOT, 'ocaml', 'driver.ml')]
        if not os.path.exists(model) or any(os.path.getmtime(s) > os.path.getmtime(model) for s in srcs):
            r = sh([os.path.join(ROOT, 'ocaml', 'build.sh')], timeout=1200)
            if r.returncode:
                return {'ok': False, 'detail': 'model build failed: ' + (r.stdout + r.stderr)[-400:]}
        pf = os.path.join(COQ, 'theories', 'props', pid + '.v')
        if not os.path.exists(pf):
            return {'ok': False, 'detail': 'no property file ' + pf}
        text = strip_comments(open(pf).read())
        theorems = re.findall(r'^\s*Theorem\s+(\w+)', text, re.M)
        try:
            r = sh(['coqc', '-Q', 'theories', 'Mos', pf], cwd=COQ, timeout=1200)
        except subprocess.TimeoutExpired:
            return {'ok': False, 'detail': 'coqc props/%s.v timed out' % pid}
        if r.returncode:
            return {'ok': False, 'detail': 'props/%s.v does not check: %s' % (pid, (r.stdout + r.stderr)[-600:])}
        out = r.stdout
        assumptions = []
        cur = None
        for line in out.split('\n'):
            if line.startswith('Closed under the global context'):
                if cur is not None:
                    assumptions.append(cur.strip())
                    cur = None
                assumptions.append('closed under the global context')
            elif line.startswith('Axioms:'):
                if cur is not None:
                    assumptions.append(cur.strip())
                cur = 'Axioms:'
            elif cur is not None and line.strip():
                cur += ' ' + line.strip()
        if cur is not None:
            assumptions.append(cur.strip())
        blocks = assumptions
        return {'ok': True, 'theorems': theorems, 'obligations': len(theorems),
                'discharged': min(len(theorems), len(blocks)), 'assumptions': assumptions,
                'checker_cmd': 'cd /verif/coq && make -j16 && coqc -Q theories Mos theories/props/%s.v' % pid}
    finally:
        fcntl.flock(lock, fcntl.LOCK_UN)
        lock.close()


def load_known(pid):
    p = os.path.join(ROOT, 'known_findings.json')
    if not os.path.exists(p):
        return []
    return [k for k in json.load(open(p)).get('findings', [])
            if k.get('property') == pid and k.get('status') == 'known']


def write_replay(pid, payload):
    d = os.environ.get('VERIF_REPLAY_DIR') or os.path.join(ROOT, 'replays')
    os.makedirs(d, exist_ok=True)
    body = json.dumps(payload, indent=1, sort_keys=True, default=str)
    h = hashlib.sha1(body.encode()).hexdigest()[:10]
    p = os.path.join(d, '%s-%s.json' % (pid, h))
    with open(p, 'w') as f:
        f.write(body)
    return p


def write_evidence(pid, ev):
    d = os.environ.get('VERIF_EVIDENCE_DIR') or os.path.join(ROOT, 'evidence')
    os.makedirs(d, exist_ok=True)
    with open(os.path.join(d, pid + '.json'), 'w') as f:
        json.dump(ev, f, indent=1, default=str)


def main():
    ap = argparse.ArgumentParser()
    ap.add_argument('pid')
    ap.add_argument('--tier', default=os.environ.get('VERIF_TIER', 'quick'))
    ap.add_argument('--replay')
    args = ap.parse_args()
    pid = args.pid
    tier = args.tier if args.tier in ('quick', 'thorough') else 'quick'
    seed = int(os.environ.get('VERIF_SEED', '0') or 0)
    t0 = time.time()

    mod = importlib.import_module('checks.' + pid.lower())
    chk = mod.Check()

    gate = build_gate(pid)
    if not gate['ok'] and 'model build failed' in gate.get('detail', '') or \
       (not gate['ok'] and not os.path.exists(os.path.join(ROOT, 'ocaml', 'model'))):
        log('BUILD-ERROR', gate['detail'])
        path = write_replay(pid, {'property': pid, 'broken': 'build', 'detail': gate['detail']})
        log('VIOLATION property=%s replay=%s no-failing-input-found' % (pid, path))
        return 1

    if args.replay:
        rep = json.load(open(args.replay))
        res = chk.replay(rep)
        log(json.dumps(res, indent=1, default=str))
        if res.get('violation'):
            log('VIOLATION property=%s replay=%s' % (pid, args.replay))
            return 1
        log('replay: no violation')
        return 0

    rng = random.Random(seed * 1000003 + int(hashlib.sha1(pid.encode()).hexdigest()[:6], 16))
    known = load_known(pid)
    try:
        result = chk.run(tier, rng, log)
    except (SystemExit, KeyboardInterrupt):
        raise
    except Exception:
        # the harness could not complete its run against this tree (an exception of the implementation reached it where
        # none was expected, or the harness itself is wrong): the correspondence is not established
        import traceback
        tb = traceback.format_exc()
        log(tb)
        result = {'evaluations': 0, 'distinct': 0, 'rule': getattr(chk, 'rule', ''), 'samples': [], 'distribution': {},
                  'violations': [], 'extra': {'harness_exception': tb[-1500:]},
                  'disagreements': [{'case': {'kind': 'harness-exception', 'traceback': tb[-3000:]},
                                     'impl': 'the run raised ' + tb.strip().split('\n')[-1][:300],
                                     'model': 'the harness expects every outcome of the implementation to be a value it can compare', 'explained': False}]}
    # result: dict(evaluations, distinct, rule, samples, distribution, disagreements:[...],
    #              violations:[{what, case, ...}], extra)
    violations = []
    known_hits = {}
    for v in result.get('violations', []):
        hit = None
        for k in known:
            if chk.matches_known(k, v):
                hit = k
                break
        if hit:
            known_hits.setdefault(hit['id'], (hit, 0))
            known_hits[hit['id']] = (hit, known_hits[hit['id']][1] + 1)
        else:
            violations.append(v)
    for kid, (k, n) in known_hits.items():
        log('KNOWN-FINDING: property=%s %s (%d cases)' % (pid, k['what'], n))

    status = 0
    disagreements = result.get('disagreements', [])
    # the extraction step itself: extracted model = kernel evaluation on the corpus
    cross = None
    if tier == 'thorough' or pid in ('C01', 'C05'):
        import kernelcheck
        try:
            cross = kernelcheck.run(log)
        except Exception as e:
            cross = {'cases': 0, 'ok': False, 'detail': 'kernel cross-check could not run: %r' % e}
        if not cross['ok']:
            disagreements.append({'case': {'kind': 'extraction'}, 'impl': 'extracted OCaml model', 'model': 'vm_compute in the kernel: ' + cross['detail'], 'explained': False})
    unexplained = [d for d in disagreements if not d.get('explained')]
    if violations:
        v = violations[0]
        shrunk = chk.shrink(v) if hasattr(chk, 'shrink') else v
        path = write_replay(pid, {'property': pid, 'what': shrunk.get('what'), 'case': shrunk.get('case'),
                                  'impl': shrunk.get('impl'), 'expected': shrunk.get('expected'),
                                  'replay_cmd': './check %s --replay <this file>' % pid,
                                  'n_violations': len(violations)})
        log('VIOLATION property=%s replay=%s' % (pid, path))
        status = 1
    elif not gate['ok']:
        path = write_replay(pid, {'property': pid, 'broken': 'proof', 'detail': gate['detail'],
                                  'note': 'the theorem file no longer checks; no failing input found in %d cases' % result.get('evaluations', 0)})
        log('VIOLATION property=%s replay=%s no-failing-input-found' % (pid, path))
        status = 1
    elif unexplained:
        d = unexplained[0]
        path = write_replay(pid, {'property': pid, 'broken': 'correspondence',
                                  'detail': 'model and implementation disagree on obs_%s; the property oracle finds no failing input' % pid,
                                  'case': d.get('case'), 'impl': d.get('impl'), 'model': d.get('model'),
                                  'n_disagreements': len(unexplained)})
        log('VIOLATION property=%s replay=%s no-failing-input-found' % (pid, path))
        status = 1

    wall = time.time() - t0
    cov = {
        'obligations': gate.get('obligations', 0),
        'discharged': gate.get('discharged', 0),
        'checker_cmd': gate.get('checker_cmd', 'cd /verif/coq && make'),
        'trusted_base': TRUSTED_BASE + ['Print Assumptions: ' + a for a in sorted(set(gate.get('assumptions', [])))],
        'theorems': gate.get('theorems', []),
        'evaluations': result.get('evaluations', 0),
        'distinct_nontrivial': result.get('distinct', 0),
        'rule': result.get('rule', ''),
        'samples': result.get('samples', [])[:5],
        'traces_validated_against_impl': result.get('evaluations', 0),
        'disagreements': len(disagreements),
        'distribution': result.get('distribution', {}),
        'exhaustive': bool(result.get('exhaustive', False)),
    }
    if cross is not None:
        cov['kernel_crosscheck'] = {'corpus_cases': cross['cases'], 'agrees': cross['ok']}
    cov.update(result.get('extra', {}))
    ev = {'property_id': pid, 'tier': tier, 'seed': seed, 'level': mod.LEVEL if hasattr(mod, 'LEVEL') else 'proof',
          'coverage': cov,
          'assumptions': getattr(mod, 'ASSUMPTIONS', []),
          'wall_s': round(wall, 2), 'violations': len(violations) + (1 if status and not violations else 0)}
    write_evidence(pid, ev)
    log('%s tier=%s seed=%d evaluations=%d distinct_nontrivial=%d theorems=%d/%d disagreements=%d wall=%.1fs %s'
        % (pid, tier, seed, cov['evaluations'], cov['distinct_nontrivial'], cov['discharged'],
           cov['obligations'], len(disagreements), wall, 'FAIL' if status else 'ok'))
    return status


if __name__ == '__main__':
    sys.exit(main())
