"""Writes the witnesses of the repaired defects (DESIGN.md section 6) into corpus/.
Run by hand; the corpus is committed and runs first in every check."""
import os
import sys
import json
sys.path.insert(0, os.path.dirname(os.path.abspath(__file__)))
from docs import (E, to_text, ABSENT, item, story, p, payload, ro_create, ro_head, story_send, story_move, story_insert,
                  story_delete, item_move_multiple, item_insert, item_replace, item_delete, element_action, ref, ea_target,
                  metadata_replace, mos, ready_to_air, ro_replace, story_replace)
import gens

ROOT = os.path.dirname(os.path.dirname(os.path.abspath(__file__)))


def base_ro(timing=True):
    kids = ro_head()
    for k, sid in enumerate('ABCD'):
        body = []
        if sid == 'A':
            body = [item('a1'), p('one'), item('a2'), p('two'), item('a3'), p('three')]
        else:
            body = [item('a1'), item('a2')]
        kids.append(story(sid, body=body, slug='Story ' + sid, meta=payload(duration=str(10 + k)) if timing else None))
    return ro_create(kids)


W = []


def add(fid, props, msg, ro=None, what=''):
    W.append({'kind': 'add', 'properties': props, 'ro': to_text(ro if ro is not None else base_ro()), 'msg': to_text(msg),
              'meta': {'cls': [c for c in msg if c.tag.startswith('ro')][-1].tag, 'witness': fid, 'what': what}})


add('F1', ['C01', 'C03', 'C04'], story_send(5, 'B', body=[p('x'), E('storyItem', E('itemID', text='s1'))]), what='roStorySend for the 2nd story')
add('F2', ['C01'], story_move(5, ['A', 'C']), what='forward roStoryMove')
add('F3', ['C01', 'C06'], story_move(5, ['A', None]), what='roStoryMove with blank target = end')
add('F4', ['C01', 'C06'], element_action(5, 'MOVE', [ref('storyID', 'A')], [[ref('storyID', 'C'), ref('storyID', 'D')]]), what='EA MOVE two IDs in one element_source')
add('F5', ['C01'], element_action(5, 'MOVE', [ref('storyID', 'D')], [[ref('storyID', 'A')], [ref('storyID', 'B')]]), what='EA MOVE forward, two element_source tags')
add('F6', ['C01'], element_action(5, 'SWAP', [ref('storyID', None)], [[ref('storyID', 'C'), ref('storyID', 'A')]]), what='EA SWAP with the first operand later')
add('F7', ['C01', 'C06'], story_insert(5, 'C', [gens.new_story('A'), gens.new_story('Y')]), what='insert with a skipped duplicate')
add('F8', ['C02', 'C03'], item_move_multiple(5, 'A', ['a1', 'a2', 'a3']), what='item move forward across paragraphs')
add('F8b', ['C02'], element_action(5, 'SWAP', [ref('storyID', 'A')], [[ref('itemID', 'a3'), ref('itemID', 'a1')]]), what='EA item SWAP reversed')
add('F9', ['C05', 'C12'], element_action(5, 'SWAP', [ref('storyID', None)], [[ref('storyID', 'B'), ref('storyID', 'B')]]), what='swap a story with itself')
add('F9b', ['C05', 'C12'], element_action(5, 'SWAP', [ref('storyID', 'A')], [[ref('itemID', 'a1'), ref('itemID', None)]]), what='item swap, second operand blank')
add('F10', ['C05', 'C02'], item_move_multiple(5, 'A', ['a3', 'zz', 'a1']), what='unknown 2nd source after the 1st has moved')
add('F10b', ['C05'], element_action(5, 'MOVE', ea_target('A', 'a1'), [[ref('itemID', 'a3'), ref('itemID', 'zz')]]), what='EA item MOVE unknown 2nd source')
add('F11', ['C06', 'C01'], element_action(5, 'DELETE', None, [[ref('storyID', 'A'), ref('storyID', 'C')]]), what='EA DELETE two IDs')
add('F11b', ['C06', 'C02'], element_action(5, 'DELETE', [ref('storyID', 'A')], [[ref('itemID', 'a1'), ref('itemID', 'a3')]]), what='EA item DELETE two IDs')
add('F16', ['C12', 'C01'], story_insert(5, 'B', [gens.new_story('N')]), ro=base_ro(timing=False), what='insert into a running order without durations')
add('F16b', ['C12'], element_action(5, 'INSERT', [ref('storyID', 'B')], [[gens.new_story('N')]]),
    ro=ro_create(ro_head() + [story('A', meta=payload(duration='3')), story('B'), story('C', meta=payload(duration='4'))]), what='timed, untimed, timed')
add('F23', ['C03', 'C05'], story_insert(5, None, [gens.new_story('N')]), what='blank target in roStoryInsert')
add('F23b', ['C03'], story_replace(5, None, [gens.new_story('N')]), what='blank target in roStoryReplace')
add('F23c', ['C03', 'C02'], item_replace(5, 'A', None, [gens.new_item('n')]), what='blank item in roItemReplace')
add('F23d', ['C03'], item_delete(5, None, ['a1']), what='blank story in roItemDelete')
add('F24', ['C03', 'C06'], story_delete(5, ['C', None]), what='blank ID among others in roStoryDelete')
md2 = E('mosExternalMetadata', E('mosSchema', text='http://schema/two'), E('mosPayload', E('Owner', text='new')))
ro_md = ro_create(ro_head() + [E('mosExternalMetadata', E('mosSchema', text='http://schema/one'), E('mosPayload', E('Owner', text='1'))),
                               E('mosExternalMetadata', E('mosSchema', text='http://schema/two'), E('mosPayload', E('Owner', text='2'))), story('A')])
add('F25', ['C03', 'C04'], metadata_replace(5, [md2]), ro=ro_md, what='mosExternalMetadata of the second schema')
add('F26', ['C12', 'C05'], gens.make_ro(['X'], message_id=5), what='a second roCreate')

for fid, text, what in [('F12', '<mos><messageID>1</messageID><roReadyToAir/></mos>', 'message element without children'),
                        ('F13', '<mos><roElementAction><element_source><storyID>A</storyID></element_source></roElementAction></mos>', 'roElementAction without operation'),
                        ('F13b', '<mos><roElementAction operation="MOVE"><element_target><storyID>A</storyID></element_target><element_source><itemID>i</itemID></element_source></roElementAction></mos>', 'unlisted shape'),
                        ('F13c', '<mos><roElementAction operation="DELETE"/></mos>', 'no element_source')]:
    W.append({'kind': 'classify', 'properties': ['C08', 'C18'], 'text': text, 'meta': {'kind': 'corpus', 'tag': fid, 'what': what}})

for fid, doc, what in [('F3', story_move(5, ['A', None]), 'blank roStoryMove target'),
                       ('F4', element_action(5, 'MOVE', [ref('storyID', 'A')], [[ref('storyID', 'C'), ref('storyID', 'D')]]), 'two IDs in one element_source'),
                       ('F22', ro_replace(5, [gens.new_story('R1')]), 'compact roReplace'),
                       ('F24', story_delete(5, ['C', None, 'A']), 'blank ID among others')]:
    W.append({'kind': 'access', 'properties': ['C20'], 'text': to_text(doc), 'meta': {'cls': doc[3].tag, 'witness': fid, 'what': what}})

W.append({'kind': 'state', 'properties': ['C15', 'C16', 'C17'], 'ro': to_text(base_ro(timing=False)), 'meta': {'kind': 'corpus-F16', 'what': 'no story has a duration'}})
W.append({'kind': 'state', 'properties': ['C15', 'C16'],
          'ro': to_text(ro_create(ro_head() + [story('A', meta=payload(duration='3')), story('B', meta=E('mosExternalMetadata', E('mosSchema', text='x'))), story('C', meta=payload(duration='0')), story('D', meta=payload(text_time='1.5'))])),
          'meta': {'kind': 'corpus-F16', 'what': 'mosExternalMetadata without mosPayload; zero duration'}})

# ---- added later (appended so that earlier file names stay as they are)
def add_late(fid, props, msg, ro, what):
    W.append({'kind': 'add', 'properties': props, 'ro': to_text(ro), 'msg': to_text(msg),
              'meta': {'cls': [c for c in msg if c.tag.startswith('ro')][-1].tag, 'witness': fid, 'what': what}})


ro_noid = ro_create(ro_head() + [story('A', body=[item('a1')]), story(ABSENT, body=[item('a1')], slug='no id'), story('B')])
add_late('F28', ['C05', 'C12', 'C06'], element_action(5, 'DELETE', None, [[ref('storyID', 'A'), ref('storyID', 'ZZ')]]), ro_noid,
         'EA DELETE of A and an unknown ID past a story without storyID: A was deleted, then AttributeError')
add_late('F28b', ['C05', 'C12', 'C03'], item_delete(5, 'B', ['a1']), ro_noid, 'lookup of a story that lies after a story without storyID')
# witnesses of seeded changes (round 2)
add_late('S2-C01', ['C01'], element_action(5, 'INSERT', [ref('storyID', 'A')], [[gens.new_story('N1')]]),
         gens.make_ro(['A', 'B'], layout='bare'), 'insert before the story that is the first child of roCreate')
add_late('S2-C02', ['C02'], element_action(5, 'SWAP', [ref('storyID', 'A')], [[ref('itemID', 'a3'), ref('itemID', 'a1')]]),
         ro_create(ro_head() + [story('A', body=[item('a1'), item('a2'), item('a3'), item('a4')])]), 'reverse-named swap with an item between')
add_late('S2-C05', ['C05', 'C12'], element_action(5, 'MOVE', [ref('storyID', 'A')], [[ref('storyID', 'B'), ref('storyID', 'C'), ref('storyID', 'B')]]),
         base_ro(), 'EA story MOVE with a repeated source')
add_late('S2-C03', ['C03', 'C05'], item_insert(5, None, None, [gens.new_item('n')]),
         gens.make_ro(['A', 'B'], layout='blankids'), 'roItemInsert with blank references against a blank-ID placeholder story')
W.append({'kind': 'state', 'properties': ['C15', 'C16'],
          'ro': to_text(ro_create(ro_head() + [story('A', meta=payload(duration='3')),
                                               story('B', meta=E('mosExternalMetadata', E('mosSchema', text='x'), E('mosPayload', E('StoryDuration', text='0'), E('TextTime', text='7'), E('MediaTime', text='38')))),
                                               story('C', meta=payload(duration='4'))])),
          'meta': {'kind': 'corpus-S2-C16', 'what': 'explicit StoryDuration 0 beside TextTime / MediaTime'}})
# F29: a message without messageID whose warning text raised after the first element had been applied
_f29 = story_delete(5, ['A', 'A'])
_f29.remove(_f29.find('messageID'))
add_late('F29', ['C05', 'C06'], _f29, ro_create(ro_head() + [story('A'), story('B')]),
         'roStoryDelete naming A twice, no messageID: A was deleted, then AttributeError from the text of the warning')

d = os.path.join(ROOT, 'corpus')
os.makedirs(d, exist_ok=True)
for f in os.listdir(d):
    if f.endswith('.json'):
        os.unlink(os.path.join(d, f))
for k, w in enumerate(W):
    name = '%02d-%s-%s.json' % (k, w['kind'], (w['meta'].get('witness') or w['meta'].get('tag') or w['meta'].get('kind')))
    json.dump(w, open(os.path.join(d, name), 'w'), indent=1)
print(len(W), 'witnesses written')
