"""Run every check against every seeded change (in scratch worktrees, /repo untouched) and
write notes/seed-matrix.json: which checks raise an alarm for which change.  Seeds run in parallel."""
import os
import sys
import json
import subprocess
from concurrent.futures import ThreadPoolExecutor

ROOT = os.path.dirname(os.path.dirname(os.path.abspath(__file__)))
CHECKS = ['C%02d' % i for i in range(1, 21)]


OWN = {'S3-C20': ['C20', 'C13'], 'S5-C04': ['C04', 'C13'], 'S7-C15': ['C15', 'C16'], 'S9-C15': ['C15', 'C17'], 'S10-C06': ['C06', 'C01'], 'S13-C15': ['C15', 'C16'], 'S15-C20': ['C20', 'C08']}
MODE = {'own': False}


def checks_for(name):
    """--own: only the check of the property the change was aimed at (and the check that owns the observable, where that
    is another one)"""
    if not MODE['own']:
        return CHECKS
    return OWN.get(name, [name.split('-')[-1]])


def one(name):
    wt = '/tmp/seedmatrix-' + name
    subprocess.run('git -C /repo worktree remove --force %s' % wt, shell=True, capture_output=True)
    r = subprocess.run('git -C /repo worktree add -f %s HEAD && git -C %s apply %s' % (wt, wt, os.path.join(ROOT, 'seeded', name, 'patch.diff')),
                       shell=True, capture_output=True, text=True)
    assert r.returncode == 0, r.stderr
    env = dict(os.environ, MOSROMGR_REPO=wt, VERIF_EVIDENCE_DIR='/tmp/seedmatrix-evidence-' + name, VERIF_REPLAY_DIR='/tmp/seedmatrix-replays-' + name)
    row = {}
    try:
        for c in checks_for(name):
            r = subprocess.run(['./check', c, '--tier', 'quick'], cwd=ROOT, capture_output=True, text=True, env=env)
            lines = [l for l in r.stdout.split('\n') if l.startswith('VIOLATION')]
            row[c] = 'no' if r.returncode == 0 else ('input' if lines and 'no-failing-input-found' not in lines[0] else
                                                    'crash' if 'Traceback (most recent call last)' in r.stdout + r.stderr else 'no-input')
    finally:
        subprocess.run('git -C /repo worktree remove --force %s; git -C /repo worktree prune; rm -rf /tmp/seedmatrix-evidence-%s /tmp/seedmatrix-replays-%s' % (wt, name, name),
                       shell=True, capture_output=True)
    print(name, ' '.join('%s:%s' % (c, v) for c, v in row.items() if v != 'no'), flush=True)
    return name, row


if __name__ == '__main__':
    seeds = sorted(os.listdir(os.path.join(ROOT, 'seeded')))
    args = sys.argv[1:]
    if '--own' in args:
        MODE['own'] = True
        args.remove('--own')
    if args:
        seeds = args
    with ThreadPoolExecutor(max_workers=6) as ex:
        out = dict(ex.map(one, seeds))
    json.dump(out, open(os.path.join(ROOT, 'notes', 'seed-own.json' if MODE['own'] else 'seed-matrix.json'), 'w'), indent=1, sort_keys=True)
    missed = [n for n, row in out.items() if 'input' not in row.values()]
    print('seeds without a concrete replay from the checks run:', missed)
