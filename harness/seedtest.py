"""Confirm a seeded change and run checks against it.

  seedtest.py confirm <name> <src-dir>     verify patch/demo in a scratch worktree and store under seeded/<name>/
  seedtest.py run <name> <check-id>...     the checks against seeded/<name>/patch.diff applied in a scratch worktree (MOSROMGR_REPO)
  seedtest.py run-inplace <name> <id>...   the same with the patch applied to /repo itself and undone straight afterwards
"""
import os
import sys
import json
import shutil
import subprocess

ROOT = os.path.dirname(os.path.dirname(os.path.abspath(__file__)))
REPO = '/repo'
PY = '/venv/bin/python'


def sh(cmd, cwd=None, env=None, timeout=1800):
    r = subprocess.run(cmd, cwd=cwd, shell=True, capture_output=True, text=True, env=env, timeout=timeout)
    return r.returncode, (r.stdout + r.stderr)


def confirm(name, src):
    wt = '/tmp/seedverify-' + name
    sh('git -C %s worktree remove --force %s' % (REPO, wt))
    rc, out = sh('git -C %s worktree add -f %s HEAD' % (REPO, wt))
    assert rc == 0, out
    res = {'name': name}
    try:
        env = dict(os.environ, PYTHONPATH=wt, PYTHONHASHSEED='0')
        shutil.copy(os.path.join(src, 'demo.py'), os.path.join(wt, 'demo.py'))
        rc, out = sh('%s demo.py' % PY, cwd=wt, env=env)
        res['demo_unchanged_exit'] = rc
        rc, out = sh('git apply %s' % os.path.join(src, 'patch.diff'), cwd=wt)
        assert rc == 0, 'patch does not apply: ' + out
        rc, out = sh('%s -m pytest -q -p no:cacheprovider 2>&1 | tail -1' % PY, cwd=wt, env=env)
        res['tests'] = out.strip()
        rc, out = sh('%s demo.py' % PY, cwd=wt, env=env)
        res['demo_changed_exit'] = rc
        res['demo_changed_tail'] = out.strip().split('\n')[-1][:300]
    finally:
        sh('git -C %s worktree remove --force %s' % (REPO, wt))
        sh('git -C %s worktree prune' % REPO)
    ok = res['demo_unchanged_exit'] == 0 and res['demo_changed_exit'] != 0 and '196 passed' in res['tests']
    res['confirmed'] = ok
    if ok:
        d = os.path.join(ROOT, 'seeded', name)
        os.makedirs(d, exist_ok=True)
        shutil.copy(os.path.join(src, 'patch.diff'), os.path.join(d, 'patch.diff'))
        shutil.copy(os.path.join(src, 'demo.py'), os.path.join(d, 'demo.py'))
        meta_p = os.path.join(d, 'meta.json')
        meta = json.load(open(meta_p)) if os.path.exists(meta_p) else {}
        meta.update({'name': name, 'confirmation': res})
        json.dump(meta, open(meta_p, 'w'), indent=1)
    print(json.dumps(res, indent=1))
    return ok


def run(name, checks):
    """the checks against the change: in a scratch worktree of /repo with the patch applied (MOSROMGR_REPO points the
    checks at it), so that nothing else that reads /repo at the same time sees the change; removed afterwards.
    `run-inplace` does the same by patching /repo itself and undoing it straight afterwards."""
    d = os.path.join(ROOT, 'seeded', name)
    wt = '/tmp/seedrun-' + name
    sh('git -C %s worktree remove --force %s' % (REPO, wt))
    rc, out = sh('git -C %s worktree add -f %s HEAD' % (REPO, wt))
    assert rc == 0, out
    results = {}
    try:
        rc, out = sh('git -C %s apply %s' % (wt, os.path.join(d, 'patch.diff')))
        assert rc == 0, out
        # evidence and replay files of these runs go to a scratch directory, not to /verif/evidence
        env = dict(os.environ, MOSROMGR_REPO=wt, VERIF_EVIDENCE_DIR=wt + '-ev', VERIF_REPLAY_DIR=wt + '-rp')
        for c in checks:
            rc, out = sh('./check %s --tier quick' % c, cwd=ROOT, env=env)
            results[c] = record(c, rc, out)
    finally:
        shutil.rmtree(wt + '-ev', ignore_errors=True)
        shutil.rmtree(wt + '-rp', ignore_errors=True)
        sh('git -C %s worktree remove --force %s' % (REPO, wt))
        sh('git -C %s worktree prune' % REPO)
    save(d, results)


def record(c, rc, out):
    lines = [l for l in out.split('\n') if l.startswith('VIOLATION') or l.startswith('KNOWN')]
    what = ''
    for l in lines:
        if 'replay=' in l and 'no-failing-input-found' not in l:
            p = l.split('replay=')[1].split()[0]
            try:
                what = json.load(open(p)).get('what', '')
            except Exception:
                pass
    print(c, 'exit', rc, lines, what[:200])
    return {'exit': rc, 'lines': lines, 'what': what}


def save(d, results):
    meta_p = os.path.join(d, 'meta.json')
    meta = json.load(open(meta_p)) if os.path.exists(meta_p) else {}
    meta.setdefault('checks_run', {}).update(results)
    json.dump(meta, open(meta_p, 'w'), indent=1)


def run_inplace(name, checks):
    d = os.path.join(ROOT, 'seeded', name)
    rc, out = sh('git -C %s status --porcelain' % REPO)
    assert out.strip() == '', '/repo is not clean: ' + out
    rc, out = sh('git -C %s apply %s' % (REPO, os.path.join(d, 'patch.diff')))
    assert rc == 0, out
    results = {}
    try:
        for c in checks:
            rc, out = sh('./check %s --tier quick' % c, cwd=ROOT)
            results[c] = record(c, rc, out)
    finally:
        sh('git -C %s checkout -- .' % REPO)
    rc, out = sh('git -C %s status --porcelain' % REPO)
    assert out.strip() == '', out
    save(d, results)


if __name__ == '__main__':
    if sys.argv[1] == 'confirm':
        sys.exit(0 if confirm(sys.argv[2], sys.argv[3]) else 1)
    elif sys.argv[1] == 'run-inplace':
        run_inplace(sys.argv[2], sys.argv[3:])
    else:
        run(sys.argv[2], sys.argv[3:])
