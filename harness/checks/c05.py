"""C05 — a merge that raises leaves the running order exactly as it was."""
import itertools
import copy
import gens
import impl
import engine
import exchange as X
from docs import (to_text, ABSENT, element_action, ref, ea_target, item_move_multiple, story_delete,
                  item_delete, story_move, ro_delete)
from checks.base import AddCheck, err_class, corpus_cases
from checks.c01 import history_states

LEVEL = 'proof'
ASSUMPTIONS = [
    'theorem hypotheses: well-formed running order (stories have storyID, items have itemID), integer messageID',
    'the model returns the document at the point of failure; the correspondence run compares it with ro.xml after the exception',
]


def kth_bad_cases():
    """the unresolvable / repeated / self-referential ID at each position k of an n-element list"""
    items = {'A': ['i1', 'i2'], 'B': ['i1', 'i2', 'i3', 'i4'], 'C': ['i1']}
    ro = to_text(gens.make_ro(['A', 'B', 'C', 'D'], layout='between', items=items, para_layout='between'))
    mid = 9
    for n in range(1, 5):
        good_s = ['A', 'B', 'C', 'D'][:n]
        good_i = ['i1', 'i2', 'i3', 'i4'][:n]
        for k in range(n):
            for bad in ('ZZ', None, 'dup', 'target'):
                ss = list(good_s)
                ii = list(good_i)
                tgt_s = 'D' if n < 4 else ABSENT
                tgt_i = 'i4' if n < 4 else None
                if bad == 'dup':
                    if n < 2:
                        continue
                    ss[k] = good_s[(k + 1) % n]
                    ii[k] = good_i[(k + 1) % n]
                elif bad == 'target':
                    if n >= 4:
                        continue
                    ss[k] = tgt_s
                    ii[k] = tgt_i
                else:
                    ss[k] = bad
                    ii[k] = bad
                meta = {'n': n, 'k': k, 'bad': str(bad)}
                for g in ('one', 'each'):
                    yield ro, element_action(mid, 'MOVE', None if tgt_s == ABSENT else [ref('storyID', tgt_s)],
                                             gens.ea_ids('storyID', ss, g)), dict(meta, cls='EAStoryMove')
                yield ro, item_move_multiple(mid, 'B', ii + [tgt_i]), dict(meta, cls='ItemMoveMultiple')
                yield ro, element_action(mid, 'MOVE', ea_target('B', tgt_i), [[ref('itemID', i) for i in ii]]), dict(meta, cls='EAItemMove')
                yield ro, story_delete(mid, ss), dict(meta, cls='StoryDelete')
                yield ro, item_delete(mid, 'B', ii), dict(meta, cls='ItemDelete')
    for a, b in itertools.product(['A', 'B', 'ZZ', None], repeat=2):
        yield ro, element_action(mid, 'SWAP', [ref('storyID', None)], [[ref('storyID', a), ref('storyID', b)]]), {'cls': 'EAStorySwap', 'n': 2, 'bad': '%s/%s' % (a, b)}
    for a, b in itertools.product(['i1', 'i3', 'ZZ', None], repeat=2):
        yield ro, element_action(mid, 'SWAP', [ref('storyID', 'B')], [[ref('itemID', a), ref('itemID', b)]]), {'cls': 'EAItemSwap', 'n': 2, 'bad': '%s/%s' % (a, b)}
    for src, tgt in itertools.product(['A', 'C', 'ZZ', None], ['A', 'C', 'ZZ', None, ABSENT]):
        yield ro, story_move(mid, [src] if tgt == ABSENT else [src, tgt]), {'cls': 'StoryMove', 'n': 2, 'bad': '%s/%s' % (src, tgt)}


class Check(AddCheck):
    pid = 'C05'
    needs_claims = False
    rule = ('every class with a lookup: ID lists of n<=4 with the unknown / blank / repeated / target-equal ID at each '
            'position k; all swap and move operand combinations over {existing, unknown, blank}; the exhaustive '
            'story-level and item-level message spaces of C01/C02 (which contain every single-reference failure); '
            'random messages on states reached by random histories; non-strict collections with every placement of '
            'failing messages. non-trivial = the merge raised; distinct by (class, n, k, failure kind, exception)')

    def gen(self, tier, rng):
        for ro, doc, meta in kth_bad_cases():
            yield {'ro': ro, 'msg': to_text(doc), 'meta': meta}
        n_max = 2 if tier == 'quick' else 4
        yield from gens.merge_cases_story(n_max=n_max, max_src=2, layouts=['plain', 'between'])
        yield from gens.merge_cases_item(n_max=n_max, max_src=2, para_layouts=['none', 'between'])
        yield from gens.merge_cases_other()
        # roMetadataReplace in all its shapes (repeated / schema-less blocks, non-metadata children in k-th position)
        from checks.c03 import metadata_cases
        yield from metadata_cases(rng)
        # malformed but parseable messages: each message of a representative set with any one element removed, against a
        # running order in which its references resolve (a raise at any point must leave the running order as it was)
        from checks.base import drop_variants
        ro = to_text(gens.make_ro(['A', 'B', 'C'], layout='between', timing='all'))
        seen = set()
        for cls, doc, meta in list(gens.story_level_messages(['A', 'B'], max_src=2, full_refs=False)) + \
                list(gens.item_level_messages(['B'], gens.ITEM_IDS[:2], max_src=2)):
            key = (cls, len(doc[3]))
            if key in seen:
                continue
            seen.add(key)
            for v in drop_variants(to_text(doc)):
                yield {'ro': ro, 'msg': v, 'meta': dict(meta, cls=cls, n=3, layout='dropped-element')}
            # ... and with a message ID that is blank or not an integer literal: whatever evaluates it, and whenever
            for mid in ('', 'A17', '7.0', ' '):
                d2 = copy.deepcopy(doc)
                d2.find('messageID').text = mid or None
                yield {'ro': ro, 'msg': to_text(d2), 'meta': dict(meta, cls=cls, n=3, layout='bad-message-id')}
        yield from gens.merge_cases_padded()
        yield from gens.merge_cases_special_ids()
        yield from gens.merge_cases_bad_timing_payload()
        n_hist = 100 if tier == 'quick' else 1000
        for state in history_states(rng, n_hist, 8):
            sids, items = gens.state_ids(state)
            k = [0]

            def fresh():
                k[0] += 1
                return 'g%d' % k[0]
            for j in range(4):
                if rng.random() < 0.5:
                    doc = gens.random_story_message(rng, sids, 700 + j, fresh)
                else:
                    doc = gens.random_item_message(rng, sids, items, 700 + j, fresh)
                yield {'ro': state, 'msg': to_text(doc), 'meta': {'cls': doc[3].tag, 'n': len(sids), 'layout': 'history'}}

    def obs(self, o):
        if 'classerr' in o:
            return ('classerr', o['classerr'])
        return (err_class(o),)

    def full_obs(self, o, before):
        if 'classerr' in o:
            return ('classerr', o['classerr'])
        return (err_class(o), (o['tree'] == before) if o.get('err') else None)

    def evaluate(self, cases, force_oracle=False):
        # obs_C05 needs the tree before the attempt: wrap obs per case
        self._before = {}
        return super().evaluate(cases, force_oracle)

    def nontrivial(self, case, io, before):
        return bool(io.get('err'))

    def signature(self, case, io):
        m = case.get('meta', {})
        return (m.get('cls'), m.get('n'), m.get('k'), m.get('bad'), err_class(io))

    def violation(self, case, io, claim, before):
        if io.get('err') and io['tree'] != before:
            return '%s raised %s but the running order changed' % (io.get('cls'), io['err'])
        return None

    def run(self, tier, rng, log):
        # the observable is (exception class, unchanged?) on both sides; since AddCheck.obs has no
        # access to the tree before, compare it here
        corpus = corpus_cases(self.pid, 'add')
        cases = corpus + list(self.gen(tier, rng))
        cases += list(gens.fuzzed_cases(cases, rng, 1500 if tier == 'quick' else 15000))      # structural neighbours (gens.mutate_doc)
        dis, vio, sigs, dist, samples, n = [], [], set(), {}, [], 0
        for i in range(0, len(cases), self.chunk):
            part = cases[i:i + self.chunk]
            for c, (io, mo) in zip(part, engine.add_cases(part)):
                n += 1
                before = self.before_tree(c)
                a, b = self.full_obs(io, before), self.full_obs(mo, before)
                dist[c['meta'].get('cls', '?')] = dist.get(c['meta'].get('cls', '?'), 0) + 1
                if io.get('err'):
                    sigs.add(self.signature(c, io))
                    if len(samples) < 3 and c['meta'].get('k') is not None:
                        samples.append({'ro': c['ro'], 'msg': c['msg'], 'impl_obs': a})
                what = self.violation(c, io, None, before)
                if what:
                    vio.append({'what': what, 'case': {'kind': 'add', 'ro': c['ro'], 'msg': c['msg'], 'meta': c['meta']},
                                'impl': a, 'expected': b})
                if a != b:
                    dis.append({'case': {'kind': 'add', 'ro': c['ro'], 'msg': c['msg'], 'meta': c['meta']},
                                'impl': a, 'model': b, 'explained': bool(what)})
        # non-strict collections: the result equals the fold over the messages that do not fail
        cn, cv, cd = self.collections(tier, rng)
        n += cn
        vio += cv
        dis += cd
        return {'evaluations': n, 'distinct': len(sigs), 'rule': self.rule, 'samples': samples,
                'distribution': dist, 'disagreements': dis, 'violations': vio,
                'extra': {'corpus_cases': len(corpus), 'nonstrict_collections': cn}}

    def collections(self, tier, rng):
        ro_doc = gens.make_ro(['A', 'B', 'C'], layout='plain', message_id=1)
        good = [gens.story_append(0, [gens.new_story('G%d' % j)]) for j in range(5)]
        bad = [item_delete(0, 'ZZ', ['i1']), story_move(0, ['ZZ', 'A']),
               element_action(0, 'SWAP', [ref('storyID', None)], [[ref('storyID', 'A'), ref('storyID', 'A')]]),
               item_move_multiple(0, 'A', ['i2', 'zz', 'i1']),
               element_action(0, 'MOVE', [ref('storyID', 'B')], [[ref('storyID', 'C'), ref('storyID', 'ZZ')]])]
        n_msgs = 4 if tier == 'quick' else 5
        cases = []
        for mask in itertools.product([0, 1], repeat=n_msgs):
            docs = [to_text(ro_doc)]
            for j, bit in enumerate(mask):
                d = (bad[j % len(bad)] if bit else good[j])
                d.find('messageID').text = str(10 + j)
                docs.append(to_text(d))
            d = ro_delete(99)
            docs.append(to_text(d))
            cases.append({'docs': docs, 'inc': False, 'strict': False, 'mask': mask})
        model = engine.coll_cases(cases)
        vio, dis = [], []
        for c, mo in zip(cases, model):
            io = impl.run_coll(c['docs'], False, False)
            # oracle: sequential adds on the implementation, skipping the ones that raise
            state = c['docs'][0]
            for t in c['docs'][1:]:
                r = impl.run_add(state, t)
                if 'tree' in r and not r.get('err'):
                    state = X.tree_to_string(r['tree'])
            want = X.elem_to_tree(impl.parse_doc(state))
            if io.get('tree') != want or io.get('err'):
                vio.append({'what': 'non-strict collection merge differs from applying the messages that do not fail',
                            'case': {'kind': 'coll', 'docs': c['docs'], 'inc': False, 'strict': False},
                            'impl': str(io.get('err')), 'expected': 'fold over non-failing messages'})
            if (io.get('err'), io.get('tree')) != (mo.get('err'), mo.get('tree')):
                dis.append({'case': {'kind': 'coll', 'docs': c['docs']}, 'impl': str(io.get('err')),
                            'model': str(mo.get('err')), 'explained': False})
        for d in dis:
            d['explained'] = bool(vio)
        return len(cases), vio, dis

    def replay(self, rep):
        case = rep.get('case') or {}
        if case.get('kind') == 'coll':
            io = impl.run_coll(case['docs'], case.get('inc', False), case.get('strict', False))
            state = case['docs'][0]
            for t in case['docs'][1:]:
                r = impl.run_add(state, t)
                if 'tree' in r and not r.get('err'):
                    state = X.tree_to_string(r['tree'])
            bad = io.get('tree') != X.elem_to_tree(impl.parse_doc(state)) or bool(io.get('err'))
            return {'violation': bad, 'impl_err': io.get('err')}
        return super().replay(rep)

    def shrink(self, v):
        if v['case'].get('kind') == 'coll':
            return v
        return super().shrink(v)
