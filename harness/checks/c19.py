"""C19 — the command line reports and writes exactly what the library computes."""
import os
import json
import subprocess
import impl
import engine
import gens
import exchange as X
from docs import to_text, E, mos, ro_delete, story_append, story_move, element_action, ref, ready_to_air, ro_replace, story
from checks.base import corpus_cases

LEVEL = 'proof'
ASSUMPTIONS = ['PARTIAL: the command functions are proved (C19_detect_line, C19_detect_compositional, C19_detect_status, '
               'C19_merge_output); argparse, the file system and the exit status are glue covered by running mosromgr.cli.main in a subprocess']
HERE = os.path.dirname(os.path.dirname(os.path.abspath(__file__)))


def run_cli(runs):
    req = json.dumps({'repo': impl.REPO, 'runs': runs})
    r = subprocess.run(['/venv/bin/python', os.path.join(HERE, 'sub_cli.py')], input=req, capture_output=True, text=True,
                       env=dict(os.environ, PYTHONHASHSEED='0'))
    if r.returncode:
        raise RuntimeError('cli subprocess failed: ' + r.stderr[-600:])
    return json.loads(r.stdout)


def file_pool(rng):
    """name -> (content for the file system, kind)"""
    pool = {}
    ro = gens.make_ro(['A', 'B'], message_id=1)
    pool['01-create.mos.xml'] = to_text(ro)
    done = gens.make_ro(['A'], message_id=2)
    done.append(E('mosromgrmeta', E('roDelete', E('roID', text='RO1'))))
    pool['02-completed.mos.xml'] = to_text(done)
    k = [0]

    def fresh():
        k[0] += 1
        return 'v%d' % k[0]
    seen = set()
    for j in range(200):
        d = gens.random_story_message(rng, ['A', 'B'], 10 + j, fresh) if j % 2 else gens.random_item_message(rng, ['A', 'B'], {'A': ['i1', 'i2'], 'B': ['i1']}, 10 + j, fresh)
        cls = d[3].tag + d[3].get('operation', '')
        key = (cls, len(d[3]))
        if key in seen:
            continue
        seen.add(key)
        pool['%02d-%s.mos.xml' % (10 + len(seen), cls)] = to_text(d, pretty=(j % 3 == 0))
    pool['80-ready.mos.xml'] = to_text(ready_to_air(80))
    pool['81-swap3.mos.xml'] = to_text(element_action(81, 'SWAP', None, [[ref('storyID', 'A'), ref('storyID', 'B'), ref('storyID', 'A')]]))
    pool['82-move0.mos.xml'] = to_text(story_move(82, []))
    pool['83-noslug.mos.xml'] = to_text(mos(83, E('roCreate', E('roID', text='RO1'))))
    pool['84-roreplace.mos.xml'] = to_text(ro_replace(84, [gens.new_story('R1')]))
    pool['85-itemswap1.mos.xml'] = to_text(element_action(85, 'SWAP', [ref('storyID', 'A')], [[ref('itemID', 'i1')]]))
    pool['90-delete.mos.xml'] = to_text(ro_delete(90))
    pool['a-garbage.mos.xml'] = 'this is not <xml'
    pool['b-unknown.mos.xml'] = '<mos><heartbeat/></mos>'
    pool['c-eaunknown.mos.xml'] = '<mos><roElementAction operation="FROB"><element_source/></roElementAction></mos>'
    pool['d-empty.mos.xml'] = ''
    pool['e-directory.mos.xml'] = '<dir>'
    pool['f-missing.mos.xml'] = None
    # names with characters that a shell, glob, expanduser / expandvars or a URL parser would treat specially; the
    # directory also holds bystanders (BYSTANDERS) that such a pattern would match
    pool['g[1].mos.xml'] = to_text(story_append(70, [gens.new_story('G1')]))
    pool['h?.mos.xml'] = to_text(ro_delete(71))
    pool['i*.mos.xml'] = to_text(ready_to_air(72))
    pool['~j $HOME %41+.mos.xml'] = to_text(story_move(73, ['A', 'B']))
    # the same files under other spellings of their path: the name is printed as it was given, and a trailing slash after
    # a regular file is an unreadable path
    pool['./01-create.mos.xml'] = pool['01-create.mos.xml']
    pool['sub//90-delete.mos.xml'] = pool['90-delete.mos.xml']
    pool['sub/./80-ready.mos.xml'] = pool['80-ready.mos.xml']
    pool['sub/../84-roreplace.mos.xml'] = pool['84-roreplace.mos.xml']
    pool['82-move0.mos.xml/'] = '<notdir>' + pool['82-move0.mos.xml']
    # structural neighbours of the documents above (gens.mutate_doc): what detect / inspect print for them
    base = [(k_, v) for k_, v in pool.items() if isinstance(v, str) and v.startswith('<mos') and '/' not in k_]
    for j in range(40):
        k_, v = rng.choice(base)
        pool['m%02d-%s' % (j, k_[3:])] = gens.mutate_doc(rng, v, None, n=rng.randrange(1, 4))
    return pool


BYSTANDERS = {'out.xml': '<stale>' + 'left over from an earlier, longer output ' * 2000 + '</stale>',
              'g1.mos.xml': '<mos><mosID>M</mosID><ncsID>N</ncsID><messageID>99</messageID><roStoryDelete><roID>BYSTANDER</roID><storyID>A</storyID></roStoryDelete></mos>',
              'ha.mos.xml': 'bystander, not xml', 'iZZ.mos.xml': '<mos><heartbeat/></mos>', 'ro1.mos.xml': 'bystander', 'appX.mos.xml': 'bystander', 'delA.mos.xml': 'bystander'}


def model_detect(inspect, names, pool, at='@'):
    docs_ = []
    for n in names:
        try:
            if pool[n] not in (None, '<dir>') and not str(pool[n]).startswith('<notdir>'):
                docs_.append(impl.parse_doc(pool[n]))
        except Exception:
            pass
    toks = ['cli', engine.oracle_prefix(docs_), '1' if inspect else '0', str(len(names))]
    for n in names:
        c = pool[n]
        toks.append(X.s_tok(at + n))
        if c is None or c == '<dir>' or str(c).startswith('<notdir>'):
            toks.append('U')
        else:
            try:
                e = impl.parse_doc(c)
                toks.append('D ' + X.elem_line(e))
            except Exception:
                toks.append('B')
    out = engine.run_model([' '.join(toks)])[0].split(' ')
    status = int(out[0])
    n = int(out[1])
    lines = []
    k = 2
    for _ in range(n):
        lines.append((out[k], X.tok_s(out[k + 1])))
        k += 2
    return status, lines


def err_kind(line):
    if line.endswith(': Invalid'):
        return line
    if ': Unable to inspect' in line:
        return line.split(': Unable to inspect')[0] + ': Unable to inspect'
    return line


class Check:
    pid = 'C19'
    rule = ('[files and the S3 variants -b/-p/-s/-k against an in-memory fake] ' 'file lists of 1..6 [1..12] drawn from a pool with every message class the generators reach, a completed running order, '
            'classifiable messages whose inspect() raises, non-XML, empty, unknown XML, unknown roElementAction, a directory and a '
            'missing path x {detect, inspect}; merge with every combination of --incomplete / --non-strict / -o over valid, '
            'incomplete, invalid and failing collections and no arguments; each through mosromgr.cli.main in a subprocess. '
            'distinct by (command, kinds of files, status)')

    def matches_known(self, k, v):
        return False

    def detect_runs(self, tier, rng, pool):
        names = sorted(pool)
        runs = []
        n = 60 if tier == 'quick' else 400
        for r in range(n):
            k = rng.randrange(1, 7 if tier == 'quick' else 13)
            sel = [rng.choice(names) for _ in range(k)]
            if r % 5 == 0:
                sel[rng.randrange(len(sel))] = rng.choice(['e-directory.mos.xml', 'f-missing.mos.xml', 'a-garbage.mos.xml', '81-swap3.mos.xml'])
            cmd = 'inspect' if r % 2 else 'detect'
            if r % 6 == 1:
                sel[rng.randrange(len(sel))] = rng.choice(['g[1].mos.xml', 'h?.mos.xml', 'i*.mos.xml', '~j $HOME %41+.mos.xml'])
            if r % 6 == 4:
                sel[rng.randrange(len(sel))] = rng.choice(['./01-create.mos.xml', 'sub//90-delete.mos.xml', 'sub/./80-ready.mos.xml', 'sub/../84-roreplace.mos.xml', '82-move0.mos.xml/'])
            runs.append({'cmd': cmd, 'names': sel, 'files': {n_: pool[n_] for n_ in set(sel)}, 'bystanders': BYSTANDERS,
                         'argv': [cmd, '-f'] + ['@' + n_ for n_ in sel]})
        return runs

    def s3_detect_runs(self, tier, rng, pool):
        """detect / inspect over a bucket: -b with -p [and -s], or -k.  The fake lists keys in insertion order,
        two per page with empty pages between, and only those under the prefix."""
        good = [n_ for n_ in sorted(pool) if pool[n_] not in (None, '<dir>') and not str(pool[n_]).startswith('<notdir>') and '/' not in n_]
        runs = []
        for r in range(16 if tier == 'quick' else 100):
            sel = rng.sample(good, rng.randrange(1, 6))
            if r % 2 == 0:
                # an object that is not a MOS message, before others: it must not keep the later keys from being processed
                bad = rng.choice(['a-garbage.mos.xml', 'b-unknown.mos.xml', 'c-eaunknown.mos.xml', 'd-empty.mos.xml'])
                sel = [x for x in sel if x != bad]
                sel.insert(rng.randrange(0, max(1, len(sel))), bad)
            objects = {}
            for n_ in sel:
                objects['ro/' + n_] = pool[n_]
            objects['ro/notes.txt'] = 'not a MOS file'
            objects['ro/plain.xml'] = pool[sel[-1]]                  # matched by -s .xml only
            objects['ro/old.mos.xml.bak'] = pool[sel[0]]             # matched by no suffix used here
            objects['other/' + sel[0]] = pool[sel[0]]
            keys = list(objects)
            rng.shuffle(keys)
            objects = {k: objects[k] for k in keys}
            cmd = 'inspect' if (r // 4 + r) % 2 else 'detect'          # every mode with both commands
            mode = r % 4
            if mode == 3:
                key = 'ro/' + sel[0]
                argv, listed = [cmd, '-b', 'bucket', '-k', key], [key]
            else:
                suffix = [None, '.mos.xml', '.xml'][mode]
                argv = [cmd, '-b', 'bucket', '-p', 'ro/'] + (['-s', suffix] if suffix else [])
                listed = [k for k in objects if k.startswith('ro/') and k.endswith(suffix or '.mos.xml')]
            runs.append({'cmd': cmd, 'names': listed, 'files': {}, 's3': objects, 'argv': argv})
        return runs

    def judge_detect(self, run, res, pool):
        """the property oracle: every file gets its line, in order; bad files never hide the others"""
        from mosromgr.mostypes import MosFile
        out_lines = res['stdout'].split('\n')
        want_out, want_err = [], []
        at = '@'
        if run.get('s3') is not None:
            pool, at = run['s3'], ''             # the names are S3 keys, printed as they are
        for n_ in run['names']:
            c = pool[n_]
            cls = None
            if c not in (None, '<dir>') and not str(c).startswith('<notdir>'):
                try:
                    mo = MosFile.from_string(c)
                    cls = type(mo).__name__ + (' (completed)' if mo.completed else '')
                except Exception:
                    cls = None
            if cls is None:
                want_err.append('%s%s: Invalid' % (at, n_))
            else:
                want_out.append('%s%s: %s' % (at, n_, cls))
        got_out = [l for l in out_lines if l.startswith(at) and ': ' in l and l.split(': ')[0][len(at):] in pool]
        if run['cmd'] == 'detect':
            got_out = [l for l in out_lines if l]
        if [l for l in got_out if any(l == w for w in want_out)] != want_out:
            return '%s: stdout does not report, for every classifiable file in order, the class the library assigns' % run['cmd']
        got_err = [l for l in res['stderr'].split('\n') if l.endswith(': Invalid')]
        if got_err != want_err:
            return '%s: stderr marks %r invalid, expected %r' % (run['cmd'], got_err, want_err)
        if res['status'] is not None:
            return '%s aborted with status %r although every file can be handled on its own' % (run['cmd'], res['status'])
        return None

    def merge_runs(self, tier, rng):
        ro = to_text(gens.make_ro(['A', 'B'], message_id=1))
        app = to_text(story_append(5, [gens.new_story('N1')]))
        bad = to_text(story_move(6, ['ZZ', 'A']))
        rd = to_text(ro_delete(9))
        ro2 = to_text(gens.make_ro(['X'], message_id=3, ro_id='OTHER'))
        done = impl.run_add(ro, to_text(ro_delete(1)))
        ro_done = X.tree_to_string(done['tree'])            # a completed running order that was written out earlier
        accented = to_text(story_append(5, [story('N1', slug='Caf\u00e9 \u00c3\u00a9 na\u00efve')]))
        sets = {'latin1-file': {'1.mos.xml': ro, '5.mos.xml': {'enc': 'iso-8859-1', 'text': accented}, '9.mos.xml': rd},
                'utf16-file': {'1.mos.xml': {'enc': 'utf-16', 'text': ro}, '5.mos.xml': app, '9.mos.xml': rd},
                'completed-input': {'1.mos.xml': ro_done, '5.mos.xml': app},
                'completed-input-delete': {'1.mos.xml': ro_done, '9.mos.xml': rd},
                'valid': {'1.mos.xml': ro, '5.mos.xml': app, '9.mos.xml': rd},
                'incomplete': {'1.mos.xml': ro, '5.mos.xml': app},
                'failing': {'1.mos.xml': ro, '5.mos.xml': app, '6.mos.xml': bad, '9.mos.xml': rd},
                'failing-incomplete': {'1.mos.xml': ro, '6.mos.xml': bad},
                'mixed-ids': {'1.mos.xml': ro, '3.mos.xml': ro2, '9.mos.xml': rd},
                'no-create': {'5.mos.xml': app, '9.mos.xml': rd},
                'garbage': {'1.mos.xml': ro, '7.mos.xml': 'not xml', '9.mos.xml': rd},
                'missing': {'1.mos.xml': ro, '8.mos.xml': None, '9.mos.xml': rd},
                'spelled-paths': {'./1.mos.xml': ro, 'sub//5.mos.xml': app, 'sub/./9.mos.xml': rd},
                'slash-after-file': {'1.mos.xml': ro, '5.mos.xml/': '<notdir>' + app, '9.mos.xml': rd},
                'odd-names': {'ro[1].mos.xml': ro, 'app*.mos.xml': app, 'del?.mos.xml': rd},
                'equal-ids': {'1.mos.xml': ro, 'z-first.mos.xml': to_text(story_append(5, [gens.new_story('ZF')])),
                              'a-second.mos.xml': to_text(story_append(5, [gens.new_story('AS')])), '9.mos.xml': rd}}
        runs = []
        for name, files in sets.items():
            for inc in (False, True):
                for ns in (False, True):
                    # -o may also name one of the input files (all inputs are read before the output is written)
                    aliases = [f for f in ('5.mos.xml', '1.mos.xml') if files.get(f)] if name in ('valid', 'incomplete', 'failing') else []
                    for outf in [None, 'out.xml'] + aliases:
                        argv = ['merge', '-f'] + ['@' + f for f in sorted(files, reverse=True)]
                        if inc:
                            argv.append('--incomplete')
                        if ns:
                            argv.append('-n')
                        if outf:
                            argv += ['-o', '@' + outf]
                        runs.append({'cmd': 'merge', 'set': name, 'inc': inc, 'ns': ns, 'files': files, 'argv': argv, 'outfile': outf,
                                     'order': sorted(files, reverse=True), 'bystanders': BYSTANDERS})
                    if name in ('valid', 'failing', 'odd-names'):
                        # run from inside the directory, every path a bare relative name (-o too: no directory part at all)
                        for outf in (None, 'bare-out.xml', './dot-out.xml'):
                            argv = ['merge', '-f'] + [f for f in sorted(files, reverse=True)] + (['--incomplete'] if inc else []) + (['-n'] if ns else [])
                            if outf:
                                argv += ['-o', outf]
                            runs.append({'cmd': 'merge', 'set': name + '@cwd', 'inc': inc, 'ns': ns, 'files': files, 'argv': argv, 'outfile': outf,
                                         'order': sorted(files, reverse=True), 'bystanders': BYSTANDERS, 'cwd': True})
        # the same collections kept in a bucket: merge -b bucket -p ro/ [-s .mos.xml]
        for name in ('valid', 'incomplete', 'failing', 'mixed-ids', 'no-create', 'equal-ids'):
            files = sets[name]
            order = sorted(files, reverse=True)
            for inc in (False, True):
                for ns in (False, True):
                    for suffix in (None, '.mos.xml', '.xml'):
                        argv = ['merge', '-b', 'bucket', '-p', 'ro/'] + (['-s', suffix] if suffix else []) + (['--incomplete'] if inc else []) + (['-n'] if ns else [])
                        late = to_text(story_append(8, [gens.new_story('LATE')]))          # a key that only -s .xml matches
                        objects = {'other/zz.mos.xml': files[order[0]], 'ro/readme.txt': 'no'}
                        objects.update({'ro/' + f: files[f] for f in order})
                        objects['ro/late.xml'] = late
                        fs, od = files, order
                        if suffix == '.xml':
                            fs, od = dict(files, **{'late.xml': late}), order + ['late.xml']
                        runs.append({'cmd': 'merge', 'set': name + '@s3', 'inc': inc, 'ns': ns, 'files': fs, 's3': objects, 'argv': argv,
                                     'outfile': None, 'order': od})
        runs.append({'cmd': 'merge', 'set': 'no-args', 'inc': False, 'ns': False, 'files': {}, 'argv': ['merge'], 'outfile': None})
        runs.append({'cmd': 'merge', 'set': 'no-args', 'inc': True, 'ns': True, 'files': {}, 'argv': ['merge', '-i', '-n'], 'outfile': None})
        return runs

    def judge_merge(self, run, res):
        from mosromgr.moscollection import MosCollection
        import warnings
        import tempfile
        import shutil
        want = None
        files = run['files']
        def content(v):
            if isinstance(v, dict):
                return ('<?xml version="1.0" encoding="%s"?>' % v['enc'] + v['text']).encode(v['enc'])
            return v
        if files and all(v is not None and not str(v).startswith('<notdir>') for v in files.values()):
            try:
                with warnings.catch_warnings():
                    warnings.simplefilter('ignore')
                    mc = MosCollection.from_strings([content(files[f]) for f in run.get('order') or sorted(files)], allow_incomplete=run['inc'])
                    mc.merge(strict=not run['ns'])
                want = str(mc)
            except Exception:
                want = None
        if want is None:
            if res['status'] != 2:
                return 'merge (%s) must exit with status 2, got %r' % (run['set'], res['status'])
            if not res['stderr'].strip():
                return 'merge (%s) failed without a message on stderr' % run['set']
            return None
        if res['status'] is not None:
            return 'merge (%s, incomplete=%s, non-strict=%s) exited with %r, the library merges this collection' % (run['set'], run['inc'], run['ns'], res['status'])
        got = res['outfile'] if run['outfile'] else res['stdout'].rstrip('\n')
        if got != want:
            return 'merge (%s) wrote something other than the serialisation of the merged collection' % run['set']
        return None

    def run(self, tier, rng, log):
        pool = file_pool(rng)
        druns = self.detect_runs(tier, rng, pool) + self.s3_detect_runs(tier, rng, pool)
        mruns = self.merge_runs(tier, rng)
        res = run_cli([{'files': r['files'], 'argv': r['argv'], 'outfile': r.get('outfile'), 's3': r.get('s3'), 'bystanders': r.get('bystanders', {}), 'cwd': r.get('cwd')} for r in druns + mruns])
        vio, dis, sigs, samples = [], [], set(), []
        for r, o in zip(druns, res[:len(druns)]):
            what = self.judge_detect(r, o, pool)
            if r.get('s3') is not None:
                status, lines = model_detect(r['cmd'] == 'inspect', r['names'], r['s3'], at='')
            else:
                status, lines = model_detect(r['cmd'] == 'inspect', r['names'], pool)
            m_out = '\n'.join(s for k, s in lines if k == 'O')
            m_err = [err_kind(s) for k, s in lines if k == 'E']
            i_out = o['stdout'].rstrip('\n') if r['cmd'] == 'detect' else o['stdout'][:-1] if o['stdout'].endswith('\n') else o['stdout']
            i_err = [err_kind(l) for l in o['stderr'].split('\n') if l]
            sigs.add((r['cmd'], 's3' if r.get('s3') is not None else 'files', tuple(sorted({n_.split('/')[-1].split('-')[0] for n_ in r['names']})), o['status']))
            if what:
                vio.append({'what': what, 'case': {'kind': 'cli', 'argv': r['argv'], 'files': r['files'], 's3': r.get('s3'), 'names': r['names'], 'cmd': r['cmd'], 'bystanders': r.get('bystanders', {})}, 'impl': [o['status'], o['stdout'][:400], o['stderr'][:400]], 'expected': [m_out[:400], m_err]})
            if (i_out, i_err, o['status']) != (m_out, m_err, None if status == 0 else status):
                dis.append({'case': {'kind': 'cli', 'argv': r['argv'], 'files': r['files']}, 'impl': [o['status'], i_out[:600], i_err], 'model': [status, m_out[:600], m_err], 'explained': bool(what)})
            if len(samples) < 2 and len(r['names']) > 2:
                samples.append({'argv': r['argv'], 'stdout': o['stdout'][:500], 'stderr': o['stderr'][:300], 'status': o['status']})
        for r, o in zip(mruns, res[len(druns):]):
            what = self.judge_merge(r, o)
            sigs.add(('merge', r['set'], r['inc'], r['ns'], bool(r['outfile']), o['status']))
            # model: status and document
            toks = []
            for f in (r.get('order') or sorted(r['files'])):
                c = r['files'][f]
                if isinstance(c, dict):
                    c = c['text']
                if c is None or str(c).startswith('<notdir>'):
                    toks.append('U')
                else:
                    try:
                        toks.append('D ' + X.elem_line(impl.parse_doc(c)))
                    except Exception:
                        toks.append('B')
            es = [impl.parse_doc(c['text'] if isinstance(c, dict) else c) for c in r['files'].values() if c is not None and (isinstance(c, dict) or (c.startswith('<') and not c.startswith('<notdir>')))]
            line = 'clim %s %d %d %d %s' % (engine.oracle_prefix(es), 1 if r['inc'] else 0, 1 if r['ns'] else 0, len(toks), ' '.join(toks))
            mo = engine.run_model([line])[0].split(' ')
            m_status = int(mo[0])
            m_doc = X.tree_to_string(X.Reader(mo, 2).tree()) if mo[1] == 'doc' else None
            i_status = 0 if o['status'] is None else o['status']
            i_doc = (o['outfile'] if r['outfile'] else o['stdout'].rstrip('\n')) if i_status == 0 else None
            if what:
                vio.append({'what': what, 'case': {'kind': 'cli', 'argv': r['argv'], 'files': r['files'], 's3': r.get('s3'), 'outfile': r.get('outfile'), 'bystanders': r.get('bystanders', {}), 'cwd': r.get('cwd')}, 'impl': [o['status'], o['stderr'][:300]], 'expected': [m_status]})
            if (i_status, i_doc) != (m_status, m_doc):
                dis.append({'case': {'kind': 'cli', 'argv': r['argv'], 'files': r['files']}, 'impl': [i_status, (i_doc or '')[:300]], 'model': [m_status, (m_doc or '')[:300]], 'explained': bool(what)})
        return {'evaluations': len(res), 'distinct': len(sigs), 'rule': self.rule, 'samples': samples,
                'distribution': {'detect/inspect': len(druns), 'merge': len(mruns)}, 'disagreements': dis, 'violations': vio, 'extra': {}}

    def replay(self, rep):
        case = rep.get('case') or {}
        if 'argv' not in case:
            return {'violation': False, 'note': str(rep.get('detail'))}
        o = run_cli([{'files': case['files'], 'argv': case['argv'], 'outfile': case.get('outfile'), 's3': case.get('s3'), 'bystanders': case.get('bystanders', {}), 'cwd': case.get('cwd')}])[0]
        if case['argv'][0] == 'merge':
            order = [a[1:] for a in case['argv'] if a.startswith('@') and a[1:] in case['files']] or [a for a in case['argv'] if a in case['files']]
            if case.get('s3') is not None:
                order = [k[3:] for k in case['s3'] if k.startswith('ro/') and k[3:] in case['files']]
            run = {'files': case['files'], 'set': 'replay', 'outfile': case.get('outfile'),
                   'order': order,
                   'inc': '--incomplete' in case['argv'] or '-i' in case['argv'], 'ns': '-n' in case['argv'] or '--non-strict' in case['argv']}
            what = self.judge_merge(run, o)
        else:
            names = case.get('names') or [a[1:] for a in case['argv'] if a.startswith('@')]
            what = self.judge_detect({'cmd': case['argv'][0], 'names': names, 's3': case.get('s3')}, o, case['files'])
        return {'violation': bool(what), 'what': what, 'status': o['status'], 'stderr': o['stderr'][:300]}

    def shrink(self, v):
        return v
