"""C16 — durations, offsets, start and end times are arithmetically consistent."""
from fractions import Fraction
import impl
import accessors
import exchange as X
from checks.c15 import ReportCheck, xml_facts

LEVEL = 'proof'
ASSUMPTIONS = ['PARTIAL: exact arithmetic in whole microseconds for durations, offsets and instants; the generated duration texts have at most '
               'six fractional digits (dyadic and non-dyadic: 0.1, 12.34, 59.999999, 1e2), for which the binary64 sums of the code are within '
               '0.01 us of the exact sum whatever the summation order; rounding below a microsecond is not modelled',
               'float() and dateutil.parser.parse are oracles supplied per case']


def us_of(text):
    return round(Fraction(float(text)) * 1000000)


def val(tok):
    return None if tok in (None, 'N') else int(tok[1:]) if tok[0] == 'V' else tok


class Check(ReportCheck):
    pid = 'C16'
    fields_ro = ('start', 'end', 'duration')
    fields_story = ('id', 'dur', 'off', 'start', 'end')
    rule = ('the running orders and reached states of the C15 generator (any mix of StoryDuration / TextTime / MediaTime with '
            'dyadic and non-dyadic decimal values, explicit StoryStarted / StoryEnded on random subsets, roEdStart present or not, zero durations, '
            'duplicate story IDs in 5% of the cases); timing fields compared with the model as exact integers, and checked '
            'against the arithmetic relations of the property computed from the document. distinct by the timing report')

    def oracle(self, text, rep, meta):
        if rep == 'norc' or '=E' in rep or 'X' in rep.replace('=X', ' X').split('script=')[0] and ' X' in rep:
            return None
        rc, facts = xml_facts(text)
        sec = accessors.sections(rep)
        if len(sec['stories']) != len(facts):
            return None
        ids = [f['id'] for f in facts]
        # expected durations straight from the document
        durs = []
        for f in facts:
            md = f['elem'].find('mosExternalMetadata')
            pl = None if md is None else md.find('mosPayload')
            d = None
            if pl is not None:
                if pl.find('StoryDuration') is not None:
                    d = us_of(pl.find('StoryDuration').text)
                elif pl.find('TextTime') is not None or pl.find('MediaTime') is not None:
                    d = sum(us_of(pl.find(t).text) for t in ('TextTime', 'MediaTime') if pl.find(t) is not None)
            durs.append(d)
        for s, f, d in zip(sec['stories'], facts, durs):
            got = val(self.grab(s, 'dur'))
            if got != (None if d is None else int(d)):
                return 'story %r: duration %r, the document gives %r (microseconds)' % (f['id'], got, d)
        ro_dur = val(self.grab(sec['ro'], 'duration'))
        if all(d is not None for d in durs):
            if ro_dur != int(sum(durs)):
                return 'running-order duration %r is not the sum of the story durations %r' % (ro_dur, int(sum(durs)))
            if len(set(ids)) == len(ids):
                acc = 0
                for s, f, d in zip(sec['stories'], facts, durs):
                    if val(self.grab(s, 'off')) != int(acc):
                        return 'story %r: offset %r, the durations before it sum to %r' % (f['id'], val(self.grab(s, 'off')), int(acc))
                    acc += d
        ro_start = val(self.grab(sec['ro'], 'start'))
        last_end = None
        for s, f, d in zip(sec['stories'], facts, durs):
            md = f['elem'].find('mosExternalMetadata')
            pl = None if md is None else md.find('mosPayload')
            off, st, en = val(self.grab(s, 'off')), val(self.grab(s, 'start')), val(self.grab(s, 'end'))
            exp_start = pl.find('StoryStarted') if pl is not None else None
            exp_end = pl.find('StoryEnded') if pl is not None else None
            if exp_start is not None:
                want = impl.time_us(exp_start.text)
            else:
                want = None if ro_start is None or off is None else ro_start + off
            if st != want:
                return 'story %r: start %r, expected %r (explicit StoryStarted, else programme start + offset)' % (f['id'], st, want)
            if exp_end is not None:
                want_e = impl.time_us(exp_end.text)
            else:
                want_e = None if st is None or d is None else st + int(d)
            if en != want_e:
                return 'story %r: end %r, expected %r (explicit StoryEnded, else start + duration)' % (f['id'], en, want_e)
            last_end = en
        if facts and val(self.grab(sec['ro'], 'end')) != last_end:
            return 'running-order end %r is not the end of its last story %r' % (val(self.grab(sec['ro'], 'end')), last_end)
        return None
