"""C08 — classification is total, and decided only by the message element."""
import os
import sys
import json
import subprocess
import impl
import engine
import gens
import exchange as X
from docs import E, to_text, mos, ABSENT, element_action, ref, story, item
from checks.base import corpus_cases

LEVEL = 'proof'
ASSUMPTIONS = [
    'proof covers the decision function on parsed trees (classify = classify_spec o features); '
    'PARTIAL: "malformed XML raises MosInvalidXML" and "file = string = bytes" involve expat and file I/O, '
    'which are outside the model; those two clauses are checked by differential runs only',
]
HERE = os.path.dirname(os.path.dirname(os.path.abspath(__file__)))
TAGS = ['roCreate', 'roStorySend', 'roStoryAppend', 'roStoryDelete', 'roStoryInsert', 'roStoryMove',
        'roStoryReplace', 'roItemDelete', 'roItemInsert', 'roItemMoveMultiple', 'roItemReplace', 'roReplace',
        'roMetadataReplace', 'roReadyToAir', 'roDelete']
OPS = ['REPLACE', 'DELETE', 'INSERT', 'SWAP', 'MOVE', 'FROB', '', ABSENT, 'move']


def run_sub(flags, mode, items):
    req = json.dumps({'repo': impl.REPO, 'mode': mode, 'items': items})
    r = subprocess.run(['/venv/bin/python'] + flags + [os.path.join(HERE, 'sub_classify.py')],
                       input=req, capture_output=True, text=True, env=dict(os.environ, PYTHONHASHSEED='0'))
    if r.returncode:
        raise RuntimeError('subprocess failed: ' + r.stderr[-500:])
    return json.loads(r.stdout)


def smoke(flags):
    r = subprocess.run(['/venv/bin/python'] + flags + ['-c', 'import sys; sys.path.insert(0, %r); import mosromgr.mostypes' % impl.REPO],
                       capture_output=True, text=True)
    return r.returncode == 0, r.stderr[-300:]


def documents(tier, rng):
    payloads = [[], [E('roID', text='RO1')], [E('roID', text='RO1'), story('A', body=[item('i1')])],
                [E('x', E('roCreate'), E('roElementAction'))]]
    envelopes = [lambda b: mos(5, *b), lambda b: E('mos', *b), lambda b: mos(5, E('extra', text=' \n '), *b, E('trailer')),
                 lambda b: E('other', *b)]
    for t in TAGS:
        for pl in payloads:
            for env in envelopes:
                yield to_text(env([E(t, *[x for x in pl])])), {'kind': 'tag', 'tag': t}
    # empty message element (no children, no text), with text only, pretty printed
    for t in TAGS + ['roElementAction']:
        yield to_text(mos(5, E(t))), {'kind': 'empty', 'tag': t}
        yield to_text(mos(5, E(t, text='  '))), {'kind': 'text-only', 'tag': t}
        yield to_text(mos(5, E(t, E('roID', text='R'))), pretty=True), {'kind': 'pretty', 'tag': t}
    # two message elements: the table order decides, not the document order
    for a in TAGS[:6] + ['roElementAction']:
        for b in TAGS[3:9]:
            if a != b:
                yield to_text(mos(5, E(a, E('roID', text='R')), E(b, E('roID', text='R')))), {'kind': 'two', 'tag': a + '+' + b}
                yield to_text(mos(5, E(b, E('roID', text='R')), E(a, E('roID', text='R')))), {'kind': 'two', 'tag': b + '+' + a}
    # two roElementAction elements of different shapes (and one beside another message element): the first one decides
    shapes = [('DELETE', None, [[ref('storyID', 'A')]]), ('SWAP', [ref('storyID', 'A')], [[ref('itemID', 'i'), ref('itemID', 'j')]]),
              ('FROB', None, [[ref('storyID', 'A')]]), ('INSERT', [ref('storyID', 'A'), ref('itemID', 'i')], [[item('n')]]),
              ('MOVE', [ref('storyID', 'A')], [[ref('storyID', 'B')]]), (ABSENT, None, [])]
    for x in shapes:
        for y in shapes:
            if x != y:
                d = element_action(5, *x)
                d.append(element_action(5, *y)[3])
                yield to_text(d), {'kind': 'two-ea', 'tag': '%s+%s' % (x[0], y[0])}
        d = element_action(5, *x)
        d.insert(3, E('roStoryMove', E('roID', text='R')))
        yield to_text(d), {'kind': 'two-ea', 'tag': 'roStoryMove+%s' % (x[0],)}
    # nested (not a direct child): not a message
    for t in TAGS[:4]:
        yield to_text(mos(5, E('wrapper', E(t, E('roID', text='R'))))), {'kind': 'nested', 'tag': t}
    # roElementAction shapes
    for op in OPS:
        for target in (None, [], [ref('storyID', 'A')], [ref('storyID', 'A'), ref('itemID', 'i')], [ref('itemID', 'i')],
                       [ref('storyID', 'A'), ref('itemID', None)], [ref('storyID', None), ref('itemID', None)],
                       [ref('storyID', None)], [E('wrapper', ref('itemID', 'i'))],
                       [ref('storyID', 'A'), ref('itemID', 'i'), ref('itemID', 'k')], [ref('itemID', 'i'), ref('itemID', 'i'), ref('itemID', 'k')]):
            for sources in ([], [[]], [[ref('storyID', 'B')]], [[ref('itemID', 'j')]], [[story('N')]], [[item('n')]],
                            [[ref('storyID', 'B')], [ref('itemID', 'j')]], [[ref('itemID', 'j')], [ref('storyID', 'B')]],
                            [[ref('itemID', None)]], [[ref('storyID', None)]], [[ref('itemID', None), ref('itemID', 'j')]],
                            [[E('wrapper', ref('itemID', 'j'))]], [[ref('itemID', 'j'), ref('itemID', 'k'), ref('itemID', 'l')]]):
                yield to_text(element_action(5, op, target, sources)), {'kind': 'ea', 'tag': 'roElementAction:' + str(op)}
    # non-MOS XML
    for t in ('<a/>', '<a><b/></a>', '<mos/>', '<mos><heartbeat/></mos>', '<html><body>x</body></html>',
              '<mos xmlns="urn:x"><roCreate/></mos>'):
        yield t, {'kind': 'nonmos', 'tag': ''}
    # completed running order
    yield to_text(mos(1, E('roCreate', E('roID', text='R')), E('mosromgrmeta', E('roDelete', E('roID', text='R'))))), {'kind': 'completed', 'tag': 'roCreate'}
    n = 100 if tier == 'quick' else 1000
    for _ in range(n):
        kids = []
        for _ in range(rng.randrange(0, 4)):
            t = rng.choice(TAGS + ['roElementAction', 'foo', 'mosID', 'messageID'])
            if t == 'roElementAction':
                op = rng.choice(OPS)
                e = E(t, *[E(rng.choice(['element_target', 'element_source', 'roID']),
                             *[ref(rng.choice(['storyID', 'itemID', 'story']), 'v') for _ in range(rng.randrange(0, 3))])
                           for _ in range(rng.randrange(0, 4))], **({} if op == ABSENT else {'operation': op}))
            else:
                e = E(t, *[E('roID', text='R')] * rng.randrange(0, 2))
            kids.append(e)
        yield to_text(E('mos', *kids), pretty=rng.random() < 0.3), {'kind': 'random', 'tag': ''}


MALFORMED = ['', ' ', '<', '<mos>', '<mos><roCreate></mos>', 'plain text', '<mos>&bogus;</mos>', '<a></b>',
             '<?xml version="1.0"?>', '<mos><roCreate/></mos><mos/>', '\x00', '<mos attr=1/>']


def text_variants(rng, text):
    """character-level variants of a well-formed document: some stay well-formed (white space and comments around the
    root, an XML declaration at the very start), most do not (anything before a declaration, truncation, a deleted or
    doubled character, content after the root, control characters).  Which is which is decided by expat in run()."""
    decl = rng.choice(['<?xml version="1.0"?>', '<?xml version="1.0" encoding="UTF-8"?>', "<?xml version='1.0' encoding='utf-8' standalone='yes'?>"])
    ws = rng.choice(['\n', ' ', '\r\n', '\t', '\n\n  '])
    r = rng.randrange(19)
    if r == 17:
        # a str that declares an encoding: the declaration means nothing for a str (bytes and files hold it in that encoding)
        return '<?xml version="1.0" encoding="%s"?>' % rng.choice(['UTF-16', 'ISO-8859-1', 'us-ascii', 'windows-1252', 'utf-8']) + text
    if r == 18:
        return '<?xml version="1.0" encoding="%s"?>' % rng.choice(['UTF-16', 'ISO-8859-1', 'windows-1252']) + text.replace('<mosID>', '<mosID>caf\u00e9 ', 1)
    if r == 14:
        return rng.choice(['<!DOCTYPE mos>', '<!DOCTYPE mos SYSTEM "mos.dtd">', '<!DOCTYPE mos PUBLIC "-//MOS//DTD" "mos.dtd">']) + text
    if r == 15:
        return decl + '\n<!DOCTYPE mos [<!ENTITY station "BBC"> <!ELEMENT mos ANY>]>\n' + text     # an internal subset, unused
    if r == 16:
        return '<!DOCTYPE mos [<!ENTITY station "BBC">]>' + text.replace('<mosID>', '<mosID>&station;', 1)   # ... and used
    if r == 0:
        return ws + text
    if r == 1:
        return text + ws
    if r == 2:
        return decl + text
    if r == 3:
        return ws + decl + text                      # white space before the declaration: not well-formed
    if r == 4:
        return decl + ws + text + ws
    if r == 5:
        return '<!-- c -->' + decl + text            # a comment before the declaration: not well-formed
    if r == 6:
        return decl + '<!-- c -->' + text + '<!-- d -->'
    if r == 7:
        return text[:rng.randrange(1, len(text))]    # truncated
    if r == 8:
        k = rng.randrange(len(text))
        return text[:k] + text[k + 1:]               # one character lost
    if r == 9:
        k = rng.randrange(len(text))
        return text[:k] + rng.choice(['<', '>', '&', '"', '\x01', '/', '</mos>', ']]>']) + text[k:]
    if r == 10:
        return text + rng.choice(['x', '<mos/>', '&amp;', decl])
    if r == 11:
        return rng.choice(['x', '\ufeff', '&#10;', '<?xml?>']) + text
    if r == 12:
        return decl + decl + text
    return text.replace('</', '< /', 1) if rng.random() < 0.5 else text.replace('>', ' >', 1)


class Check:
    pid = 'C08'
    rule = ('15 message tags x 4 payloads x 4 envelopes; empty / text-only / pretty-printed message elements; pairs of '
            'message elements in both document orders; nested message elements; roElementAction with 9 operation values '
            'x 11 element_target shapes x 13 element_source shapes (blank, nested and several ID tags included); non-MOS XML; a completed running order; seeded random '
            'documents; 12 fixed malformed texts and character-level variants of the documents (white space / comments / an XML declaration around the root, text before a declaration, truncation, lost / inserted characters, content after the root), sorted into well-formed and malformed by expat. Each document is classified from str, bytes and a file (UTF-8, and with a declaration in UTF-16 and ISO-8859-1 where representable), in interpreters '
            'started with default flags and with -W error. distinct by (kind, tag/operation, outcome)')

    def matches_known(self, k, v):
        return False

    def run(self, tier, rng, log):
        ok, err = smoke(['-W', 'error'])
        if not ok:
            log('ENVIRONMENT-ERROR: python -W error cannot import mosromgr.mostypes: ' + err)
            sys.exit(3)
        docs = [{'text': c['text'], 'meta': c.get('meta', {})} for c in corpus_cases(self.pid, 'classify')]
        docs += [{'text': t, 'meta': m} for t, m in documents(tier, rng)]
        base = [d for d in docs if d['text'].startswith('<')]
        for _ in range(400 if tier == 'quick' else 4000):
            d = rng.choice(base)
            docs.append({'text': gens.mutate_doc(rng, d['text'], None, n=rng.randrange(1, 4)), 'meta': dict(d['meta'], kind='fuzzed')})
        # character-level variants: well-formed ones join the documents, the others the malformed stream
        import xml.etree.ElementTree as ET
        malformed = list(MALFORMED)
        for _ in range(300 if tier == 'quick' else 3000):
            d = rng.choice(base)
            v = text_variants(rng, d['text'])
            try:
                ET.fromstring(v)
                docs.append({'text': v, 'meta': dict(d['meta'], kind='text-variant')})
            except ET.ParseError:
                if v not in malformed:
                    malformed.append(v)
            except ValueError:
                pass                                 # NUL characters: rejected before expat sees them
        texts = [d['text'] for d in docs]
        model = engine.classify_cases(texts)
        default = run_sub([], 'classify', texts)
        werror = run_sub(['-W', 'error'], 'classify', texts)
        vio, dis, sigs, dist = [], [], set(), {}
        for d, mo, a, b in zip(docs, model, default, werror):
            io = tuple(a['str'][:3]) if a['str'][0] == 'ok' else ('err', a['str'][1])
            sigs.add((d['meta'].get('kind'), d['meta'].get('tag'), io[:2]))
            dist[d['meta'].get('kind', '?')] = dist.get(d['meta'].get('kind', '?'), 0) + 1
            what = None
            if io != mo:
                what = 'classified as %r; the message element decides %r' % (io, mo)
            else:
                for how in [h for h in a if h != 'str']:
                    if a[how][:3] != a['str'][:3] or (a[how][0] == 'ok' and a[how][3] != a['str'][3]):
                        what = 'from %s: %r, from str: %r' % (how, a[how][:3], a['str'][:3])
                for how in a:
                    if b[how][:3] != a[how][:3]:
                        what = 'under -W error (%s): %r, default: %r' % (how, b[how][:3], a[how][:3])
            if what:
                vio.append({'what': what, 'case': {'kind': 'classify', 'text': d['text'], 'meta': d['meta']},
                            'impl': list(io), 'expected': list(mo)})
                dis.append({'case': {'kind': 'classify', 'text': d['text']}, 'impl': list(io), 'model': list(mo), 'explained': True})
        # malformed XML: MosInvalidXML from every source, under both configurations
        for flags, res in (([], run_sub([], 'classify', malformed)), (['-W', 'error'], run_sub(['-W', 'error'], 'classify', malformed))):
            for t, row in zip(malformed, res):
                for how in row:
                    if row[how] != ['err', 'MosInvalidXML']:
                        vio.append({'what': 'malformed XML from %s %s: %r' % (how, flags, row[how]),
                                    'case': {'kind': 'classify', 'text': t, 'meta': {'kind': 'malformed'}},
                                    'impl': row[how], 'expected': ['err', 'MosInvalidXML']})
        # translator tie: the two dict literals of mostypes.py (and base_tag_name of every class) are translated
        # from the current source into work/GenTables.v and proved equal to the model's tables by the kernel
        import gentables
        gt = gentables.run(impl.REPO)
        if not gt['ok']:
            dis.append({'case': {'kind': 'translator', 'stage': gt['stage'], 'detail': gt['detail']},
                        'impl': 'classification tables in mostypes.py', 'model': 'tag_class_map / ea_table / base_tag_name of Classify.v (work/GenTables.v does not check)',
                        'explained': bool(vio)})
        n = sum(len(a) + len(b) for a, b in zip(default, werror)) + len(malformed) * 6
        samples = [{'text': d['text'], 'model': list(mo)} for d, mo in list(zip(docs, model))[::max(1, len(docs) // 3)][:3]]
        return {'evaluations': n, 'distinct': len(sigs), 'rule': self.rule, 'samples': samples, 'distribution': dist,
                'disagreements': dis, 'violations': vio,
                'extra': {'translated_tables': gt, 'documents': len(docs), 'malformed_texts': len(malformed), 'configurations': ['default', '-W error'],
                          'sources': ['str', 'bytes', 'file', 'bytes / file in UTF-16 and ISO-8859-1 with declaration']}}

    def replay(self, rep):
        case = rep.get('case') or {}
        if 'text' not in case:
            return {'violation': False, 'note': str(rep.get('detail'))}
        t = case['text']
        a = run_sub([], 'classify', [t])[0]
        b = run_sub(['-W', 'error'], 'classify', [t])[0]
        if case.get('meta', {}).get('kind') == 'malformed':
            bad = any(r[h] != ['err', 'MosInvalidXML'] for r in (a, b) for h in r)
            return {'violation': bad, 'default': a, 'werror': b}
        mo = engine.classify_cases([t])[0]
        io = tuple(a['str'][:3]) if a['str'][0] == 'ok' else ('err', a['str'][1])
        bad = io != mo or any(a[h][:3] != a['str'][:3] for h in a) or any(b[h][:3] != a[h][:3] for h in a)
        return {'violation': bad, 'impl': list(io), 'model': list(mo), 'werror': {h: b[h][:3] for h in b}}

    def shrink(self, v):
        return v
