"""C12 — well-formed input fails only with the library's own exceptions."""
import gens
import impl
import engine
import exchange as X
from docs import to_text
from checks.base import AddCheck, err_class, corpus_cases
from checks.c01 import history_states
from checks.c05 import kth_bad_cases

LEVEL = 'proof'
ASSUMPTIONS = [
    'theorem hypotheses: the document has a roCreate element (wf_ro is equivalent to that since repair F28), schema_ok (required tags present, integer messageID), '
    'timing_ok (durations / roEdStart present in the running order are numeric / parseable)',
    'classification of well-formed XML: only UnknownMosFileType (C08); malformed XML is outside the model (expat)',
]
LIB = {None, 'MosMergeError', 'MosCompletedMergeError'}
BUILTIN = {'AttributeError', 'KeyError', 'ValueError', 'IndexError', 'TypeError', 'NotImplementedError',
           'DeprecationWarning', 'AssertionError', 'RuntimeError'}


class Check(AddCheck):
    pid = 'C12'
    needs_claims = False
    rule = ('all 25 classes x every combination of blank / unknown / repeated / self-referential IDs (the exhaustive '
            'message spaces of C01/C02/C05) x running orders whose stories carry timing metadata on all / none / some '
            'stories x states reached by random histories; the model decides which cases are inside the guards '
            '(wf_ro, schema_ok, timing_ok). non-trivial = raised or warned; distinct by (class, timing, outcome)')

    def gen(self, tier, rng):
        n_max = 2 if tier == 'quick' else 3
        for timing in gens.TIMINGS:
            for c in gens.merge_cases_story(n_max=n_max, max_src=2, layouts=['plain', 'trailing'], timing=timing):
                c['meta']['timing'] = timing
                yield c
        yield from gens.merge_cases_item(n_max=n_max, max_src=2, para_layouts=['none', 'between'])
        yield from gens.merge_cases_other()
        yield from gens.merge_cases_bad_timing_payload()
        yield from gens.merge_cases_padded()
        yield from gens.merge_cases_special_ids()
        from checks.c03 import metadata_cases
        yield from metadata_cases(rng)
        for ro, doc, meta in kth_bad_cases():
            yield {'ro': ro, 'msg': to_text(doc), 'meta': meta}
        n_hist = 100 if tier == 'quick' else 1000
        for state in history_states(rng, n_hist, 8):
            sids, items = gens.state_ids(state)
            k = [0]

            def fresh():
                k[0] += 1
                return 'h%d' % k[0]
            for j in range(4):
                if rng.random() < 0.5:
                    doc = gens.random_story_message(rng, sids, 800 + j, fresh)
                else:
                    doc = gens.random_item_message(rng, sids, items, 800 + j, fresh)
                yield {'ro': state, 'msg': to_text(doc), 'meta': {'cls': doc[3].tag, 'n': len(sids), 'layout': 'history'}}

    def obs(self, o):
        if 'classerr' in o:
            return ('classerr', o['classerr'])
        return (err_class(o),)

    def nontrivial(self, case, io, before):
        return bool(io.get('err') or io.get('warns') or 'classerr' in io)

    def signature(self, case, io):
        m = case.get('meta', {})
        return (m.get('cls'), m.get('timing'), m.get('n'), err_class(io), tuple(io.get('warns') or ()))

    def run(self, tier, rng, log):
        corpus = corpus_cases(self.pid, 'add')
        cases = corpus + list(self.gen(tier, rng))
        cases += list(gens.fuzzed_cases(cases, rng, 1500 if tier == 'quick' else 15000))      # structural neighbours (gens.mutate_doc)
        dis, vio, sigs, dist, samples, n, guarded = [], [], set(), {}, [], 0, 0
        for i in range(0, len(cases), self.chunk):
            part = cases[i:i + self.chunk]
            res = engine.add_cases(part)
            flags = engine.schema_flags(part)
            for c, (io, mo), fl in zip(part, res, flags):
                n += 1
                dist[c['meta'].get('cls', '?')] = dist.get(c['meta'].get('cls', '?'), 0) + 1
                if self.nontrivial(c, io, None):
                    sigs.add(self.signature(c, io))
                    if len(samples) < 3 and io.get('err'):
                        samples.append({'ro': c['ro'], 'msg': c['msg'], 'impl_obs': self.obs(io)})
                what = None
                if 'classerr' in io:
                    if io['classerr'] != 'UnknownMosFileType':
                        what = 'classification raised %s' % io['classerr']
                elif fl and fl['wf'] and fl['schema'] and fl['timing']:
                    guarded += 1
                    if io.get('err') not in LIB:
                        what = '%s: %s escaped for a schema-shaped message on a well-formed running order' % (io.get('cls'), io['err'])
                if what:
                    vio.append({'what': what, 'case': {'kind': 'add', 'ro': c['ro'], 'msg': c['msg'], 'meta': c['meta']},
                                'impl': self.obs(io), 'expected': self.obs(mo)})
                if self.obs(io) != self.obs(mo):
                    dis.append({'case': {'kind': 'add', 'ro': c['ro'], 'msg': c['msg'], 'meta': c['meta']},
                                'impl': self.obs(io), 'model': self.obs(mo), 'explained': bool(what)})
        # histories on one live object (state kept inside the RunningOrder object shows only here)
        from checks.base import live_histories, compare_histories
        hcases = list(live_histories(tier, rng))

        def judge(c, k, a, prev):
            if 'classerr' in a:
                return None
            if a.get('err') not in LIB:
                fl, = engine.schema_flags([{'ro': X.tree_to_string(prev), 'msg': c['msgs'][k]}])
                if fl and fl['wf'] and fl['schema'] and fl['timing']:
                    return 'step %d (%s) of a history on one running-order object: %s escaped' % (k, a.get('cls'), a.get('err'))
            return None
        hn, hdis, hvio = compare_histories(hcases, lambda s_: (s_.get('classerr'), s_.get('cls'), s_.get('err')), judge)
        n += hn
        dis += hdis
        vio += hvio
        return {'evaluations': n, 'distinct': len(sigs), 'rule': self.rule + '; plus seeded histories of 3..9 messages (with roReplace, roMetadataReplace, roStorySend, roDelete) merged into one live object',
                'samples': samples,
                'distribution': dist, 'disagreements': dis, 'violations': vio,
                'extra': {'corpus_cases': len(corpus), 'inside_guards': guarded, 'live_history_steps': hn}}

    def replay(self, rep):
        case = rep.get('case') or {}
        if case.get('kind') == 'hist':
            steps = impl.run_hist(case['ro'], case['msgs'])
            prev = X.elem_to_tree(impl.parse_doc(case['ro']))
            bad = []
            for k, s_ in enumerate(steps):
                if 'classerr' not in s_ and s_.get('err') not in LIB:
                    fl, = engine.schema_flags([{'ro': X.tree_to_string(prev), 'msg': case['msgs'][k]}])
                    if fl and fl['wf'] and fl['schema'] and fl['timing']:
                        bad.append(k)
                if 'tree' in s_:
                    prev = s_['tree']
            return {'violation': bool(bad), 'errors': [s_.get('err') for s_ in steps], 'steps_in_guards_with_builtin': bad}
        return super().replay(rep)

    def shrink(self, v):
        if v['case'].get('kind') == 'hist':
            return v
        return super().shrink(v)

    def case_violation(self, case):
        (io, mo), = engine.add_cases([case])
        fl, = engine.schema_flags([case])
        what = None
        if 'classerr' in io:
            if io['classerr'] != 'UnknownMosFileType':
                what = 'classification raised %s' % io['classerr']
        elif fl and fl['wf'] and fl['schema'] and fl['timing'] and io.get('err') not in LIB:
            what = '%s: %s escaped' % (io.get('cls'), io['err'])
        return what, io, mo
