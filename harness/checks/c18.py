"""C18 — file, string, bytes and S3 sources are interchangeable; readers are faithful; listing is complete."""
import os
import shutil
import tempfile
import impl
import engine
import fakes3
import gens
import exchange as X
from docs import to_text, E, mos, story, item, ro_delete, story_append
from checks.base import corpus_cases
from checks import c08

LEVEL = 'proof'
ASSUMPTIONS = ['PARTIAL: the listing function and the reader metadata are proved in Coq (C18_listing, C18_empty_page_hides_nothing, '
               'C18_reader); the interchangeability of file / str / bytes / S3 object is translation validation by differential runs only: '
               'file I/O, byte decoding (expat) and boto3 are not modelled; S3 is a fake client / resource']

ENCODINGS = ['utf-8', 'iso-8859-1', 'utf-16']


def unicode_docs(rng):
    texts = ['plain', 'Café Zoë', '☃ snow', '\U0001F600 astral', 'a & b < c > d', '"q" \'s\'']
    for k, t in enumerate(texts):
        yield mos(20 + k, E('roCreate', E('roID', text='RO1'), E('roSlug', text=t), story('A', body=[item('i1', slug=t)], slug=t)))
        yield mos(40 + k, E('roStoryAppend', E('roID', text='RO1'), story('N%d' % k, slug=t)))
    yield ro_delete(90)


# what a wrong key finds: a message of another class, another running order
DECOY = b'<mos><mosID>DECOY</mosID><ncsID>NCS</ncsID><messageID>424242</messageID><roReadyToAir><roID>DECOY</roID><roAir>READY</roAir></roReadyToAir></mos>'

class Check:
    pid = 'C18'
    rule = ('every document of the C08 generator plus Unicode documents, read from a file, a str, bytes and a fake S3 object, in '
            'UTF-8, ISO-8859-1 and UTF-16 encodings (with XML declaration) where representable: class and serialisation must agree; '
            'collections through from_strings / from_files / from_s3; MosReader metadata and repeated restores; fake paginators with '
            '0..5 [0..20] pages, keys with and without the suffix, pages without Contents at every position, empty / folder prefixes and prefixes cut out of a key at any position (the fake lists only keys under the prefix, like S3). '
            'distinct by (kind, encoding, outcome)')

    def matches_known(self, k, v):
        return False

    def run(self, tier, rng, log):
        from mosromgr.mostypes import MosFile
        from mosromgr.moscollection import MosReader
        from mosromgr.utils import s3 as s3mod
        vio, dis, sigs, samples = [], [], set(), []
        n = 0
        docs = [t for t, _ in c08.documents('quick', rng)][:: (3 if tier == 'quick' else 1)]
        docs += [to_text(d) for d in unicode_docs(rng)]
        saved = (s3mod.s3._client, s3mod.s3._resource)
        tmp = tempfile.mkdtemp(prefix='mosverif-c18-')
        try:
            for k, text in enumerate(docs):
                for enc in ENCODINGS:
                    try:
                        data = ('<?xml version="1.0" encoding="%s"?>' % enc + text).encode(enc)
                    except UnicodeEncodeError:
                        continue
                    path = os.path.join(tmp, 'd%d.xml' % k)
                    with open(path, 'wb') as f:
                        f.write(data)
                    # the object sits under a key with characters that decoding / normalising would change; every such
                    # variant of the key holds a decoy (another message), so asking for the wrong key never goes unnoticed
                    key = fakes3.KEY_SHAPES[k % len(fakes3.KEY_SHAPES)]
                    fakes3.install(s3mod, objects=fakes3.with_decoys({key: data}, DECOY), bucket='b', lazy=(k % 3 == 0))
                    res = {}
                    for how, fn in (('file', lambda: MosFile.from_file(path)), ('bytes', lambda: MosFile.from_string(data)),
                                    ('s3', lambda: MosFile.from_s3('b', key)),
                                    ('str', lambda: MosFile.from_string(text))):
                        try:
                            mo = fn()
                            res[how] = ('ok', type(mo).__name__, str(mo))
                        except Exception as e:
                            res[how] = ('err', type(e).__name__)
                        n += 1
                    if res['str'][0] == 'ok' and enc == 'utf-8':
                        # the same content through the class it belongs to and, for roElementAction, through ElementAction
                        import mosromgr.mostypes as MT
                        entry = [getattr(MT, res['str'][1])] + ([MT.ElementAction] if res['str'][1].startswith('EA') else [])
                        for cls_ in entry:
                            for how, fn in (('file', lambda: cls_.from_file(path)), ('bytes', lambda: cls_.from_string(data)),
                                            ('s3', lambda: cls_.from_s3('b', key)), ('str', lambda: cls_.from_string(text))):
                                try:
                                    mo = fn()
                                    r_ = ('ok', type(mo).__name__, str(mo))
                                except Exception as e:
                                    r_ = ('err', type(e).__name__)
                                n += 1
                                if r_ != res['str']:
                                    vio.append({'what': '%s.from_%s (key %r) gives %r%s, MosFile.from_string gives %r' % (cls_.__name__, how if how != 'bytes' else 'string(bytes)', key, r_[:2],
                                                        ' with another serialisation' if r_[:2] == res['str'][:2] else '', res['str'][:2]),
                                                'case': {'kind': 'source', 'text': text, 'encoding': enc, 'entry': cls_.__name__, 'key': key}, 'impl': r_[:2], 'expected': res['str'][:2]})
                    sigs.add(('source', enc, res['str'][:2]))
                    bad = [h for h in ('file', 'bytes', 's3') if res[h] != res['str']]
                    if bad:
                        vio.append({'what': 'the same content read from %s (key %r) gives %r%s, from str %r (encoding %s)' % (bad[0], key, res[bad[0]][:2],
                                            ' with another serialisation' if res[bad[0]][:2] == res['str'][:2] else '', res['str'][:2], enc),
                                    'case': {'kind': 'source', 'text': text, 'encoding': enc, 'key': key}, 'impl': [res[h][:2] for h in res], 'expected': 'all equal'})
                    # the model classifies the parsed tree the same way
                    try:
                        mo = engine.classify_cases([text])[0]
                        if (res['str'][0] == 'ok') != (mo[0] == 'ok') or (mo[0] == 'ok' and mo[1] != res['str'][1]):
                            dis.append({'case': {'kind': 'source', 'text': text}, 'impl': res['str'][:2], 'model': mo, 'explained': bool(bad)})
                    except Exception:
                        pass
            # readers
            for rk, text in enumerate([to_text(d) for d in unicode_docs(rng)]):
                data = text.encode('utf-8')
                rkey = fakes3.KEY_SHAPES[(rk + 1) % len(fakes3.KEY_SHAPES)]
                fakes3.install(s3mod, objects=fakes3.with_decoys({rkey: data}, DECOY), bucket='b')
                path = os.path.join(tmp, 'r.xml')
                with open(path, 'wb') as f:
                    f.write(data)
                want = MosFile.from_string(text)
                for how, mk in (('string', lambda: MosReader.from_string(text)), ('file', lambda: MosReader.from_file(path)),
                                ('s3', lambda: MosReader.from_s3('b', rkey))):
                    r = mk()
                    n += 1
                    a, b = r.mos_object, r.mos_object
                    ok = (r.message_id == want.message_id and r.ro_id == want.ro_id and r.mos_type is type(want)
                          and a is not b and a.xml is not b.xml and str(a) == str(b) == str(want) and type(a) is type(want))
                    if ok and type(a).__name__ == 'RunningOrder':
                        # every restore is fresh: what happens to one restored object does not show in the next
                        a += MosFile.from_string(to_text(story_append(77, [story('FRESH')])))
                        ok = str(b) == str(want) and str(r.mos_object) == str(want)
                    sigs.add(('reader', how, ok))
                    if not ok:
                        vio.append({'what': 'MosReader.from_%s does not report / restore the message faithfully' % how,
                                    'case': {'kind': 'reader', 'text': text, 'how': how}, 'impl': [r.message_id, r.ro_id, r.mos_type.__name__], 'expected': [want.message_id, want.ro_id, type(want).__name__]})
                mr = engine.readers_cases([{'docs': [text], 'inc': True}])
            # collections: the three constructors over the same contents (documents supplied twice, XML declarations of
            # other encodings and odd S3 keys included - c09.sequences, impl.run_coll) merge to the same result
            import itertools
            from checks import c09
            from docs import metadata_replace as _mdr
            ro_f = to_text(gens.make_ro(['A', 'B'], message_id=1))
            ap_f = to_text(story_append(5, [story('F1')]))
            ap2_f = to_text(story_append(6, [story('F2')]))
            rd_f = to_text(ro_delete(90))
            tw_a = to_text(_mdr(3, [E('roChannel', text='first twin')]))
            tw_b = to_text(_mdr(3, [E('roChannel', text='second twin')]))
            fixed = [[ro_f, tw_a, ap_f, ap2_f, tw_b, rd_f],          # two messages with one ID whose file names sort the other way round
                     [ro_f, tw_b, ap_f, ap2_f, tw_a, rd_f],
                     [ro_f, ap_f, ap2_f, ap_f, rd_f],                # a document supplied twice (one path listed twice, same spelling)
                     [ro_f, ap_f, ap_f, rd_f],                       # ... and in another spelling
                     [rd_f, ap2_f, ro_f]]                            # the roCreate supplied last
            for docs_ in fixed + list(itertools.islice(c09.sequences(tier, rng), 60 if tier == 'quick' else 600)):
                case = {'docs': docs_, 'inc': True, 'strict': True}
                outs = {how: impl.run_coll(docs_, True, True, how=how, tmpdir=tmp) for how in ('strings', 'files', 's3')}
                key = lambda io: (io.get('err0'), io.get('err'), io.get('tree'), tuple(io.get('warns') or ()))
                n += 3
                sigs.add(('collection', outs['strings'].get('err0') or outs['strings'].get('err')))
                for how in ('files', 's3'):
                    if key(outs[how]) != key(outs['strings']):
                        vio.append({'what': 'a collection built by from_%s merges to another result than the one built by from_strings over the same contents (%s / %s)'
                                            % (how, outs[how].get('err0') or outs[how].get('err') or 'merged', outs['strings'].get('err0') or outs['strings'].get('err') or 'merged'),
                                    'case': {'kind': 'collection', 'docs': docs_, 'how': how}, 'impl': str(key(outs[how])[:2]), 'expected': str(key(outs['strings'])[:2])})
                        break
                mo = engine.coll_cases([case])[0]
                a = (outs['strings'].get('err0'), outs['strings'].get('err'), outs['strings'].get('tree'))
                b = (mo.get('err0'), mo.get('err'), mo.get('tree'))
                if a != b:
                    dis.append({'case': {'kind': 'collection', 'docs': docs_, 'how': 'strings'}, 'impl': str(a[:2]), 'model': str(b[:2]), 'explained': False})
            # listings
            npages = 5 if tier == 'quick' else 20
            # fixed cases first (what the random ones below reach only now and then): prefix and suffix overlapping inside a key,
            # the prefix a whole key, the suffix a whole key, the empty suffix, a key equal to prefix + suffix
            fixed = [(['x/ro1.xml', 'x/ro1.mos.xml', 'x/ro2.xml'], 'x/ro1.', '.xml'), (['x/ro1.mos.xml', 'x/ro1.mos.xml.bak'], 'x/ro1.mos.xml', '.mos.xml'),
                     (['.mos.xml', 'a.mos.xml'], '', '.mos.xml'), (['x/ro1.mos.xml', 'x/ro1.mos.x'], 'x/ro1.mos.x', '.mos.xml'),
                     (['pre/.mos.xml', 'pre/a.mos.xml', 'pre/'], 'pre/', '.mos.xml'), (['a', 'b/c', 'd.xml'], None, ''), (['ab.xml'], 'a', 'ab.xml')]
            for trial in range(len(fixed) + (60 if tier == 'quick' else 600)):
                pages, keys = [], []
                if trial < len(fixed):
                    keys = list(fixed[trial][0])
                    pages = [{}] + [{'Contents': [{'Key': x}]} for x in keys] + [{}]
                for p in range(rng.randrange(0, npages + 1) if trial >= len(fixed) else 0):
                    if rng.random() < 0.3:
                        pages.append({} if rng.random() < 0.7 else {'IsTruncated': False})
                    else:
                        ks = []
                        for j in range(rng.randrange(0, 4)):
                            key = 'pre/%d-%d%s' % (p, j, rng.choice(['.mos.xml', '.mos.xml', '.txt', '.mos.xml.bak', '', '.MOS.XML']))
                            ks.append(key)
                        pages.append({'Contents': [{'Key': x} for x in ks]})
                        keys += ks
                suffix = rng.choice(['.mos.xml', '.xml', '', '.txt'])
                prefix = rng.choice([None, '', 'pre/'])
                if keys and rng.random() < 0.4:
                    # a prefix cut out of a key at any position (it may overlap the suffix, or be the whole key)
                    k0 = rng.choice(keys)
                    prefix = k0[:rng.randrange(0, len(k0) + 1)]
                if trial < len(fixed):
                    prefix, suffix = fixed[trial][1], fixed[trial][2]
                fakes3.install(s3mod, pages=pages, objects={}, lazy=(trial % 2 == 0))
                got = s3mod.get_mos_files('bucket', prefix, suffix=suffix)
                n += 1
                pages = fakes3.filter_pages(pages, prefix)
                keys = [x for x in keys if x.startswith(prefix or '')]
                want = [x for x in keys if x.endswith(suffix)]
                sigs.add(('listing', len(pages), len(want), got == want))
                line = 'list %s %d %s' % (X.s_tok(suffix), len(pages), ' '.join(
                    'n' if 'Contents' not in p else '%d%s' % (len(p['Contents']), ''.join(' ' + X.s_tok(c['Key']) for c in p['Contents'])) for p in pages))
                mo = engine.run_model([line])[0].split(' ')
                model_keys = [X.tok_s(t) for t in mo[1:]]
                if got != want:
                    vio.append({'what': 'S3 listing returned %d keys, %d keys under the prefix have the suffix' % (len(got), len(want)),
                                'case': {'kind': 'listing', 'pages': pages, 'suffix': suffix, 'prefix': prefix}, 'impl': got, 'expected': want})
                if got != model_keys:
                    dis.append({'case': {'kind': 'listing', 'pages': pages, 'suffix': suffix}, 'impl': got, 'model': model_keys, 'explained': got != want})
                if len(samples) < 2 and len(pages) > 2:
                    samples.append({'pages': pages, 'suffix': suffix, 'keys': got})
        finally:
            s3mod.s3._client, s3mod.s3._resource = saved
            shutil.rmtree(tmp, ignore_errors=True)
        return {'evaluations': n, 'distinct': len(sigs), 'rule': self.rule, 'samples': samples, 'distribution': {'documents': len(docs)},
                'disagreements': dis, 'violations': vio,
                'extra': {'programs': n, 'disagreements_checked': len(dis)}}

    def replay(self, rep):
        case = rep.get('case') or {}
        from mosromgr.mostypes import MosFile
        from mosromgr.utils import s3 as s3mod
        saved = (s3mod.s3._client, s3mod.s3._resource)
        try:
            if case.get('kind') == 'listing':
                fakes3.install(s3mod, pages=case['pages'], objects={})
                got = s3mod.get_mos_files('bucket', case.get('prefix', 'pre/'), suffix=case['suffix'])
                want = [c['Key'] for p in case['pages'] for c in p.get('Contents', []) if c['Key'].endswith(case['suffix'])]
                return {'violation': got != want, 'got': got, 'want': want}
            if case.get('kind') == 'collection':
                tmp = tempfile.mkdtemp(prefix='mosverif-c18-')
                try:
                    outs = {how: impl.run_coll(case['docs'], True, True, how=how, tmpdir=tmp) for how in ('strings', 'files', 's3')}
                finally:
                    shutil.rmtree(tmp, ignore_errors=True)
                key = lambda io: (io.get('err0'), io.get('err'), io.get('tree'), tuple(io.get('warns') or ()))
                return {'violation': any(key(outs[h]) != key(outs['strings']) for h in outs), 'results': {h: str(key(outs[h])[:2]) for h in outs}}
            if case.get('kind') == 'source':
                enc = case['encoding']
                data = ('<?xml version="1.0" encoding="%s"?>' % enc + case['text']).encode(enc)
                key = case.get('key', 'k.mos.xml')
                fakes3.install(s3mod, objects=fakes3.with_decoys({key: data}, DECOY), bucket='b')
                res = {}
                for how, fn in (('bytes', lambda: MosFile.from_string(data)), ('s3', lambda: MosFile.from_s3('b', key)),
                                ('str', lambda: MosFile.from_string(case['text']))):
                    try:
                        mo = fn()
                        res[how] = ('ok', type(mo).__name__, str(mo))
                    except Exception as e:
                        res[how] = ('err', type(e).__name__)
                return {'violation': any(res[h] != res['str'] for h in res), 'results': {h: res[h][:2] for h in res}}
        finally:
            s3mod.s3._client, s3mod.s3._resource = saved
        return {'violation': False, 'note': str(rep.get('detail'))}

    def shrink(self, v):
        return v
