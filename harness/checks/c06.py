"""C06 — nothing named by a message is skipped silently."""
import gens
import impl
import engine
import exchange as X
from docs import to_text
from checks.base import AddCheck, story_ids, item_ids, rc_of, err_class, corpus_cases
from checks.c01 import history_states
from checks.c05 import kth_bad_cases

LEVEL = 'proof'
ASSUMPTIONS = ['warnings are recorded under warnings.simplefilter("always") (the default filter hides the second identical '
               'warning from one code line); theorem hypotheses: integer messageID, every story has a storyID / item an itemID']
NOTFOUND = {'StoryNotFoundWarning', 'ItemNotFoundWarning'}


def texts(elems, tag):
    return [e[2] for e in elems if e[0] == tag]


def base_tag(msg_tree):
    for k in msg_tree[4]:
        if k[0].startswith('ro'):
            return k
    return None


def delete_expectation(ids, present):
    """sequential semantics: (remaining ids, number of names not found at their turn)"""
    cur = list(present)
    missing = 0
    for i in ids:
        if i is not None and i in cur:
            cur.remove(i)
        else:
            missing += 1
    return cur, missing


def hist_judge(c, k, a, prev):
    """a story delete on a live object: named stories that are present must go, absent ones must be reported"""
    if 'classerr' in a or a.get('err'):
        return None
    if a['cls'] not in ('StoryDelete', 'EAStoryDelete'):
        return None
    msg = X.elem_to_tree(impl.parse_doc(c['msgs'][k]))
    b = base_tag(msg)
    ids = texts(b[4], 'storyID') if a['cls'] == 'StoryDelete' else [t for s_ in X.findall(b, 'element_source') for t in texts(s_[4], 'storyID')]
    ids0 = story_ids(prev)
    if any(isinstance(i, tuple) for i in ids0):
        return None
    want, missing = delete_expectation(ids, ids0)
    if a['warns'].count('StoryNotFoundWarning') != missing:
        return 'step %d (%s) named %r in a running order holding %r: %d StoryNotFoundWarning, expected %d' % (k, a['cls'], ids, ids0, a['warns'].count('StoryNotFoundWarning'), missing)
    if story_ids(a['tree']) != want:
        return 'step %d (%s) named %r: stories afterwards %r, expected %r' % (k, a['cls'], ids, story_ids(a['tree']), want)
    return None


class Check(AddCheck):
    pid = 'C06'
    needs_claims = False
    rule = ('messages with n>=1 named elements x every subset of them unresolvable / duplicate: the exhaustive story-level and '
            'item-level message spaces (all ordered selections over {existing, unknown, blank}, both element_source groupings), '
            'k-th-of-n lists, inserts whose payload repeats existing or own IDs, random messages on random histories. '
            'non-trivial = a warning or an exception; distinct by (class, n, outcome, warning categories)')

    def gen(self, tier, rng):
        n_max = 3 if tier == 'quick' else 4
        yield from gens.merge_cases_story(n_max=n_max, max_src=2 if tier == 'quick' else 3, layouts=['plain', 'between'])
        yield from gens.merge_cases_item(n_max=n_max, max_src=2 if tier == 'quick' else 3, para_layouts=['none', 'between'])
        # what is a duplicate / cannot be found is decided among the stories of roCreate and the items of the addressed
        # story: not among look-alike elements nested in payloads (decoys carry the IDs the messages insert), and the first
        # of two stories with one ID is the one that counts
        yield from (c for c in gens.merge_cases_story(n_max=2, max_src=2, layouts=['decoys', 'dupstories', 'blankids', 'noids']) if c['meta']['n'] >= 1)
        yield from gens.merge_cases_padded()
        yield from gens.merge_cases_special_ids()
        for ro, doc, meta in kth_bad_cases():
            yield {'ro': ro, 'msg': to_text(doc), 'meta': meta}
        n_hist = 100 if tier == 'quick' else 1000
        for state in history_states(rng, n_hist, 8):
            sids, items = gens.state_ids(state)
            k = [0]

            def fresh():
                k[0] += 1
                return 'w%d' % k[0]
            for j in range(4):
                doc = gens.random_story_message(rng, sids, 900 + j, fresh) if rng.random() < 0.5 else \
                    gens.random_item_message(rng, sids, items, 900 + j, fresh)
                yield {'ro': state, 'msg': to_text(doc), 'meta': {'cls': doc[3].tag, 'n': len(sids), 'layout': 'history'}}

    def obs(self, o):
        if 'classerr' in o:
            return ('classerr', o['classerr'])
        rc = rc_of(o['tree'])
        stories = [k for k in (rc[4] if rc else ()) if k[0] == 'story']
        return (err_class(o), tuple(sorted(o['warns'])), tuple(map(repr, story_ids(o['tree']) or [])),
                tuple(tuple(map(repr, item_ids(s))) for s in stories))

    def nontrivial(self, case, io, before):
        return bool(io.get('err') or io.get('warns'))

    def run(self, tier, rng, log):
        res = super().run(tier, rng, log)
        from checks.base import live_histories, compare_histories
        hcases = list(live_histories(tier, rng))
        hn, hdis, hvio = compare_histories(hcases, lambda s_: (s_.get('classerr'), s_.get('cls'), s_.get('err'), tuple(sorted(s_.get('warns') or ())),
                                                              tuple(map(repr, story_ids(s_['tree']) or [])) if 'tree' in s_ else None), hist_judge)
        res['evaluations'] += hn
        res['disagreements'] += hdis
        res['violations'] += hvio
        res['extra']['live_history_steps'] = hn
        return res

    def replay(self, rep):
        case = rep.get('case') or {}
        if case.get('kind') == 'hist':
            steps = impl.run_hist(case['ro'], case['msgs'])
            prev = X.elem_to_tree(impl.parse_doc(case['ro']))
            for k, a in enumerate(steps):
                what = hist_judge(case, k, a, prev)
                if what:
                    return {'violation': True, 'what': what}
                if 'tree' in a:
                    prev = a['tree']
            return {'violation': False}
        return super().replay(rep)

    def shrink(self, v):
        if v['case'].get('kind') == 'hist':
            return v
        return super().shrink(v)

    def violation(self, case, io, claim, before):
        if 'classerr' in io or io.get('err') not in (None,):
            if io.get('err') and io['err'] not in ('MosMergeError', 'MosCompletedMergeError') and \
                    io.get('cls') in ('StoryDelete', 'EAStoryDelete', 'ItemDelete', 'EAItemDelete', 'StoryInsert', 'EAStoryInsert'):
                # a delete / a story insert of a schema-shaped message either raises MosMergeError or warns per missing / duplicate element:
                # a built-in exception is neither (also C12's business; decided here only inside the guards)
                fl, = engine.schema_flags([case])
                if fl and fl['wf'] and fl['schema'] and fl['timing']:
                    return '%s: a named element is reported neither by MosMergeError nor by a warning: %s escaped' % (io['cls'], io['err'])
            return None
        cls = io['cls']
        msg = X.elem_to_tree(impl.parse_doc(case['msg']))
        b = base_tag(msg)
        ids0 = story_ids(before)
        if any(isinstance(i, tuple) for i in ids0):
            return None
        warns = io['warns']
        after = story_ids(io['tree'])

        def sources(tag):
            return [t for s in X.findall(b, 'element_source') for t in texts(s[4], tag)]
        if cls in ('StoryDelete', 'EAStoryDelete'):
            ids = texts(b[4], 'storyID') if cls == 'StoryDelete' else sources('storyID')
            want, missing = delete_expectation(ids, ids0)
            if warns.count('StoryNotFoundWarning') != missing:
                return '%s named %r: %d story IDs cannot be found at their turn but %d StoryNotFoundWarning were emitted' % (cls, ids, missing, warns.count('StoryNotFoundWarning'))
            if after != want:
                return '%s named %r: stories left %r, expected %r (every listed ID is acted upon)' % (cls, ids, after, want)
        if cls in ('ItemDelete', 'EAItemDelete'):
            if cls == 'ItemDelete':
                sid = (texts(b[4], 'storyID') or [None])[0]
                ids = texts(b[4], 'itemID')
            else:
                tgt = X.find(b, 'element_target')
                sid = (texts(tgt[4], 'storyID') or [None])[0] if tgt else None
                ids = sources('itemID')
            rc0, rc1 = rc_of(before), rc_of(io['tree'])
            idx = next((j for j, k in enumerate(rc0[4]) if k[0] == 'story' and X.child_text(k, 'storyID') == sid and sid is not None), None)
            if idx is None:
                if cls == 'EAItemDelete' and warns != ['StoryNotFoundWarning']:
                    return 'EAItemDelete on a story that cannot be found emitted %r' % warns
                return None
            want, missing = delete_expectation(ids, item_ids(rc0[4][idx]))
            if warns.count('ItemNotFoundWarning') != missing:
                return '%s named %r: %d item IDs cannot be found at their turn but %d ItemNotFoundWarning were emitted' % (cls, ids, missing, warns.count('ItemNotFoundWarning'))
            if len(rc1[4]) == len(rc0[4]) and item_ids(rc1[4][idx]) != want:
                return '%s named %r: items left %r, expected %r (every listed ID is acted upon)' % (cls, ids, item_ids(rc1[4][idx]), want)
        if cls in ('StoryInsert', 'EAStoryInsert'):
            carried = [X.child_text(s, 'storyID') for s in (X.findall(b, 'story') if cls == 'StoryInsert' else
                                                            [k for s in X.findall(b, 'element_source')[:1] for k in X.findall(s, 'story')])]
            seen = list(ids0)
            dups = 0
            for c in carried:
                if c in seen:
                    dups += 1
                else:
                    seen.append(c)
            if warns.count('DuplicateStoryWarning') != dups:
                return '%s carried %r into %r: %d duplicates but %d DuplicateStoryWarning' % (cls, carried, ids0, dups, warns.count('DuplicateStoryWarning'))
            if len(after) != len(ids0) + len(carried) - dups:
                return '%s carried %r: %d stories afterwards, expected %d' % (cls, carried, len(after), len(ids0) + len(carried) - dups)
        if cls == 'StorySend':
            sid = (texts(b[4], 'storyID') or [None])[0]
            found = sid is not None and sid in ids0
            if (not found) != (warns == ['StoryNotFoundWarning']):
                return 'StorySend for %r (known: %s) emitted %r' % (sid, found, warns)
        if not warns and cls in ('StoryMove', 'EAStoryMove', 'EAStorySwap', 'StoryReplace', 'EAStoryReplace'):
            # silent success: everything named must have been there
            if cls == 'StoryMove':
                named = texts(b[4], 'storyID')[:2]
                named = [n for k, n in enumerate(named) if not (k == 1 and n is None)]
            elif cls == 'EAStoryMove':
                tgt = X.find(b, 'element_target')
                t = (texts(tgt[4], 'storyID') or [None])[0] if tgt else None
                named = sources('storyID') + ([t] if t is not None else [])
            elif cls == 'EAStorySwap':
                named = [t for s in X.findall(b, 'element_source')[:1] for t in texts(s[4], 'storyID')]
            elif cls == 'StoryReplace':
                named = texts(b[4], 'storyID')[:1] or [None]
            else:
                tgt = X.find(b, 'element_target')
                named = (texts(tgt[4], 'storyID')[:1] if tgt else []) or [None]
            for n in named:
                if n is None or n not in ids0:
                    return '%s names story %r, which is not in %r, yet neither raised nor warned' % (cls, n, ids0)
        return None
