"""C10 — merge result is independent of the order in which inputs are supplied."""
import os
import shutil
import tempfile
import itertools
import gens
import impl
import engine
import exchange as X
from docs import to_text, ro_delete, story_append, story_move, ready_to_air, E
from checks.base import corpus_cases

LEVEL = 'proof'
ASSUMPTIONS = [
    'message IDs are ASCII digit strings (leading zeros included), possibly surrounded by white space as in re-indented XML; '
    'Python int() on signs, underscores and non-ASCII digits is outside the model and not generated',
]
ID_SETS = [['9', '10', '100'], ['1000', '2863312530', '5', '1431656765', '3000000007'], ['\n    9\n  ', ' 10 ', '8', '100\t'], ['2', '11', '1', '3'], ['007', '8', '10', '9'], ['99', '100', '101', '1000', '5'],
           ['1', '2', '3', '4', '5', '6'], ['10', '9'], ['20', '3', '100', '0099'],
           # zero (falsy in Python) as the lowest ID, with and without leading zeros; IDs that only differ beyond the
           # precision of a binary64 float; IDs beyond 64 bits
           ['9', '0', '10', '100'], ['1', '00', '2', '10'], ['9007199254740993', '9007199254740992', '3', '9007199254740994'],
           ['18446744073709551617', '5', '18446744073709551616', '4294967296']]


def messages(ids, rng, ro_at=0):
    """a roCreate plus messages whose effect depends on the order of application; the roCreate carries the
    ro_at-th smallest message ID (it need not be the lowest: the other messages are still applied in ascending order)"""
    ids = list(ids)
    nums = sorted(ids, key=int)
    ro_id = nums[ro_at]
    rest = [x for x in nums if x != ro_id]
    docs = {}
    docs[ro_id] = gens.make_ro(['A', 'B', 'C'], message_id=ro_id)
    for k, mid in enumerate(rest):
        if k % 3 == 0:
            d = story_append(mid, [gens.new_story('S' + mid.strip())])
        elif k % 3 == 1:
            d = story_move(mid, ['S' + rest[k - 1].strip(), 'A'])      # moves the story appended just before
        else:
            d = story_move(mid, ['C', 'S' + rest[k - 2].strip()])
        d.find('messageID').text = mid
        if k % 2 == 0:
            # the envelope's fields after the message element, and an element named messageID (another number) inside the
            # body: the message is still message `mid`
            body = d[3]
            body.append(E('mosExternalMetadata', E('mosSchema', text='http://quoted'), E('mosPayload', E('quoted', E('messageID', text='500'), E('mosID', text='other')))))
            head = [c for c in d if c.tag in ('mosID', 'ncsID', 'messageID')]
            for c in head:
                d.remove(c)
            for c in head:
                d.append(c)
        docs[mid] = d
    return [to_text(docs[i]) for i in ids]


class Check:
    pid = 'C10'
    rule = ('message-ID sets of mixed digit counts (9/10/100, leading zeros, 0 and 00, neighbours above 2**53, values above 2**64) x all permutations of the supplied list '
            '(<=6 messages exhaustively, sampled beyond) x the roCreate carrying the lowest / a middle / the highest ID x {from_strings, from_files, from_s3}; sorted(MosFile objects) as well, also for objects of several running orders / classes / without roID. '
            'The messages are order sensitive (append then move the appended story). distinct by (id set, permutation class, constructor)')

    def matches_known(self, k, v):
        return False

    def run(self, tier, rng, log):
        vio, dis, sigs, samples = [], [], set(), []
        n = 0
        tmp = tempfile.mkdtemp(prefix='mosverif-c10-')
        from mosromgr.mostypes import MosFile
        try:
            id_sets = ID_SETS + ([['1', '02', '3', '10', '11', '12', '9', '100']] if tier == 'thorough' else [])
            variants = []
            for ids in id_sets:
                places = [0, len(ids) - 1, len(ids) // 2] if tier == 'thorough' else [0, (len(ids) - 1) if len(ids) % 2 else len(ids) // 2]
                for ro_at in sorted(set(places)):
                    variants.append((ids, ro_at))
            for ids, ro_at in variants:
                base = messages(ids, rng, ro_at)
                perms = list(itertools.permutations(range(len(ids))))
                limit = 120 if tier == 'quick' else 5000
                if len(perms) > limit:
                    perms = [perms[0]] + rng.sample(perms, limit - 1)
                cases = [{'docs': [base[k] for k in p], 'inc': True, 'strict': True} for p in perms]
                model = engine.coll_cases(cases)
                mreaders = engine.readers_cases(cases)
                ref_tree = None
                want_order = sorted(int(i) for i in ids)
                for p, c, mo, mr in zip(perms, cases, model, mreaders):
                    for how in ('strings', 'files', 's3'):
                        io = impl.run_coll(c['docs'], True, True, how=how, tmpdir=tmp)
                        n += 1
                        sigs.add((tuple(ids), ro_at, how, p[0], io.get('err')))
                        what = None
                        if 'err0' in io or io.get('err'):
                            what = 'collection of %r failed (%s) for permutation %r' % (ids, io.get('err0') or io.get('err'), p)
                        else:
                            if ref_tree is None:
                                ref_tree = io['tree']
                            if io['tree'] != ref_tree:
                                what = 'merge result for permutation %r of ids %r differs from the result for %r' % (p, ids, perms[0])
                        if what:
                            vio.append({'what': what, 'case': {'kind': 'coll', 'docs': c['docs'], 'how': how, 'ids': ids},
                                        'impl': str(io.get('err')), 'expected': 'same result for every ordering'})
                        a = (io.get('err0'), io.get('err'), io.get('tree'))
                        b = (mo.get('err0'), mo.get('err'), mo.get('tree'))
                        if a != b:
                            dis.append({'case': {'kind': 'coll', 'docs': c['docs'], 'how': how}, 'impl': str(a[:2]),
                                        'model': str(b[:2]), 'explained': bool(what)})
                    # sorting MosFile objects orders them numerically
                    objs = sorted(MosFile.from_string(t) for t in c['docs'])
                    got = [o.message_id for o in objs]
                    n += 1
                    if got != want_order:
                        vio.append({'what': 'sorted(MosFile) gives %r, numeric order is %r' % (got, want_order),
                                    'case': {'kind': 'sort', 'docs': c['docs']}, 'impl': got, 'expected': want_order})
                    ro_num = int(sorted(ids, key=int)[ro_at])
                    if mr[0] == 'ok' and (mr[1] != ro_num or [x[0] for x in mr[2]] != [x for x in want_order if x != ro_num]):
                        dis.append({'case': {'kind': 'sort', 'docs': c['docs']}, 'impl': got, 'model': str(mr), 'explained': False})
                if len(samples) < 3:
                    samples.append({'ids': ids, 'supplied_order': [ids[k] for k in perms[-1]], 'applied_order': want_order})
            # sorting MosFile objects that belong to different running orders (or carry a blank / no roID), of different
            # classes: the message ID alone orders them
            from docs import story_append as _sa, ro_delete as _rd, ready_to_air as _rta
            for ids in id_sets:
                rids = ['RO B', 'RO A', None, 'RO B', 'ro a', 'RO A']
                docs_ = []
                for k, mid in enumerate(sorted(ids, key=int)):
                    mk = [_sa, _rd, _rta][k % 3]
                    d = mk(mid, [gens.new_story('S%d' % k)], ro_id=rids[k % len(rids)]) if mk is _sa else mk(mid, ro_id=rids[k % len(rids)])
                    d.find('messageID').text = mid
                    if k % 5 == 4:
                        d[3].remove(d[3].find('roID'))
                    docs_.append(to_text(d))
                # ... among them a roCreate (the lowest ID) and a roReplace (the highest) with the very same content
                import copy as _copy
                nums_ = sorted(ids, key=int)
                rc_doc = gens.make_ro(['A', 'B'], message_id=nums_[0])
                rc_doc.find('messageID').text = nums_[0]
                rr_doc = _copy.deepcopy(rc_doc)
                rr_doc.find('roCreate').tag = 'roReplace'
                rr_doc.find('messageID').text = nums_[-1]
                docs_[0], docs_[-1] = to_text(rc_doc), to_text(rr_doc)
                for trial in range(6):
                    order = list(range(len(docs_)))
                    rng.shuffle(order)
                    try:
                        got = [o.message_id for o in sorted(MosFile.from_string(docs_[k]) for k in order)]
                    except Exception as e:
                        got = 'raises ' + type(e).__name__
                    n += 1
                    want = sorted(int(i) for i in ids)
                    if got != want:
                        vio.append({'what': 'sorted(MosFile objects of several running orders) gives %r, numeric message-ID order is %r' % (got, want),
                                    'case': {'kind': 'sort', 'docs': [docs_[k] for k in order]}, 'impl': got, 'expected': want})
                        break
        finally:
            shutil.rmtree(tmp, ignore_errors=True)
        return {'evaluations': n, 'distinct': len(sigs), 'rule': self.rule, 'samples': samples,
                'distribution': {'id_sets': len(ID_SETS)}, 'disagreements': dis, 'violations': vio, 'extra': {}}

    def replay(self, rep):
        case = rep.get('case') or {}
        if 'docs' not in case:
            return {'violation': False, 'note': str(rep.get('detail'))}
        from mosromgr.mostypes import MosFile
        docs = case['docs']
        try:
            got = [o.message_id for o in sorted(MosFile.from_string(t) for t in docs)]
        except Exception as e:
            return {'violation': True, 'sorted': 'raises ' + type(e).__name__}
        if got != sorted(got):
            return {'violation': True, 'sorted': got}
        if case.get('kind') == 'sort':
            return {'violation': False, 'sorted': got}
        tmp = tempfile.mkdtemp(prefix='mosverif-c10-')
        try:
            a = impl.run_coll(docs, True, True, how=case.get('how', 'strings'), tmpdir=tmp)
        finally:
            shutil.rmtree(tmp, ignore_errors=True)
        b = impl.run_coll(sorted(docs, key=lambda t: MosFile.from_string(t).message_id), True, True)
        return {'violation': a.get('tree') != b.get('tree') or bool(a.get('err') or a.get('err0')), 'err': a.get('err') or a.get('err0')}

    def shrink(self, v):
        return v
