"""C13 — merging depends only on content; message objects stay independent."""
import impl
import engine
import gens
import static
import exchange as X
from docs import (E, to_text, ABSENT, story, item, p, payload, story_send, story_append, story_insert, story_replace,
                  item_insert, item_replace, item_delete, element_action, ref, ea_target, ro_replace, metadata_replace, ro_delete)
from checks.base import corpus_cases

LEVEL = 'proof'
ASSUMPTIONS = ['PARTIAL: the copy discipline is proved sufficient in a store model (C13_frame, C13_copy_fresh, C13_discipline); that '
               'the merges follow it is checked statically (ast: every inserted node is a deep copy, a variable holding one, or one of '
               "the running order's own nodes) and by histories on the real code; the merges are not re-modelled over the store"]


def carrying_messages(rng):
    """(class, document, story to edit afterwards, item inside it)"""
    new = lambda sid: story(sid, body=[item('x1', slug='one'), p('para'), item('x2', slug='two')], slug='Carried ' + sid,
                            meta=payload(duration='4'))
    mid = 30
    yield 'StoryAppend', story_append(mid, [new('N1'), new('N2')]), 'N1'
    yield 'StoryInsert', story_insert(mid, 'B', [new('N1')]), 'N1'
    # some carried stories are duplicates (skipped with a warning), the others must still arrive as copies
    yield 'StoryInsert', story_insert(mid, 'B', [new('A'), new('N1')]), 'N1'
    yield 'StoryInsert', story_insert(mid, 'B', [new('N1'), new('N1'), new('N2')]), 'N2'
    yield 'EAStoryInsert', element_action(mid, 'INSERT', [ref('storyID', 'B')], [[new('N1'), new('C'), new('N2')]]), 'N2'
    # insert at the end: blank target, and no element_target at all
    yield 'EAStoryInsert', element_action(mid, 'INSERT', [ref('storyID', None)], [[new('N1'), new('N2')]]), 'N1'
    yield 'EAStoryInsert', element_action(mid, 'INSERT', None, [[new('N1')]]), 'N1'
    yield 'EAItemInsert', element_action(mid, 'INSERT', ea_target('A', None), [[item('x1', slug='one'), item('x2')]]), 'A'
    yield 'ItemInsert', item_insert(mid, 'A', None, [item('x1', slug='one')]), 'A'
    yield 'StoryReplace', story_replace(mid, 'B', [new('N1'), new('N2')]), 'N2'
    yield 'EAStoryInsert', element_action(mid, 'INSERT', [ref('storyID', 'B')], [[new('N1')]]), 'N1'
    yield 'EAStoryReplace', element_action(mid, 'REPLACE', [ref('storyID', 'B')], [[new('N1')]]), 'N1'
    yield 'ItemInsert', item_insert(mid, 'A', 'i1', [item('x1', slug='one', extra=[E('meta', E('deep', text='d'))])]), 'A'
    yield 'ItemReplace', item_replace(mid, 'A', 'i1', [item('x1', slug='one'), item('x2')]), 'A'
    yield 'EAItemInsert', element_action(mid, 'INSERT', ea_target('A', 'i1'), [[item('x1', slug='one')]]), 'A'
    yield 'EAItemReplace', element_action(mid, 'REPLACE', ea_target('A', 'i1'), [[item('x1', slug='one')]]), 'A'
    yield 'StorySend', story_send(mid, 'B', body=[p('t'), E('storyItem', E('itemID', text='x1')), E('storyItem', E('itemID', text='x2'))],
                                  pre=[E('storySlug', text='sent')]), 'B'
    yield 'RunningOrderReplace', ro_replace(mid, [new('N1'), new('N2')]), 'N2'
    yield 'MetaDataReplace', metadata_replace(mid, [E('roSlug', text='s'), E('mosExternalMetadata', E('mosSchema', text='http://schema/ro'), E('mosPayload', E('Owner', E('deep', text='x'))))]), None
    yield 'RunningOrderEnd', ro_delete(mid), None


def later_edits(sid):
    """messages that edit inside the carried story / the running order afterwards"""
    if sid is not None:
        yield item_delete(41, sid, ['x1'])
        yield item_insert(42, sid, None, [item('y9')])
        yield item_replace(43, sid, 'x2', [item('z1'), item('z2')])
        yield element_action(44, 'DELETE', [ref('storyID', sid)], [[ref('itemID', 'z1')]])
    yield metadata_replace(45, [E('roSlug', text='later'), E('mosExternalMetadata', E('mosSchema', text='http://schema/ro'), E('mosPayload', E('Owner', text='changed')))])
    yield ro_delete(46)


def message_view(m):
    """what the message object reports through its public properties (carried elements by their XML),
    and the identities of every Element it hands out"""
    from xml.etree import ElementTree as ET
    from mosromgr.moselements import MosElement
    view, handed = {}, set()

    def conv(v):
        if isinstance(v, MosElement):
            for e in v.xml.iter():
                handed.add(id(e))
            return ('elem', ET.tostring(v.xml, encoding='unicode'), v.id)
        if isinstance(v, (list, tuple)):
            return [conv(x) for x in v]
        if isinstance(v, ET.Element):
            for e in v.iter():
                handed.add(id(e))
            return ('xml', ET.tostring(v, encoding='unicode'))
        return repr(v)
    for name in sorted(dir(type(m))):
        if name.startswith('_') or name in ('dict',) or not isinstance(getattr(type(m), name, None), property):
            continue
        try:
            view[name] = conv(getattr(m, name))
        except Exception as e:
            view[name] = 'raises ' + type(e).__name__
    return view, handed


def shares_nodes(m, ro):
    view, handed = message_view(m)
    return any(id(e) in handed for e in ro.xml.iter())


class Check:
    pid = 'C13'
    rule = ('for each of the 13 payload-carrying classes (inserts also with partly duplicate payloads) x 4 running-order layouts: merge the message object into ro1; apply 6 later '
            'edits to ro1 (item delete / insert / replace / roElementAction delete inside the carried story, roMetadataReplace, '
            'roDelete) checking str(message), everything the message reports through its public properties, and that no element it hands out is a node of the running order, after each; merge the same object again into a fresh ro2 and compare with merging a '
            'freshly parsed copy; edit ro2 and check ro1 is untouched; plus the static call-site extraction. distinct by (class, layout, step)')

    def matches_known(self, k, v):
        return False

    def history(self, ro_text, msg_text, sid, via='parse'):
        """via: how the message object is obtained - parsed directly, or restored by a collection reader"""
        from mosromgr.mostypes import RunningOrder, MosFile
        from mosromgr.moscollection import MosReader
        import warnings
        warnings.simplefilter('ignore')
        ro1 = RunningOrder.from_string(ro_text)
        m = MosFile.from_string(msg_text) if via == 'parse' else MosReader.from_string(msg_text).mos_object
        before = str(m)
        view0 = message_view(m)[0]
        steps = 0
        try:
            ro1 += m
        except Exception:
            # the merge is refused (or the running order is outside the guards): the message must still be intact
            return ('a merge that raised modified the message object' if (str(m) != before or message_view(m)[0] != view0) else None), steps
        if str(m) != before:
            return 'the merge modified the message object', steps
        if message_view(m)[0] != view0:
            return 'after the merge the message object reports something else through its accessors', steps
        if shares_nodes(m, ro1):
            return 'after the merge an element handed out by the message object is a node of the running order', steps
        for d in later_edits(sid):
            steps += 1
            try:
                ro1 += MosFile.from_string(to_text(d))
            except Exception:
                pass
            if str(m) != before:
                return 'a later %s on the running order changed the message object that had been merged' % d[3].tag, steps
            if message_view(m)[0] != view0:
                return 'a later %s on the running order changed what the merged message object reports through its accessors' % d[3].tag, steps
        ro2 = RunningOrder.from_string(ro_text)
        ro3 = RunningOrder.from_string(ro_text)
        try:
            ro2 += m
            ro3 += MosFile.from_string(msg_text)
        except Exception:
            return None, steps
        steps += 1
        if str(ro2) != str(ro3):
            return 'merging the same message object again differs from merging a freshly parsed copy', steps
        if str(m) != before:
            return 'merging the message object a second time modified it', steps
        snap1 = str(ro1)
        if sid is not None:
            try:
                ro2 += MosFile.from_string(to_text(item_insert(47, sid, None, [item('w7')])))
                ro2 += MosFile.from_string(to_text(item_delete(48, sid, ['x2'])))
            except Exception:
                pass
        else:
            try:
                ro2 += MosFile.from_string(to_text(metadata_replace(49, [E('roSlug', text='ro2 only')])))
            except Exception:
                pass
        steps += 1
        if str(ro1) != snap1:
            return 'an edit of the second running order changed the first: they share content through the message', steps
        if str(m) != before:
            return 'an edit of the second running order changed the message object', steps
        return None, steps

    def run(self, tier, rng, log):
        vio, dis, sigs, samples = [], [], set(), []
        n = 0
        # static tie
        sites = static.copy_discipline(impl.REPO)
        bad_sites = [s for s in sites if not s['ok']]
        layouts = gens.RO_LAYOUTS if tier == 'thorough' else ['plain', 'between', 'trailing', 'nometa']
        cases = []
        for layout in layouts:
            ro = to_text(gens.make_ro(['A', 'B', 'C'], layout=layout, para_layout='between', timing='mixed'))
            for cls, doc, sid in carrying_messages(rng):
                for pretty in ((False, True) if tier == 'thorough' else (False,)):
                    cases.append((cls, layout, ro, to_text(doc, pretty=pretty), sid))
                if layout == 'plain':
                    # mixed layouts: a compact message into an indented running order, an indented message into a compact one
                    ro_ind = to_text(gens.make_ro(['A', 'B', 'C'], layout=layout, para_layout='between', timing='mixed'), pretty=True)
                    cases.append((cls, 'plain-indented', ro_ind, to_text(doc), sid))
                    cases.append((cls, 'plain', ro, to_text(doc, pretty=True), sid))
        hist_cases = []
        for cls, layout, ro, msg, sid in cases:
            for via in ('parse', 'reader'):
                what, steps = self.history(ro, msg, sid, via)
                n += steps + 1
                sigs.add((cls, layout, via, what))
                if what:
                    vio.append({'what': '%s%s: %s' % (cls, '' if via == 'parse' else ' (object restored by a MosReader)', what),
                                'case': {'kind': 'reuse', 'ro': ro, 'msg': msg, 'sid': sid, 'via': via}, 'impl': what, 'expected': 'independent'})
                    break
            hist_cases.append({'ro': ro, 'msgs': [msg] + [to_text(d) for d in later_edits(sid)]})
        # the pure model is the semantics under the discipline: same history, same trees
        for (cls, layout, ro, msg, sid), (isteps, msteps) in zip(cases, engine.hist_cases(hist_cases)):
            a = [(s.get('err'), s.get('tree')) for s in isteps]
            b = [(s.get('err'), s.get('tree')) for s in msteps]
            if a != b:
                dis.append({'case': {'kind': 'reuse', 'ro': ro, 'msg': msg}, 'impl': 'history trees', 'model': 'differ at step %d' % next(i for i, (x, y) in enumerate(zip(a, b)) if x != y), 'explained': bool(vio)})
        if bad_sites and not vio:
            dis.append({'case': {'kind': 'static', 'sites': bad_sites}, 'impl': 'a node is inserted that is neither a deep copy nor a node of the running order',
                        'model': 'copy discipline (C13_discipline)', 'explained': False})
        samples = [{'class': c[0], 'layout': c[1], 'msg': c[3][:300]} for c in cases[:2]]
        return {'evaluations': n, 'distinct': len(sigs), 'rule': self.rule, 'samples': samples,
                'distribution': {'histories': len(cases), 'call_sites': len(sites)}, 'disagreements': dis, 'violations': vio,
                'extra': {'static_call_sites': [{'where': '%s.%s:%d' % (s['class'], s['function'], s['line']), 'node': s['node'], 'why_ok': s['ok']} for s in sites]}}

    def replay(self, rep):
        case = rep.get('case') or {}
        if case.get('kind') != 'reuse':
            return {'violation': False, 'note': str(rep.get('detail') or case)}
        what, steps = self.history(case['ro'], case['msg'], case.get('sid'), case.get('via', 'parse'))
        return {'violation': bool(what), 'what': what}

    def shrink(self, v):
        return v
