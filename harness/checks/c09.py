"""C09 — collection merge equals adding the messages one by one; strict / non-strict."""
import os
import shutil
import tempfile
import itertools
import gens
import impl
import engine
import exchange as X
from docs import (to_text, element_action, ref, item_delete, story_move, item_move_multiple, ro_delete,
                  story_append, story_delete, ready_to_air, metadata_replace, ro_replace, E)
from checks.base import corpus_cases

LEVEL = 'proof'
ASSUMPTIONS = [
    'theorems C09_strict / C09_nonstrict are about the model merge loop; the three constructors (from_strings, from_files, '
    'from_s3) are glue covered by the differential run (from_s3 in C18)',
]


def set_mid(doc, mid):
    doc.find('messageID').text = str(mid)
    return doc


def sequences(tier, rng):
    """(docs, failing mask) - the first doc is the roCreate"""
    n_seq = 300 if tier == "quick" else 3000
    for s in range(n_seq):
        sids = gens.STORY_IDS[:rng.randrange(1, 5)]
        # the roCreate need not carry the lowest message ID: the other messages are applied in ascending order all the same
        ro_mid = 1 if s % 5 else rng.choice([12, 15, 30])
        ro = gens.make_ro(sids, layout=rng.choice(gens.RO_LAYOUTS), timing=rng.choice(gens.TIMINGS), message_id=ro_mid)
        state = to_text(ro)
        if s % 12 == 7:
            # the roCreate document is a completed running order that was written out earlier
            done = impl.run_add(state, to_text(ro_delete(ro_mid)))
            state = X.tree_to_string(done['tree'])
        docs = [state]
        counter = [0]

        def fresh():
            counter[0] += 1
            return 'Q%d_%d' % (s, counter[0])
        n = rng.randrange(1, 11 if tier == 'quick' else 41)
        for j in range(n):
            cur_s, cur_i = gens.state_ids(state)
            r = rng.random()
            if r < 0.45:
                d = gens.random_story_message(rng, cur_s, 10 + j, fresh)
            elif r < 0.8:
                d = gens.random_item_message(rng, cur_s, cur_i, 10 + j, fresh)
            elif r < 0.85:
                d = ready_to_air(10 + j)
            elif r < 0.9:
                d = metadata_replace(10 + j, [E('roSlug', text='slug %d' % j)])
            elif r < 0.93:
                d = gens.make_ro(['X'], message_id=10 + j) if rng.random() < 0.3 else story_move(10 + j, ['ZZ', 'A'])
            elif r < 0.97:
                d = ro_replace(10 + j, [gens.new_story(fresh()) for _ in range(rng.randrange(0, 3))] +
                               ([gens.new_story(rng.choice(cur_s))] if cur_s and rng.random() < 0.5 else []))
            else:
                d = ro_delete(10 + j)
            t = to_text(d)
            if rng.random() < 0.1:
                t = gens.mutate_doc(rng, t, state, n=rng.randrange(1, 3))       # a structural neighbour of the message
            docs.append(t)
            res = impl.run_add(state, t)
            if 'tree' in res and not res.get('err'):
                state = X.tree_to_string(res['tree'])
        if rng.random() < 0.7:
            docs.append(to_text(ro_delete(10 + n)))
        if s % 11 == 5:
            # two different messages under one message ID, far apart in the supplied list: they are applied in supplied order
            import re
            twin_a = to_text(metadata_replace(2, [E('roChannel', text='first twin %d' % s)]))       # (the later one wins)
            twin_b = to_text(metadata_replace(2, [E('roChannel', text='second twin %d' % s)]))
            docs.insert(1, twin_a)
            docs.append(twin_b)
        if s % 7 == 3 and len(docs) > 1:
            # the same document supplied twice (for from_files: the same path listed twice)
            docs.append(docs[rng.randrange(1, len(docs))])
        if s % 9 == 4:
            # documents that carry an XML declaration naming their encoding, with text outside ASCII: as str the declared
            # encoding means nothing, as a file / S3 object the bytes are in that encoding
            enc = rng.choice(['ISO-8859-1', 'windows-1252', 'UTF-16', 'UTF-8', 'iso-8859-15'])
            docs = ['<?xml version="1.0" encoding="%s"?>' % enc + t.replace('<roSlug>Slug</roSlug>', '<roSlug>Caf\u00e9 ma\u00f1ana \u00c3\u00a9</roSlug>').replace('<storySlug>', '<storySlug>\u00fc ')
                    for t in docs]
        order = list(range(len(docs)))
        rng.shuffle(order)
        yield [docs[k] for k in order]


def hand_fold(docs, strict):
    """the specification: sort by numeric message ID, add freshly parsed messages one by one"""
    from mosromgr.mostypes import MosFile, RunningOrder
    import warnings
    objs = [MosFile.from_string(t) for t in docs]
    order = sorted(range(len(docs)), key=lambda k: objs[k].message_id)
    ro_idx = [k for k in order if type(objs[k]) is RunningOrder][0]
    ro = MosFile.from_string(docs[ro_idx])
    warns, err = [], None
    for k in order:
        if k == ro_idx:
            continue
        m = MosFile.from_string(docs[k])
        with warnings.catch_warnings(record=True) as ws:
            warnings.simplefilter('always')
            try:
                ro += m
                warns += impl.wnames(ws)
            except impl.exc.MosMergeError as e:
                warns += impl.wnames(ws)
                if strict:
                    err = type(e).__name__
                    break
                warns.append('MosMergeNonStrictWarning')
            except Exception as e:
                warns += impl.wnames(ws)
                err = type(e).__name__
                break
    return {'err': err, 'warns': warns, 'tree': X.elem_to_tree(ro.xml)}


class Check:
    pid = 'C09'
    rule = ('seeded random sequences of 1..10 [1..40] messages of mixed types (story-level, item-level, metadata, '
            'ready-to-air, second roCreate, roReplace and roDelete in the middle; a roCreate document that is already completed) built against the evolving state so that most resolve, '
            'with unresolvable ones at random placements, supplied in shuffled order; each merged strict and non-strict, '
            'through from_strings and from_files; compared with the model loop and with a hand fold of `ro += msg` over '
            'freshly parsed messages; for a fifth of them merge() is called a second time on the same collection. distinct by (#messages, #failing, mode, constructor, exception)')

    def matches_known(self, k, v):
        return False

    def run(self, tier, rng, log):
        seqs = [c['docs'] for c in corpus_cases(self.pid, 'coll')] + list(sequences(tier, rng))
        cases = []
        for docs in seqs:
            for strict in (True, False):
                cases.append({'docs': docs, 'inc': True, 'strict': strict})
        model = engine.coll_cases(cases)
        tmp = tempfile.mkdtemp(prefix='mosverif-c09-')
        vio, dis, sigs, dist, samples = [], [], set(), {}, []
        n = 0
        try:
            for c, mo in zip(cases, model):
                want = None
                for how in ('strings', 'files', 's3'):
                    io = impl.run_coll(c['docs'], True, c['strict'], how=how, tmpdir=tmp)
                    n += 1
                    if 'err0' in io:
                        a = ('ctor', io['err0'])
                    else:
                        a = (io['err'], tuple(io['warns']), io['tree'])
                    b = ('ctor', mo['err0']) if 'err0' in mo else (mo['err'], tuple(mo['warns']), mo['tree'])
                    nfail = a[1].count('MosMergeNonStrictWarning') if len(a) == 3 else -1
                    sigs.add((len(c['docs']), nfail, c['strict'], how, a[0]))
                    dist['strict' if c['strict'] else 'non-strict'] = dist.get('strict' if c['strict'] else 'non-strict', 0) + 1
                    what = None
                    if len(a) == 3:
                        if want is None:
                            want = hand_fold(c['docs'], c['strict'])
                        w = (want['err'], tuple(want['warns']), want['tree'])
                        if a != w:
                            what = ('%s merge via from_%s differs from adding the messages one by one: %s'
                                    % ('strict' if c['strict'] else 'non-strict', how,
                                       'exception %r vs %r' % (a[0], w[0]) if a[0] != w[0] else
                                       'warnings' if a[1] != w[1] else 'running order'))
                    if how == 'strings' and len(a) == 3 and (n % 5 == 1) and not what:
                        what = self.second_merge(c, io, tmp)
                    if how == 'strings' and len(a) == 3 and (n % 7 == 3) and not c['strict'] and not what:
                        what = self.shared_readers(c['docs'])
                        if what:
                            c = dict(c, shared_readers=True)
                    if what:
                        vio.append({'what': what, 'case': {'kind': 'coll', 'docs': c['docs'], 'inc': True, 'strict': c['strict'], 'how': how},
                                    'impl': str(a[:2]), 'expected': str(w[:2])})
                    if a != b:
                        dis.append({'case': {'kind': 'coll', 'docs': c['docs'], 'strict': c['strict'], 'how': how},
                                    'impl': str(a[:2]), 'model': str(b[:2]), 'explained': bool(what)})
                    if len(samples) < 3 and len(a) == 3 and nfail > 0:
                        samples.append({'docs': c['docs'], 'strict': c['strict'], 'warnings': list(a[1])})
        finally:
            shutil.rmtree(tmp, ignore_errors=True)
        # translator tie: exc.py's hierarchy and the except clause of MosCollection.merge against is_merge_error
        import gentables
        gt = gentables.run(impl.REPO)
        if not gt['ok']:
            dis.append({'case': {'kind': 'translator', 'stage': gt['stage'], 'detail': gt['detail']},
                        'impl': 'exception hierarchy / except clause of MosCollection.merge', 'model': 'is_merge_error (work/GenTables.v does not check)',
                        'explained': bool(vio)})
        return {'evaluations': n, 'distinct': len(sigs), 'rule': self.rule, 'samples': samples, 'distribution': dist,
                'disagreements': dis, 'violations': vio, 'extra': {'sequences': len(seqs), 'translated_tables': gt}}

    def shared_readers(self, docs):
        """the same MosReader objects handed to two collections while the first is still alive (try strict, fall back to
        non-strict): the second merge equals the one-by-one fold of freshly read messages, whatever the first did"""
        import warnings
        from mosromgr.moscollection import MosCollection, MosReader
        with warnings.catch_warnings(record=True) as ws:
            warnings.simplefilter('always')
            try:
                readers = sorted(MosReader.from_string(t) for t in docs)
                mc1 = MosCollection(list(readers), allow_incomplete=True)
            except Exception:
                return None
            try:
                mc1.merge(strict=True)
            except Exception:
                pass
        with warnings.catch_warnings(record=True) as ws:
            warnings.simplefilter('always')
            err = None
            try:
                mc2 = MosCollection(list(readers), allow_incomplete=True)
                mc2.merge(strict=False)
            except Exception as e:
                err = type(e).__name__
        want = hand_fold(docs, False)
        got = (err, tuple(impl.wnames(ws)), X.elem_to_tree(mc2.ro.xml) if err is None or 'mc2' in dir() else None)
        w = (want['err'], tuple(want['warns']), want['tree'])
        if got != w:
            return ('a second collection over the same MosReader objects (first collection still alive) differs from adding the '
                    'messages one by one: %s' % ('exception %r vs %r' % (got[0], w[0]) if got[0] != w[0] else
                                                 'warnings' if got[1] != w[1] else 'running order'))
        return None

    def second_merge(self, c, io1, tmp):
        """merge() called again on the same collection: the same as merging the same messages into the state the
        first call left (for a completed running order: every message refused once more)"""
        from mosromgr.mostypes import MosFile, RunningOrder
        io = impl.run_coll(c['docs'], True, c['strict'], how='strings', tmpdir=tmp, again=True)
        objs = [MosFile.from_string(t) for t in c['docs']]
        order = sorted(range(len(objs)), key=lambda k: objs[k].message_id)
        ro_idx = [k for k in order if type(objs[k]) is RunningOrder][0]
        docs2 = list(c['docs'])
        try:
            docs2[ro_idx] = X.tree_to_string(io['tree'])
        except Exception:
            return None
        want = hand_fold(docs2, c['strict'])
        got = (io.get('err2'), tuple(io.get('warns2') or ()), io.get('tree2'))
        w = (want['err'], tuple(want['warns']), want['tree'])
        if got != w:
            return ('calling merge() a second time (%s) differs from adding the messages once more one by one: %s'
                    % ('strict' if c['strict'] else 'non-strict',
                       'exception %r vs %r' % (got[0], w[0]) if got[0] != w[0] else 'warnings %r vs %r' % (got[1], w[1]) if got[1] != w[1] else 'running order'))
        return None

    def replay(self, rep):
        case = rep.get('case') or {}
        if 'docs' not in case:
            return {'violation': False, 'note': str(rep.get('detail'))}
        tmp = tempfile.mkdtemp(prefix='mosverif-c09-')
        try:
            io = impl.run_coll(case['docs'], True, case['strict'], how=case.get('how', 'strings'), tmpdir=tmp)
        finally:
            shutil.rmtree(tmp, ignore_errors=True)
        if 'err0' in io:
            return {'violation': False, 'note': 'constructor raised ' + io['err0']}
        want = hand_fold(case['docs'], case['strict'])
        bad = (io['err'], io['warns'], io['tree']) != (want['err'], want['warns'], want['tree'])
        second = None
        if not bad and case.get('how', 'strings') == 'strings':
            second = self.second_merge(case, io, None) or self.shared_readers(case['docs'])
        return {'violation': bad or bool(second), 'impl_err': io['err'], 'want_err': want['err'],
                'impl_warns': io['warns'], 'want_warns': want['warns'], 'second_merge': second}

    def shrink(self, v):
        case = dict(v['case'])
        docs = list(case['docs'])
        changed = True
        while changed and len(docs) > 2:
            changed = False
            for k in range(len(docs)):
                cand = docs[:k] + docs[k + 1:]
                try:
                    r = self.replay({'case': dict(case, docs=cand)})
                except Exception:
                    continue
                if r.get('violation'):
                    docs = cand
                    changed = True
                    break
        v = dict(v)
        v['case'] = dict(case, docs=docs)
        return v
