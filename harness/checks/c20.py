"""C20 — message objects expose exactly the targets and sources the message names."""
import io
import contextlib
import gens
import impl
import engine
import exchange as X
from docs import to_text, ABSENT
from checks.base import corpus_cases
from checks.c06 import base_tag, texts
from checks.c03 import ids_in

LEVEL = 'proof'
ASSUMPTIONS = ['the accessor functions of the model (Messages.v / Inspect.v) are the ones the merge model uses; the theorems '
               'characterise them against the message; the differential run compares them with the Python properties']


def oid(obj):
    return [None] if obj is None else [obj.id]


def ids(objs):
    return [o.id for o in objs]


ACCESS = {
    'RunningOrder': lambda m: [('stories', ids(m.stories))],
    'StorySend': lambda m: [('story', oid(m.story))],
    'StoryAppend': lambda m: [('stories', ids(m.stories))],
    'StoryDelete': lambda m: [('stories', ids(m.stories))],
    'ItemDelete': lambda m: [('story', oid(m.story)), ('items', ids(m.items))],
    'StoryInsert': lambda m: [('target_story', oid(m.target_story)), ('source_stories', ids(m.source_stories))],
    'ItemInsert': lambda m: [('story', oid(m.story)), ('item', oid(m.item)), ('items', ids(m.items))],
    'StoryMove': lambda m: [('source_story', oid(m.source_story)), ('target_story', oid(m.target_story))],
    'ItemMoveMultiple': lambda m: [('story', oid(m.story)), ('item', oid(m.item)), ('items', ids(m.items))],
    'StoryReplace': lambda m: [('story', oid(m.story)), ('stories', ids(m.stories))],
    'ItemReplace': lambda m: [('story', oid(m.story)), ('item', oid(m.item)), ('items', ids(m.items))],
    'RunningOrderReplace': lambda m: [('stories', ids(m.stories))],
    'EAStoryReplace': lambda m: [('story', oid(m.story)), ('stories', ids(m.stories))],
    'EAItemReplace': lambda m: [('story', oid(m.story)), ('item', oid(m.item)), ('items', ids(m.items))],
    'EAStoryDelete': lambda m: [('stories', ids(m.stories))],
    'EAItemDelete': lambda m: [('story', oid(m.story)), ('items', ids(m.items))],
    'EAStoryInsert': lambda m: [('story', oid(m.story)), ('stories', ids(m.stories))],
    'EAItemInsert': lambda m: [('story', oid(m.story)), ('item', oid(m.item)), ('items', ids(m.items))],
    'EAStorySwap': lambda m: [('stories', ids(m.stories))],
    'EAItemSwap': lambda m: [('story', oid(m.story)), ('items', ids(m.items))],
    'EAStoryMove': lambda m: [('story', oid(m.story)), ('stories', ids(m.stories))],
    'EAItemMove': lambda m: [('story', oid(m.story)), ('item', oid(m.item)), ('items', ids(m.items))],
}
XML = {
    'StorySend': lambda m: [m.story.xml],
    'StoryAppend': lambda m: [s.xml for s in m.stories],
    'StoryInsert': lambda m: [s.xml for s in m.source_stories],
    'StoryReplace': lambda m: [s.xml for s in m.stories],
    'ItemInsert': lambda m: [s.xml for s in m.items],
    'ItemReplace': lambda m: [s.xml for s in m.items],
    'EAStoryReplace': lambda m: [s.xml for s in m.stories],
    'EAStoryInsert': lambda m: [s.xml for s in m.stories],
    'EAItemReplace': lambda m: [s.xml for s in m.items],
    'EAItemInsert': lambda m: [s.xml for s in m.items],
    'RunningOrder': lambda m: [s.xml for s in m.stories],
    'RunningOrderReplace': lambda m: [s.xml for s in m.stories],
}


def impl_access(text):
    try:
        m = impl.MosFile.from_string(text)
    except Exception as e:
        return {'classerr': impl.ename(e)}
    cls = type(m).__name__
    out = {'cls': cls}
    try:
        out['exposed'] = [(n, list(v)) for n, v in ACCESS.get(cls, lambda m: [])(m)]
    except Exception as e:
        out['exposed'] = 'err:' + impl.ename(e)
    try:
        out['xml'] = [X.elem_to_tree(x) for x in XML.get(cls, lambda m: [])(m)]
    except Exception as e:
        out['xml'] = 'err:' + impl.ename(e)
    buf = io.StringIO()
    try:
        with contextlib.redirect_stdout(buf):
            m.inspect()
        out['inspect'] = buf.getvalue()
    except Exception as e:
        out['inspect'] = 'err:' + impl.ename(e)
    return out


def model_access(texts_):
    lines = []
    for t in texts_:
        e = impl.parse_doc(t)
        lines.append('access %s %s' % (engine.oracle_prefix([e]), X.elem_line(e)))
    res = []
    for l in engine.run_model(lines):
        t = l.split(' ')
        if t[0] == 'classerr':
            res.append({'classerr': t[1]})
            continue
        r = X.Reader(t, 1)
        out = {'cls': t[0]}
        tok = r.next()
        if tok == 'Aerr':
            out['exposed'] = 'err:' + r.next()
        else:
            na = int(tok[1:])
            ex = []
            for _ in range(na):
                name = X.tok_s(r.next())
                n = int(r.next())
                ex.append((name, [X.tok_s(r.next()) for _ in range(n)]))
            out['exposed'] = ex
        tok = r.next()
        if tok == 'Xerr':
            out['xml'] = 'err:' + r.next()
        else:
            nx = int(tok[1:])
            out['xml'] = [r.tree() for _ in range(nx)]
        tok = r.next()
        if tok == 'Ierr':
            out['inspect'] = 'err:' + r.next()
        else:
            out['inspect'] = ''.join(X.tok_s(r.next()) + '\n' for _ in range(int(tok[1:])))
        res.append(out)
    return res


def messages(tier, rng):
    nmax = 2 if tier == 'quick' else 3
    seen = set()
    for n in range(0, nmax + 1):
        sids = gens.STORY_IDS[:n]
        for cls, doc, meta in gens.story_level_messages(sids, max_src=3 if tier == 'thorough' else 2, full_refs=True):
            for pretty in (False, True):
                t = to_text(doc, pretty=pretty)
                if t not in seen:
                    seen.add(t)
                    yield t, dict(meta, cls=cls, pretty=pretty)
        its = gens.ITEM_IDS[:n]
        for cls, doc, meta in gens.item_level_messages(['B', None, ABSENT], its, max_src=2):
            for pretty in (False, True):
                t = to_text(doc, pretty=pretty)
                if t not in seen:
                    seen.add(t)
                    yield t, dict(meta, cls=cls, pretty=pretty)
    # IDs as newsroom systems write them (semicolons, commas, dots, backslashes; two IDs with the same tail), IDs with
    # characters that mean something in paths / patterns, and IDs that only differ under some normalisation
    for sids_, its_ in ((gens.VENDOR_STORY_IDS, gens.VENDOR_ITEM_IDS), (gens.SPECIAL_STORY_IDS[:2], gens.SPECIAL_ITEM_IDS[:2]),
                        (gens.LOOKALIKE_STORY_IDS[:2], gens.LOOKALIKE_ITEM_IDS[:2])):
        for cls, doc, meta in gens.story_level_messages(sids_, max_src=2, full_refs=False):
            yield to_text(doc), dict(meta, cls=cls, pretty=False, odd_ids=True)
        for cls, doc, meta in gens.item_level_messages([sids_[1]], its_, max_src=2):
            yield to_text(doc), dict(meta, cls=cls, pretty=False, odd_ids=True)
    # IDs with leading / trailing white space are exposed as they are written
    for cls, doc, meta in gens.story_level_messages(gens.PADDED_STORY_IDS[:2], max_src=2, full_refs=False):
        for pretty in (False, True):
            yield to_text(doc, pretty=pretty), dict(meta, cls=cls, pretty=pretty, padded=True)
    for cls, doc, meta in gens.item_level_messages([gens.PADDED_STORY_IDS[1], '  '], gens.PADDED_ITEM_IDS, max_src=2):
        for pretty in (False, True):
            yield to_text(doc, pretty=pretty), dict(meta, cls=cls, pretty=pretty, padded=True)
    # carried elements whose payload holds elements named item / story / storyID / itemID
    for cls, doc, meta in gens.decoy_payload_messages():
        for pretty in (False, True):
            yield to_text(doc, pretty=pretty), dict(meta, cls=cls, pretty=pretty, decoy=True)
    for cls, doc, meta in gens.other_messages(['A', 'B']):
        for pretty in (False, True):
            yield to_text(doc, pretty=pretty), dict(meta, cls=cls, pretty=pretty)
    yield to_text(gens.make_ro(['A', 'B'], timing='mixed')), {'cls': 'RunningOrder', 'pretty': False}
    # roReplace whose fields carry surrounding white space, blank fields and fields with children only
    from docs import ro_replace, E
    d = ro_replace(5, [gens.new_story('R1')], slug='  padded slug \n')
    d[3].insert(2, E('roChannel', text=' \t '))
    d[3].insert(3, E('roEdStart', text='\n2020-01-01T10:00:00\n  '))
    d[3].insert(4, E('roTrigger'))
    yield to_text(d), {'cls': 'RunningOrderReplace', 'pretty': False}


class Check:
    pid = 'C20'
    rule = ('every story-level, item-level and other message of the exhaustive generators (all classes x 0..n sources over '
            '{existing, unknown, blank} x targets in {present, blank, absent}; IDs with leading / trailing white space) x {compact, pretty-printed}: the Python accessor '
            'values (IDs of target / sources / carried elements, the carried XML) and the text inspect() prints, compared with the '
            'model. distinct by (class, #sources, blank/absent pattern, pretty, inspect outcome)')

    def matches_known(self, k, v):
        return False

    def judge(self, text, a):
        """independent oracle on the implementation's values"""
        if 'classerr' in a:
            return None
        msg = X.elem_to_tree(impl.parse_doc(text))
        b = base_tag(msg)
        cls = a['cls']
        ex = a['exposed']
        if isinstance(ex, str):
            # reading what the message exposes raised.  Only three shapes do that in a message that still carries its roID:
            # a roCreate / roReplace whose story listing cannot be evaluated, a roItemMoveMultiple without any itemID and a
            # roStorySend without storyBody; a missing target container or a blank reference is reported as absent, never raised
            legit = cls in ('RunningOrder', 'RunningOrderReplace') or (cls == 'ItemMoveMultiple' and not texts(b[4], 'itemID')) or \
                (cls == 'StorySend' and not X.findall(b, 'storyBody'))
            if not legit and X.findall(b, 'roID'):
                return '%s: reading the exposed targets / sources raised %s' % (cls, ex[4:])
            return None
        d = dict(ex)

        def direct(tag):
            return texts(b[4], tag)

        def srcs(tag, first_only=False):
            es = X.findall(b, 'element_source')
            if first_only:
                es = es[:1]
            return [t for s in es for t in texts(s[4], tag)]
        want = {}
        if cls == 'StoryDelete':
            want['stories'] = direct('storyID')
        if cls == 'ItemDelete':
            want['items'] = direct('itemID')
        if cls == 'ItemMoveMultiple' and direct('itemID'):
            want['items'] = direct('itemID')[:-1]
            want['item'] = [direct('itemID')[-1]]
        if cls == 'StoryMove':
            t = direct('storyID')
            want['source_story'] = [t[0]] if t else [None]
            want['target_story'] = [t[1]] if len(t) > 1 else [None]
        if cls in ('EAStoryDelete', 'EAStoryMove'):
            want['stories'] = srcs('storyID')
        if cls == 'EAItemDelete':
            want['items'] = srcs('itemID')
        if cls == 'EAStorySwap':
            want['stories'] = srcs('storyID', True)
        if cls in ('EAItemSwap', 'EAItemMove'):
            want['items'] = srcs('itemID', True)
        # carried stories / items: exactly the direct children of the base tag (of the first element_source), in order
        def carried_ids(parent, tag, idtag):
            out = []
            for k in (parent[4] if parent else ()):
                if k[0] == tag:
                    c = X.find(k, idtag)
                    out.append(None if c is None else c[2])
            return out
        src0 = (X.findall(b, 'element_source') or [None])[0]
        if cls in ('StoryAppend', 'StoryReplace', 'RunningOrderReplace', 'RunningOrder'):
            want['stories'] = carried_ids(b, 'story', 'storyID')
        if cls == 'StoryInsert':
            want['source_stories'] = carried_ids(b, 'story', 'storyID')
        if cls in ('ItemInsert', 'ItemReplace'):
            want['items'] = carried_ids(b, 'item', 'itemID')
        if cls in ('EAStoryInsert', 'EAStoryReplace'):
            want['stories'] = carried_ids(src0, 'story', 'storyID')
        if cls in ('EAItemInsert', 'EAItemReplace'):
            want['items'] = carried_ids(src0, 'item', 'itemID')
        for name, vals in ex:
            if any(v == '' for v in vals):
                return '%s.%s reports a blank ID as %r instead of None' % (cls, name, vals)
        for k, v in want.items():
            if d.get(k) != v:
                return '%s.%s reports %r, the message names %r' % (cls, k, d.get(k), v)
        ins = a['inspect']
        shaped = not (cls in ('EAStorySwap',) and len(srcs('storyID', True)) != 2) and \
            not (cls == 'EAItemSwap' and len(srcs('itemID', True)) != 2) and \
            not (cls == 'StoryMove' and not direct('storyID')) and \
            bool(X.findall(b, 'roID')) and (cls not in ('RunningOrder', 'RunningOrderReplace') or bool(X.findall(b, 'roSlug')))   # required by the schema of every ro* message
        if ins.startswith('err:'):
            if shaped:
                return '%s.inspect() raised %s' % (cls, ins[4:])
            return None
        for k, v in want.items():
            if k in ('stories', 'items', 'source_story') and cls not in ('RunningOrderReplace', 'RunningOrder'):
                # (roCreate / roReplace outline their metadata, not their stories)
                for i in v:
                    if not (any(l.endswith(str(i)) for l in ins.split('\n')) or str(i) + '\n' in ins):     # (an ID may contain line feeds)
                        return '%s.inspect() does not mention source %r' % (cls, i)
        return None

    def run(self, tier, rng, log):
        msgs = [(c['text'], c.get('meta', {})) for c in corpus_cases(self.pid, 'access')] + list(messages(tier, rng))
        # structural neighbours (gens.mutate_doc) of the generated messages
        base = list(msgs)
        for _ in range(1500 if tier == 'quick' else 15000):
            t, meta = rng.choice(base)
            msgs.append((gens.mutate_doc(rng, t, None, n=rng.randrange(1, 4)), dict(meta, fuzzed=True)))
        texts_ = [t for t, _ in msgs]
        model = model_access(texts_)
        vio, dis, sigs, dist, samples = [], [], set(), {}, []
        for (t, meta), mo in zip(msgs, model):
            a = impl_access(t)
            cls = a.get('cls', 'classerr')
            dist[cls] = dist.get(cls, 0) + 1
            sigs.add((cls, str(a.get('exposed'))[:80], meta.get('pretty'), str(a.get('inspect')).startswith('err:')))
            what = self.judge(t, a)
            ia = (a.get('classerr'), a.get('cls'), [(n, v) for n, v in a['exposed']] if isinstance(a.get('exposed'), list) else a.get('exposed'),
                  a.get('xml'), a.get('inspect'))
            ma = (mo.get('classerr'), mo.get('cls'), mo.get('exposed'), mo.get('xml'), mo.get('inspect'))
            if what:
                vio.append({'what': what, 'case': {'kind': 'access', 'text': t, 'meta': meta}, 'impl': str(ia[2:3]) + str(ia[4]), 'expected': str(ma[2:3]) + str(ma[4])})
            if ia != ma:
                k = next(i for i in range(5) if ia[i] != ma[i])
                dis.append({'case': {'kind': 'access', 'text': t, 'meta': meta}, 'impl': str(ia[k])[:500], 'model': str(ma[k])[:500], 'explained': bool(what)})
            if len(samples) < 3 and cls in ('EAStoryMove', 'ItemMoveMultiple', 'StoryMove') and len(str(a.get('exposed'))) > 60:
                samples.append({'text': t, 'exposed': a.get('exposed'), 'inspect': a.get('inspect')})
        return {'evaluations': len(msgs), 'distinct': len(sigs), 'rule': self.rule, 'samples': samples, 'distribution': dist,
                'disagreements': dis, 'violations': vio, 'extra': {}}

    def replay(self, rep):
        case = rep.get('case') or {}
        if 'text' not in case:
            return {'violation': False, 'note': str(rep.get('detail'))}
        a = impl_access(case['text'])
        what = self.judge(case['text'], a)
        return {'violation': bool(what), 'what': what, 'impl': {k: str(v)[:300] for k, v in a.items()}}

    def shrink(self, v):
        return v
