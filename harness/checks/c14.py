"""C14 — every reachable running order serialises to XML that reads back identically."""
import gens
import impl
import engine
import exchange as X
from docs import (E, to_text, ro_replace, metadata_replace, ro_delete, story_send, p, payload, story_append, item_insert)
from checks.base import corpus_cases, rc_of
from checks.c04 import rich_story, SPECIAL

LEVEL = 'proof'
ASSUMPTIONS = ['PARTIAL: round trip proved for the model serialiser / parser pair on namespace-free element trees (wf_xml); expat on '
               'arbitrary documents is trusted; comments, processing instructions and namespaces are outside the claim',
               'known finding F18: U+000D in text (CPython serialiser), matched by "some text or tail of the state contains U+000D"']
CR = '%%CR%%'


def with_cr(text):
    return text.replace(CR, '&#13;')


def default_ns(text):
    """the elements of the namespace http://vendor/default written the way vendors write them: with a default namespace
    declaration (xmlns="...") instead of a prefix"""
    import re
    m = re.search(r'xmlns:(ns\d+)="http://vendor/default"', text)
    if not m:
        return text
    pfx = m.group(1)
    # ElementTree declares every prefix on the root; the declaration goes on the vendor's own top element instead
    text = text.replace(' xmlns:%s="http://vendor/default"' % pfx, '')
    text = text.replace('<%s:clip' % pfx, '<clip xmlns="http://vendor/default"')
    return text.replace('<%s:' % pfx, '<').replace('</%s:' % pfx, '</')


def with_refs(rng, text):
    """the same document with its non-ASCII characters written as numeric character references (half of the time): what
    reaches the tree that way never passed through any filter applied to the input text"""
    import re
    if rng.random() < 0.5:
        return text
    return re.sub('[^\x00-\x7f]', lambda m: ('&#x%X;' if rng.random() < 0.5 else '&#%d;') % ord(m.group()), text)


def histories(tier, rng):
    # completion records: every kind of roDelete (this running order, another one, blank roID, no roID tag), then a second
    # roDelete and another message, which must both be refused - at most one completion record, whatever the first said
    for layout in ('plain', 'trailing'):
        ro = to_text(gens.make_ro(['A', 'B'], layout=layout))
        for rid in ('RO1', 'OTHER', None, 'absent'):
            d = ro_delete(30, ro_id=None if rid == 'absent' else rid)
            if rid == 'absent':
                d[3].remove(d[3].find('roID'))
            yield {'ro': ro, 'msgs': [to_text(d), to_text(ro_delete(31)), to_text(story_append(32, [rich_story(rng, 'Z', 1)])), to_text(d)]}
    # the envelope's own fields after the message element, and content that holds elements named like them (messageID,
    # mosID, roID ... inside a payload): the envelope keeps its message ID whatever is merged
    from xml.etree import ElementTree as ET_
    for layout in ('decoys', 'plain'):
        root = gens.make_ro(['A', 'B'], layout=layout, message_id=1000)
        head = [c for c in root if c.tag in ('mosID', 'ncsID', 'messageID')]
        for c in head:
            root.remove(c)
        for c in head:
            root.append(c)
        carrier = gens.new_story('HD')
        carrier.find('item').append(gens.decoy_block())
        yield {'ro': to_text(root), 'msgs': [to_text(story_append(31, [carrier])), to_text(item_insert(32, 'HD', None, [gens.new_item('hd2')])),
                                             to_text(metadata_replace(33, [E('roSlug', text='after'), E('messageID', text='88')]))]}
    # vendor XML written with a default-namespace declaration, sent in a roStorySend and carried along by later merges
    clip = '<clip xmlns="http://vendor/default" rate="25"><id>c1</id><track xmlns="http://vendor/other">t</track></clip>'
    send = to_text(story_send(34, 'A', body=[p('text'), E('storyItem', E('itemID', text='ns1'), E('PLACEHOLDER'))], pre=[E('storySlug', text='with vendor xml')]))
    yield {'ro': to_text(gens.make_ro(['A', 'B'], layout='plain')),
           'msgs': [send.replace('<PLACEHOLDER />', clip), to_text(item_insert(35, 'A', None, [gens.new_item('after')])), to_text(story_append(36, [gens.new_story('Z9')]))]}
    n = 60 if tier == 'quick' else 600
    for h in range(n):
        sids = gens.STORY_IDS[:rng.randrange(1, 4)]
        ro_doc = gens.make_ro(sids, layout=rng.choice(gens.RO_LAYOUTS), timing=rng.choice(gens.TIMINGS))
        ro_doc.find('roCreate').find('roSlug') is not None and setattr(ro_doc.find('roCreate').find('roSlug'), 'text', rng.choice(SPECIAL) or 'Slug')
        if rng.random() < 0.4:
            gens.whitespace_mix(rng, ro_doc)
        ro = with_refs(rng, gens.vary_envelope(rng, to_text(ro_doc)))
        state = ro
        msgs = []
        c = [0]

        def fresh():
            c[0] += 1
            return 'K%d_%d' % (h, c[0])
        cr = (h % 10 == 9)
        # vendor XML in namespaces of its own (prefixed and default) in a quarter of the histories: the model codec has no
        # namespaces, so those states are judged by the round trip through the real serialiser and parser alone
        ns = (h % 4 == 2)
        for j in range(rng.randrange(2, 9)):
            cs, ci = gens.state_ids(state)
            r = rng.random()
            if r < 0.25:
                d = gens.random_story_message(rng, cs, 20 + j, fresh)
            elif r < 0.45:
                d = gens.random_item_message(rng, cs, ci, 20 + j, fresh)
            elif r < 0.6:
                d = story_append(20 + j, [rich_story(rng, fresh(), 2, ns)])
            elif r < 0.72:
                d = ro_replace(20 + j, [rich_story(rng, fresh(), 2, ns) for _ in range(rng.randrange(0, 3))], slug=rng.choice(SPECIAL) or 'x')
            elif r < 0.82:
                d = metadata_replace(20 + j, [E('roSlug', text=rng.choice(SPECIAL) or 's'), E('roChannel', text=rng.choice(SPECIAL) or None, kind=rng.choice(SPECIAL))])
            elif r < 0.92 and cs:
                d = story_send(20 + j, rng.choice(cs), body=[p(rng.choice(SPECIAL)), E('storyItem', E('itemID', text='q%d' % j), E('itemSlug', text=rng.choice(SPECIAL)),
                                                                                  *([E('{http://vendor/default}clip', E('{http://vendor/default}id', text='c1'), rate='25')] if ns else []))],
                               pre=[E('storySlug', text=(rng.choice(SPECIAL) + (CR if cr else '')))])
                if rng.random() < 0.5:
                    d[3].find('storyBody').set('Read1stMEMasBody', 'true')
            elif r < 0.96:
                # the completion record: a roDelete naming this / another / no running order; later ones must be refused
                d = ro_delete(20 + j, ro_id=rng.choice(['RO1', 'RO1', 'OTHER', None]))
                if rng.random() < 0.3:
                    d[3].remove(d[3].find('roID'))
            else:
                d = gens.make_ro(['X'], message_id=20 + j)
            if rng.random() < 0.4:
                gens.whitespace_mix(rng, d)
            t = with_refs(rng, gens.vary_envelope(rng, with_cr(default_ns(to_text(d)))))
            if rng.random() < 0.1:
                t = gens.mutate_doc(rng, t, state, n=1)
            msgs.append(t)
            if d[3].tag == 'roDelete' and rng.random() < 0.6:
                msgs.append(to_text(ro_delete(60 + j)))          # a second roDelete must be refused: one completion record
            res = impl.run_add(state, t)
            if 'tree' in res and not res.get('err'):
                try:
                    state = X.tree_to_string(res['tree'])
                except Exception:
                    pass
        yield {'ro': ro, 'msgs': msgs}


def safe(fn):
    try:
        return fn()
    except Exception as e:
        return ('raises', type(e).__name__)


def has_ns(tree):
    if tree[0].startswith('{') or any(k.startswith('{') for k in dict(tree[1])):
        return True
    return any(has_ns(k) for k in tree[4])


def has_cr(tree):
    if (tree[2] and '\r' in tree[2]) or (tree[3] and '\r' in tree[3]):
        return True
    return any(has_cr(k) for k in tree[4])


def live_view(ro):
    """what the live object reports"""
    try:
        return {'ro_id': ro.ro_id, 'slug': ro.ro_slug if ro.base_tag.find('roSlug') is not None else None,
                'completed': ro.completed, 'message_id': ro.message_id,
                'stories': [(s.id, [i.id for i in s.items]) for s in ro.stories]}
    except Exception as e:
        return {'error': type(e).__name__}


class Check:
    pid = 'C14'
    rule = ('seeded random histories of 2..8 messages of every kind (story / item level, appends of rich stories, roReplace, '
            'roMetadataReplace, roStorySend, roDelete, a second roCreate) with text drawn from {ASCII, & < > " \', ]]>, Latin-1, '
            'BMP, astral, leading / trailing white space, newlines, tabs} and, in one history out of ten, U+000D; after every step: '
            'the model serialiser against str(ro), the model parser against from_string, str(from_string(str(ro))) == str(ro), the '
            'live object against the re-read one (IDs, slug, stories, items, completed), the envelope. distinct by (step class, outcome)')

    def matches_known(self, k, v):
        if k.get('matcher', {}).get('type') == 'cr-in-text':
            return bool(v.get('cr'))
        return False

    def run(self, tier, rng, log):
        from mosromgr.mostypes import RunningOrder, MosFile
        import warnings
        cases = [c for c in corpus_cases(self.pid, 'hist')] + list(histories(tier, rng))
        vio, dis, sigs, samples = [], [], set(), []
        n = 0
        ser_lines, ser_want, parse_lines, parse_want, where = [], [], [], [], []
        for ci, c in enumerate(cases):
            try:
                ro = RunningOrder.from_string(c['ro'])
            except Exception as e:
                vio.append({'what': 'a well-formed running order document cannot be read: %s' % impl.ename(e), 'case': {'kind': 'hist', 'ro': c['ro'], 'msgs': []},
                            'cr': False, 'impl': impl.ename(e), 'expected': 'a RunningOrder'})
                continue
            orig_mid = safe(lambda: ro.message_id)
            try:
                own = impl.parse_doc(c['ro']).find('messageID')            # the envelope's own field: a direct child of the root
                if own is not None and own.text and own.text.strip().isdigit() and orig_mid != int(own.text):
                    vio.append({'what': 'the running order reports message ID %r, its envelope says %s' % (orig_mid, own.text.strip()),
                                'case': {'kind': 'hist', 'ro': c['ro'], 'msgs': []}, 'cr': False, 'impl': str(orig_mid), 'expected': own.text.strip()})
                    continue
            except Exception:
                pass
            orig_roid = safe(lambda: ro.ro_id)
            had_replace = False
            for k, mt in enumerate(c['msgs']):
                try:
                    m = MosFile.from_string(mt)
                except Exception:
                    continue
                with warnings.catch_warnings():
                    warnings.simplefilter('ignore')
                    try:
                        ro += m
                        err = None
                    except Exception as e:
                        err = type(e).__name__
                n += 1
                cls = type(m).__name__
                sigs.add((cls, err))
                case = {'kind': 'hist', 'ro': c['ro'], 'msgs': c['msgs'][:k + 1]}
                try:
                    tree = X.elem_to_tree(ro.xml)
                    text = str(ro)
                except Exception as e:
                    vio.append({'what': 'after step %d (%s) the running order cannot be serialised: %s' % (k, cls, type(e).__name__),
                                'case': case, 'cr': False, 'impl': type(e).__name__, 'expected': 'well-formed XML'})
                    break
                cr = has_cr(tree)
                what = None
                try:
                    back = RunningOrder.from_string(text)
                    if str(back) != text:
                        what = 'after step %d (%s) the serialised running order does not read back to the same serialisation' % (k, cls)
                    elif X.elem_to_tree(back.xml) != tree:
                        what = 'after step %d (%s) the running order read back differs from the live one' % (k, cls)
                    else:
                        lv, bv = live_view(ro), live_view(back)
                        if lv != bv:
                            what = 'after step %d (%s) the live running order reports %r, its serialisation reads back to %r' % (k, cls, lv, bv)
                except Exception as e:
                    what = 'after step %d (%s) the serialised running order cannot be read back: %s' % (k, cls, type(e).__name__)
                if what is None:
                    kids = [x[0] for x in tree[4]]
                    if kids.count('roCreate') != 1 or kids.count('mosromgrmeta') > 1:
                        what = 'after step %d (%s) the envelope has %d running-order elements and %d completion records' % (k, cls, kids.count('roCreate'), kids.count('mosromgrmeta'))
                    elif safe(lambda: ro.message_id) != orig_mid:
                        what = 'after step %d (%s) the message ID changed' % (k, cls)
                    elif safe(lambda: ro.ro_id) != orig_roid and cls != 'RunningOrderReplace' and not had_replace:
                        what = 'after step %d (%s) the running-order ID changed' % (k, cls)
                if cls == 'RunningOrderReplace' and not err:
                    had_replace = True
                if what:
                    vio.append({'what': what, 'case': case, 'cr': cr, 'impl': text[:300], 'expected': 'identical read-back'})
                    break
                # correspondence with the model codec (only where the theorem applies: no U+000D)
                if not cr and not has_ns(tree):
                    ser_lines.append('ser ' + X.tree_line(tree))
                    ser_want.append(text)
                    parse_lines.append('parse ' + X.s_tok(text))
                    parse_want.append(tree)
                    where.append(case)
            if len(samples) < 2:
                samples.append({'ro': c['ro'][:300], 'n_messages': len(c['msgs']), 'final': str(ro)[:400]})
        for case, got, want in zip(where, engine.run_model(ser_lines), ser_want):
            if X.tok_s(got) != want:
                dis.append({'case': case, 'impl': want[:300], 'model': (X.tok_s(got) or '')[:300], 'explained': False, 'what': 'serialiser'})
        for case, got, want in zip(where, engine.run_model(parse_lines), parse_want):
            t = got.split(' ')
            tree = X.Reader(t, 1).tree() if t[0] == 'some' else None
            if tree != want:
                dis.append({'case': case, 'impl': 'from_string tree', 'model': 'model parser differs', 'explained': False, 'what': 'parser'})
        return {'evaluations': n, 'distinct': len(sigs), 'rule': self.rule, 'samples': samples,
                'distribution': {'histories': len(cases), 'codec_comparisons': len(ser_lines)},
                'disagreements': dis, 'violations': vio, 'extra': {}}

    def replay(self, rep):
        case = rep.get('case') or {}
        if 'msgs' not in case:
            return {'violation': False, 'note': str(rep.get('detail'))}
        from mosromgr.mostypes import RunningOrder, MosFile
        import warnings
        ro = RunningOrder.from_string(case['ro'])
        for mt in case['msgs']:
            try:
                m = MosFile.from_string(mt)
            except Exception:
                continue
            with warnings.catch_warnings():
                warnings.simplefilter('ignore')
                try:
                    ro += m
                except Exception:
                    pass
        try:
            text = str(ro)
        except Exception as e:
            return {'violation': True, 'what': 'the running order cannot be serialised: ' + type(e).__name__}
        try:
            back = RunningOrder.from_string(text)
            bad = str(back) != text or live_view(ro) != live_view(back)
        except Exception:
            bad = True
        return {'violation': bad, 'cr': has_cr(X.elem_to_tree(ro.xml))}

    def shrink(self, v):
        return v
