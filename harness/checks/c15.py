"""C15 / C16 / C17 share the accessor report; this module holds the generators and C15."""
import itertools
from fractions import Fraction
import gens
import impl
import engine
import accessors
import exchange as X
from docs import (E, to_text, item, story, p, payload, ro_create, ro_head, story_insert, story_append, story_replace,
                  story_send, element_action, ref, story_delete)
from checks.base import corpus_cases

LEVEL = 'proof'
ASSUMPTIONS = ['stories have a storyID and items an itemID; durations / times that are present are numeric / parseable '
               '(float() and dateutil are oracles supplied per case); states are reached by merges that insert, append or replace '
               'stories with or without timing metadata']

TIMES = ['2020-01-01T10:00:00', '2021-06-30 23:59:59', '2020-01-01T10:00:00+01:00', '1 Jan 2020 10:00', None,
         # day and month that can be confused (day <= 12, day != month), fractions of a second, a trailing Z
         '2022-11-06T12:30:00', '03/04/2021 08:00', '2021-02-03 04:05:06.789', '2022-05-04T00:00:00Z']
TIME_TEXTS = [t for t in TIMES if t]
DURS = ['0', '1', '2.5', '10.125', '0.0', '3600', '7.875', '100.25', '0.1', '0.2', '12.34', '59.999999', '0.000001', '1e2', ' 7.3 ', '1799.99']


def rich_story(rng, sid, timing=None):
    """a story with a random subset of the optional metadata"""
    kids = []
    if timing is None:
        timing = rng.choice(['duration', 'text+media', 'text', 'media', 'none', 'nopayload', 'nometa'])
    pl = []
    if timing == 'duration':
        pl.append(E('StoryDuration', text=rng.choice(DURS)))
        if rng.random() < 0.3:
            pl.append(E('TextTime', text=rng.choice(DURS)))
    elif timing == 'text+media':
        pl += [E('TextTime', text=rng.choice(DURS)), E('MediaTime', text=rng.choice(DURS))]
    elif timing == 'text':
        pl.append(E('TextTime', text=rng.choice(DURS)))
    elif timing == 'media':
        pl.append(E('MediaTime', text=rng.choice(DURS)))
    if pl and rng.random() < 0.15:
        # a field twice in one payload, with another value: the first one counts
        first = rng.choice(pl)
        pl.append(E(first.tag, text=rng.choice([d for d in DURS if d != first.text])))
    if rng.random() < 0.25:
        pl.append(E('StoryStarted', text=rng.choice(TIME_TEXTS)))
        if rng.random() < 0.3:
            pl.append(E('StoryStarted', text=rng.choice(TIME_TEXTS)))
    if rng.random() < 0.25:
        pl.append(E('StoryEnded', text=rng.choice(TIME_TEXTS)))
    body = []
    for j in range(rng.randrange(0, 4)):
        r = rng.random()
        if r < 0.5:
            extra = []
            blank = rng.random() < 0.15              # optional tags that are present but empty
            if rng.random() < 0.5:
                extra.append(E('objID', text=None if blank else 'obj%d' % j))
            if rng.random() < 0.4:
                extra.append(E('mosID', text=None if blank else 'mos.id'))
            if rng.random() < 0.4:
                extra.append(E('objType', text=None if blank else 'VIDEO'))
            if rng.random() < 0.5:
                shape = rng.random()
                if shape < 0.6:
                    note = E('studioCommand', E('text', text='note %d' % j), type=rng.choice(['note', 'other']))
                elif shape < 0.75:
                    note = E('studioCommand', type='note')                                  # a note command without <text>
                elif shape < 0.9:
                    note = E('studioCommand', E('title', text='only a title'), type='note')
                else:
                    note = E('studioCommand', E('text'), type='note')                       # <text/> present but empty
                extra.append(E('mosExternalMetadata', E('mosPayload', E('studioCommands', E('studioCommand', type='x'), note))))
            if rng.random() < 0.15:
                extra.append(gens.decoy_block())     # nested story / item / p / StoryDuration inside the item's payload
            it = item('i%d' % j, slug=('slug %d' % j) if rng.random() < 0.7 else None, extra=extra)
            if blank:
                it.insert(1, E('itemSlug'))
            body.append(it)
        else:
            body.append(p(rng.choice(['hello', '  spaced  ', '(note)', '<tech>', '(half', 'half>', '(a) and (b)', '', None,
                                      ' ', ' wide ', ' nbsp ', '((nested))', '<a>b<c>', 'Zoë says ☃', '\t(tabbed)\n', '(mixed>', '<mixed)', '(a) b <c>', '<x) y (z>', ')(', '><',
                                      '\U0001F600 breaking \U0001D538', '\U00020000', '&amp; more', '&lt;x&gt;', '&nbsp;', '&#233;t&#233;', 'fish &chips &copy 2020', '(CAPTION: JANE\nReporter)', '<CAM 2\n   wide shot>', '\n  (padded\nnote)\n', 'two\nlines', '(half\nopen', '()', '<>'])))
    if rng.random() < 0.2:
        body.append(E('pi', text='other element'))
    meta = None
    if timing == 'nopayload':
        meta = E('mosExternalMetadata', E('mosSchema', text='x'))
    elif timing != 'nometa':
        meta = E('mosExternalMetadata', E('mosSchema', text='http://s'), E('mosPayload', *pl))
    st = story(sid, body=body, slug=('Story %s' % sid) if rng.random() < 0.8 else None, meta=meta)
    r = rng.random()
    if r < 0.3:
        # further metadata blocks of other schemas: only the first block of the story (and its first mosPayload) counts
        other = E('mosExternalMetadata', E('mosSchema', text='http://other'),
                  E('mosPayload', E('StoryDuration', text='99'), E('TextTime', text='98'), E('MediaTime', text='5'),
                    E('StoryStarted', text=TIMES[1]), E('StoryEnded', text=TIMES[0])))
        kids = list(st)
        firsts = [i for i, c in enumerate(kids) if c.tag == 'mosExternalMetadata']
        if r < 0.12 or not firsts:
            st.append(other)                                             # after everything else
        elif r < 0.2:
            st.insert(firsts[0] + 1, other)                              # right after the first block
        elif r < 0.25:
            st.insert(firsts[0], E('mosExternalMetadata', E('mosSchema', text='http://empty')))   # a block without payload first
        else:
            kids[firsts[0]].append(E('mosPayload', E('StoryDuration', text='77'), E('StoryStarted', text=TIMES[1])))   # a second payload
    return st


def rich_ro(rng, n, all_timed=False, dup_ids=False):
    kids = ro_head()
    if rng.random() < 0.1:
        kids = [E('roID', text='RO1'), E('roSlug')]          # a slug that is present but empty
    elif rng.random() < 0.05:
        kids = [E('roID')]                                   # a blank roID and no slug at all
    st = rng.choice(TIMES)
    if st is not None:
        kids.append(E('roEdStart', text=st))
    if rng.random() < 0.3:
        # an editorial duration of the running order (MOS roEdDur): not what ro.duration reports
        kids.append(E('roEdDur', text=rng.choice(['00:01:00', '01:00:00', '00:00:00', '1:2:3', ''])))
    for k in range(n):
        j = k if not (dup_ids and k == n - 1 and n > 1) else 0
        sid = gens.STORY_IDS[j] if j < len(gens.STORY_IDS) else 'S%d' % j
        kids.append(rich_story(rng, sid, timing=rng.choice(['duration', 'text+media', 'text', 'media']) if all_timed else None))
        if rng.random() < 0.2:
            kids.append(E('roTrigger', text='x'))
    return ro_create(kids)


def states(tier, rng):
    """running orders, and states reached from them by merges that add stories with / without timing"""
    n = 400 if tier == "quick" else 4000
    for r in range(n):
        ro = to_text(rich_ro(rng, rng.randrange(0, 6 if tier == 'quick' else 12), all_timed=rng.random() < 0.4, dup_ids=rng.random() < 0.05))
        yield ro, {'kind': 'initial'}
        state = ro
        for step in range(rng.randrange(0, 4)):
            sids, _ = gens.state_ids(state)
            new = [rich_story(rng, 'N%d_%d_%d' % (r, step, j)) for j in range(rng.randrange(1, 3))]
            c = rng.random()
            if c < 0.3:
                d = story_append(50 + step, new)
            elif c < 0.55 and sids:
                d = story_insert(50 + step, rng.choice(sids), new)
            elif c < 0.75 and sids:
                d = story_replace(50 + step, rng.choice(sids), new)
            elif c < 0.85 and sids:
                d = story_delete(50 + step, [rng.choice(sids)])
            elif sids:
                d = story_send(50 + step, rng.choice(sids), body=[p('sent'), E('storyItem', E('itemID', text='si'))],
                               post=[payload(duration=rng.choice(DURS))] if rng.random() < 0.5 else [])
            else:
                d = story_append(50 + step, new)
            res = impl.run_add(state, to_text(d))
            if 'tree' in res and not res.get('err'):
                state = X.tree_to_string(res['tree'])
                yield state, {'kind': 'after-' + res['cls']}


def story_local(s):
    """the accessors of a Story that are functions of its own element alone (the model: story_id, story_slug,
    item listing, story_body, story_script, story_duration)"""
    def safe(f):
        try:
            return f()
        except Exception as e:
            return 'raises ' + type(e).__name__
    return {'id': safe(lambda: s.id), 'slug': safe(lambda: s.slug),
            'items': safe(lambda: [(i.id, i.slug, i.object_id, i.note) for i in s.items]),
            'body': safe(lambda: [x if isinstance(x, str) else ('item', x.id) for x in s.body]),
            'script': safe(lambda: list(s.script)), 'duration': safe(lambda: s.duration)}


def held_objects(tier, rng):
    """Story objects obtained before a merge are views of their element: after the merge, every one whose element
    is still in the running order must report what a freshly obtained Story of the same element reports.
    Yields (n comparisons, violations)."""
    import warnings
    from mosromgr.mostypes import RunningOrder, MosFile
    from docs import item_insert, item_delete, item_replace, item_move_multiple, element_action, ref, ea_target, item
    n, vio = 0, []
    for h in range(40 if tier == 'quick' else 400):
        ro_text = to_text(rich_ro(rng, rng.randrange(1, 5), all_timed=rng.random() < 0.5))
        msgs = []
        with warnings.catch_warnings():
            warnings.simplefilter('ignore')
            ro = RunningOrder.from_string(ro_text)
            for step in range(rng.randrange(1, 5)):
                try:
                    held = ro.stories
                except Exception:
                    break
                for st in held:
                    story_local(st)                       # read everything once, as a caller displaying the story would
                sids, items = gens.state_ids(str(ro))
                if not sids:
                    break
                sid = rng.choice(sids)
                its = items.get(sid, [])
                c = rng.random()
                if c < 0.25:
                    d = item_insert(70 + step, sid, rng.choice(its + [None]), [item('h%d_%d' % (h, step), slug='held')])
                elif c < 0.45 and its:
                    d = item_delete(70 + step, sid, [rng.choice(its)])
                elif c < 0.6 and its:
                    d = item_replace(70 + step, sid, rng.choice(its), [item('r%d_%d' % (h, step), slug='repl')])
                elif c < 0.75 and len(its) > 1:
                    d = item_move_multiple(70 + step, sid, [its[-1], its[0]])
                elif c < 0.85 and its:
                    d = element_action(70 + step, 'DELETE', [ref('storyID', sid)], [[ref('itemID', rng.choice(its))]])
                else:
                    d = story_send(70 + step, sid, body=[p('resent'), E('storyItem', E('itemID', text='s%d' % step))])
                if rng.random() < 0.35:
                    # the same story again with other timing data (its ID and place stay)
                    new = rich_story(rng, sid)
                    d = rng.choice([story_replace(70 + step, sid, [new]),
                                    story_send(70 + step, sid, body=[p('resent'), E('storyItem', E('itemID', text='s%d' % step))],
                                               post=[payload(duration=rng.choice(DURS))])])
                if rng.random() < 0.15:
                    # the whole content re-sent (same and new story IDs), or the running-order metadata replaced: whatever the
                    # object remembered about its content must not survive this
                    from docs import ro_replace, metadata_replace
                    d = rng.choice([ro_replace(70 + step, [rich_story(rng, x) for x in (sids[:2] + ['RR%d_%d' % (h, step)])]),
                                    ro_replace(70 + step, [rich_story(rng, 'RS%d_%d' % (h, step))]),
                                    metadata_replace(70 + step, [E('roSlug', text='replaced %d' % step), E('roEdStart', text=rng.choice(TIME_TEXTS))])])
                t = to_text(d)
                msgs.append(t)
                try:
                    ro += MosFile.from_string(t)
                except Exception:
                    continue
                # the live object reports what a freshly parsed copy of its document reports
                n += 1
                live, reread = accessors.report_obj(ro), accessors.report(str(ro))
                if live != reread:
                    la, lb = live.split(' '), reread.split(' ')
                    k = next((k for k, (x, y) in enumerate(zip(la, lb)) if x != y), min(len(la), len(lb)))
                    vio.append({'what': 'after a %s the running-order object reports %r where a freshly parsed copy of its own document reports %r'
                                        % (d[3].tag, ' '.join(la[max(0, k - 2):k + 1]), ' '.join(lb[max(0, k - 2):k + 1])),
                                'case': {'kind': 'held', 'ro': ro_text, 'msgs': list(msgs)}, 'impl': live[:300], 'expected': reread[:300]})
                    break
                try:
                    fresh = {id(f.xml): f for f in ro.stories}
                except Exception as e:
                    if well_formed(impl.parse_doc(str(ro)).find('roCreate')):
                        vio.append({'what': 'after a %s evaluating ro.stories raised %s' % (d[3].tag, type(e).__name__),
                                    'case': {'kind': 'held', 'ro': ro_text, 'msgs': list(msgs)}, 'impl': type(e).__name__, 'expected': 'a list of stories'})
                    break
                for st in held:
                    f = fresh.get(id(st.xml))
                    if f is None:
                        continue                          # its element was replaced or removed: no longer part of the state
                    n += 1
                    a, b = story_local(st), story_local(f)
                    if a != b:
                        k = next(k for k in a if a[k] != b[k])
                        vio.append({'what': 'a Story object obtained before a %s reports %s = %r afterwards; its element in the running order gives %r'
                                            % (d[3].tag, k, a[k], b[k]),
                                    'case': {'kind': 'held', 'ro': ro_text, 'msgs': list(msgs)}, 'impl': str(a[k])[:300], 'expected': str(b[k])[:300]})
                        break
    return n, vio


def replay_held(case):
    import warnings
    from mosromgr.mostypes import RunningOrder, MosFile
    with warnings.catch_warnings():
        warnings.simplefilter('ignore')
        ro = RunningOrder.from_string(case['ro'])
        for t in case['msgs']:
            held = ro.stories
            for st in held:
                story_local(st)
            try:
                ro += MosFile.from_string(t)
            except Exception:
                continue
            if accessors.report_obj(ro) != accessors.report(str(ro)):
                return {'violation': True, 'live': accessors.report_obj(ro)[:400], 'reread': accessors.report(str(ro))[:400]}
            try:
                fresh = {id(f.xml): f for f in ro.stories}
            except Exception as e:
                return {'violation': bool(well_formed(impl.parse_doc(str(ro)).find('roCreate'))), 'stories_raised': type(e).__name__}
            for st in held:
                f = fresh.get(id(st.xml))
                if f is not None and story_local(st) != story_local(f):
                    return {'violation': True, 'held': str(story_local(st))[:400], 'fresh': str(story_local(f))[:400]}
    return {'violation': False}


class ReportCheck:
    """compare the accessor report section by section; subclasses pick the fields and the oracle"""
    pid = None
    fields_ro = ()
    fields_story = ()

    def matches_known(self, k, v):
        return False

    def project(self, rep):
        if rep in ('norc',):
            return rep
        sec = accessors.sections(rep)
        ro = tuple(self.grab(sec['ro'], f) for f in self.fields_ro)
        st = tuple(tuple(self.grab(s, f) for f in self.fields_story) for s in sec['stories'])
        return (ro, st)

    @staticmethod
    def grab(section, name):
        """the tokens from name= up to the next field"""
        toks = section.split(' ')
        out = None
        for t in toks:
            if out is not None:
                if '=' in t and t.split('=')[0] in KNOWN_FIELDS:
                    break
                out.append(t)
            elif t.startswith(name + '='):
                out = [t[len(name) + 1:]]
        return None if out is None else ' '.join(out)

    def oracle(self, text, rep, meta):
        return None

    def run(self, tier, rng, log):
        cases = [(c['ro'], c.get('meta', {})) for c in corpus_cases(self.pid, 'state')] + list(states(tier, rng))
        base = list(cases)
        for _ in range(300 if tier == 'quick' else 3000):           # structural neighbours (gens.mutate_doc)
            t, meta = rng.choice(base)
            cases.append((gens.mutate_doc(rng, t, None, n=rng.randrange(1, 4)), {'kind': 'fuzzed'}))
        texts = [t for t, _ in cases]
        model = accessors.model_reports(texts)
        vio, dis, sigs, dist, samples = [], [], set(), {}, []
        for (t, meta), mo in zip(cases, model):
            rep = accessors.report(t)
            a, b = self.project(rep), self.project(mo)
            dist[meta.get('kind', '?')] = dist.get(meta.get('kind', '?'), 0) + 1
            sigs.add(hash(a))
            what = self.oracle(t, rep, meta)
            if what:
                vio.append({'what': what, 'case': {'kind': 'state', 'ro': t, 'meta': meta}, 'impl': str(a)[:600], 'expected': str(b)[:600]})
            if a != b:
                dis.append({'case': {'kind': 'state', 'ro': t, 'meta': meta}, 'impl': str(a)[:600], 'model': str(b)[:600], 'explained': bool(what)})
            if len(samples) < 2 and len(t) < 2500 and meta.get('kind') != 'initial':
                samples.append({'ro': t, 'report': rep[:800]})
        extra = {}
        if self.pid in ('C15', 'C16', 'C17'):
            hn, hvio = held_objects(tier, rng)
            vio += hvio
            extra['held_story_comparisons'] = hn
        return {'evaluations': len(cases) + extra.get('held_story_comparisons', 0), 'distinct': len(sigs), 'rule': self.rule, 'samples': samples, 'distribution': dist,
                'disagreements': dis, 'violations': vio, 'extra': extra}

    def replay(self, rep):
        case = rep.get('case') or {}
        if case.get('kind') == 'held':
            return replay_held(case)
        if 'ro' not in case:
            return {'violation': False, 'note': str(rep.get('detail'))}
        r = accessors.report(case['ro'])
        what = self.oracle(case['ro'], r, case.get('meta', {}))
        mo = accessors.model_reports([case['ro']])[0]
        return {'violation': bool(what), 'what': what, 'agrees_with_model': self.project(r) == self.project(mo)}

    def shrink(self, v):
        from checks.base import drop_variants
        if v['case'].get('kind') == 'held':
            return v
        case = dict(v['case'])
        budget = 200
        changed = True
        while changed and budget > 0:
            changed = False
            for cand in drop_variants(case['ro']):
                budget -= 1
                if budget <= 0:
                    break
                try:
                    what = self.oracle(cand, accessors.report(cand), case.get('meta', {}))
                except Exception:
                    continue
                if what:
                    case['ro'] = cand
                    v = dict(v, what=what, case=case)
                    changed = True
                    break
        return v


KNOWN_FIELDS = {'completed', 'roid', 'roslug', 'start', 'end', 'duration', 'script', 'body', 'stories', 'id', 'slug', 'dur', 'off', 'items'}


def xml_facts(text):
    """direct reads of the document, independent of the library"""
    root = impl.parse_doc(text)
    rc = root.find('roCreate')
    out = []
    for s in rc.findall('story'):
        sid = s.find('storyID')
        slug = s.find('storySlug')
        out.append({'id': None if sid is None else sid.text, 'slug': None if slug is None else slug.text,
                    'items': [(None if i.find('itemID') is None else i.find('itemID').text,
                               None if i.find('itemSlug') is None else i.find('itemSlug').text,
                               None if i.find('objID') is None else i.find('objID').text) for i in s.findall('item')],
                    'elem': s})
    return rc, out


def well_formed(rc):
    """the guards of the property: stories have a storyID, items an itemID, numeric / parseable timing data"""
    if rc is None:
        return False
    ed = rc.find('roEdStart')
    if ed is not None and ed.text is not None and impl.time_us(ed.text) is None:
        return False
    for s in rc.findall('story'):
        if s.find('storyID') is None:
            return False
        for i in s.findall('item'):
            if i.find('itemID') is None:
                return False
        md = s.find('mosExternalMetadata')
        pl = None if md is None else md.find('mosPayload')
        if pl is not None:
            for t in ('StoryDuration', 'TextTime', 'MediaTime'):
                e = pl.find(t)
                if e is not None and (e.text is None or impl.num_us(e.text) is None):
                    return False
            for t in ('StoryStarted', 'StoryEnded'):
                e = pl.find(t)
                if e is not None and (e.text is None or impl.time_us(e.text) is None):
                    return False
    return True


class Check(ReportCheck):
    pid = 'C15'
    fields_ro = ('completed', 'roid', 'roslug', 'start', 'end', 'duration', 'script', 'body', 'stories')
    fields_story = ('id', 'slug', 'dur', 'off', 'start', 'end', 'script', 'body', 'items')
    rule = ('seeded random running orders of 0..5 [0..11] stories carrying every subset of {mosExternalMetadata, mosPayload, '
            'StoryDuration, TextTime, MediaTime, StoryStarted, StoryEnded, slug, items with/without objID / mosID / objType / note, '
            'roEdStart in 4 formats}, and the states reached from them by append / insert / replace / delete / roStorySend of stories '
            'with and without timing; every documented read accessor is evaluated (a raised exception is a value of the report); '
            'nested decoy elements (story / item / p / StoryDuration inside an item payload); Story objects held across item-level '
            'merges must keep reporting what their element holds. distinct by the whole report')

    def oracle(self, text, rep, meta):
        if rep == 'norc':
            return None
        import re
        rc0 = impl.parse_doc(text).find('roCreate')
        rep0 = rep
        for tag, field in (('roID', 'roid'), ('roSlug', 'roslug')):
            if rc0 is not None and rc0.find(tag) is None:
                # roID / roSlug are required children of roCreate: ro.ro_id / ro.ro_slug raising without them is no claim
                rep = re.sub(r' %s=E\w+' % field, '', rep)
        m = re.search(r'(?:=| )E(\w+)', rep)            # field=E<exception>, or an item field token E<exception>
        rep = rep0
        if m:
            if not well_formed(impl.parse_doc(text).find('roCreate')):
                return None
            return 'a read accessor raised %s' % m.group(1)
        rc, facts = xml_facts(text)
        if not well_formed(rc):
            return None
        sec = accessors.sections(rep)
        if len(sec['stories']) != len(facts):
            return 'ro.stories lists %d stories, the document has %d' % (len(sec['stories']), len(facts))
        for s, f in zip(sec['stories'], facts):
            if self.grab(s, 'id') != X.s_tok(f['id']) or self.grab(s, 'slug') != X.s_tok(f['slug']):
                return 'story accessor (id, slug) disagrees with the document for story %r' % f['id']
            items = s.split(' items=')[1].split(' ; ')
            if int(items[0].split(' ')[0]) != len(f['items']):
                return 'story %r lists %s items, the document has %d' % (f['id'], items[0], len(f['items']))
            for it, (iid, islug, oid) in zip(items[1:], f['items']):
                t = it.split(' ')
                if t[0] != X.s_tok(iid) or t[1] != X.s_tok(islug) or t[3] != X.s_tok(oid):
                    return 'item accessors disagree with the document for item %r of story %r' % (iid, f['id'])
            pl = f['elem'].find('mosExternalMetadata')
            pl = None if pl is None else pl.find('mosPayload')
            has_dur = pl is not None and any(pl.find(t) is not None for t in ('StoryDuration', 'TextTime', 'MediaTime'))
            if not has_dur and self.grab(s, 'dur') != 'N':
                return 'story %r has no duration data but duration is %s' % (f['id'], self.grab(s, 'dur'))
            if has_dur and self.grab(s, 'dur') == 'N':
                return 'story %r has duration data but duration is None' % f['id']
        ids = [f['id'] for f in facts]
        if len(set(ids)) == len(ids):
            known = True
            for s, f in zip(sec['stories'], facts):
                if known != (self.grab(s, 'off') != 'N'):
                    return 'story %r: offset is %s although %s' % (f['id'], self.grab(s, 'off'),
                                                                  'every earlier story has a duration' if known else 'an earlier story has no duration')
                if self.grab(s, 'dur') == 'N':
                    known = False
        return None
