"""C01 — story order after any story-level merge follows the MOS protocol."""
import collections
import exchange as X
import gens
import impl
from docs import to_text
from checks.base import AddCheck, story_ids, rc_of, child_tags, err_class

LEVEL = 'proof'
ASSUMPTIONS = [
    'theorems are about the hand-written Gallina model (coq/theories/Merge.v, Seq.v); the correspondence run ties it to /repo',
    'order theorem hypotheses: every <story> has a <storyID>, story IDs unique, schema-shaped message, references resolve (proto_story)',
    'durations present in the running order are numeric (roStoryInsert / roElementAction INSERT evaluate them)',
]
STORY_CLASSES = {'StorySend', 'StoryAppend', 'StoryDelete', 'StoryInsert', 'StoryMove', 'StoryReplace',
                 'EAStoryReplace', 'EAStoryDelete', 'EAStoryInsert', 'EAStorySwap', 'EAStoryMove'}
CONSERVING = {'StoryMove', 'EAStoryMove', 'EAStorySwap'}


def history_states(rng, n_hist, max_steps, max_stories=8):
    """running-order texts reached by random merge histories (run on the implementation)"""
    out = []
    for h in range(n_hist):
        n0 = rng.randrange(0, 5)
        state = to_text(gens.make_ro(gens.STORY_IDS[:n0], layout=rng.choice(gens.RO_LAYOUTS),
                                     para_layout=rng.choice(gens.PARA_LAYOUTS), timing='all'))
        counter = [0]

        def fresh():
            counter[0] += 1
            return 'N%d_%d' % (h, counter[0])
        for step in range(rng.randrange(1, max_steps + 1)):
            sids, items = gens.state_ids(state)
            if len(sids) > max_stories:
                doc = gens.story_delete(100 + step, sids[:3])
            elif rng.random() < 0.7:
                doc = gens.random_story_message(rng, sids, 100 + step, fresh)
            else:
                doc = gens.random_item_message(rng, sids, items, 100 + step, fresh)
            r = impl.run_add(state, to_text(doc))
            if 'tree' in r:
                state = X.tree_to_string(r['tree'])
        out.append(state)
    return out


class Check(AddCheck):
    pid = 'C01'
    rule = ('exhaustive: running orders with 0..n stories x 4 metadata layouts x every story-level message '
            '(11 classes) with every ordered selection of source IDs from {existing, unknown, blank} and every '
            'target in {each story, unknown, blank, absent}; plus seeded random story-level messages applied to '
            'states reached by random merge histories. non-trivial = the merge changed the document, warned or '
            'raised; distinct by (class, #stories, layout, outcome class, warning categories)')

    def gen(self, tier, rng):
        n_max, max_src = (3, 2) if tier == 'quick' else (5, 3)
        yield from gens.merge_cases_story(n_max=n_max, max_src=max_src)
        yield from gens.merge_cases_multi_move('story', rng)
        yield from gens.merge_cases_padded()
        yield from gens.merge_cases_special_ids()
        yield from gens.merge_cases_decoy_payload()
        n_hist = 150 if tier == 'quick' else 1500
        for state in history_states(rng, n_hist, 10):
            sids, _ = gens.state_ids(state)
            k = [0]

            def fresh():
                k[0] += 1
                return 'F%d' % k[0]
            for j in range(4):
                doc = gens.random_story_message(rng, sids, 500 + j, fresh)
                yield {'ro': state, 'msg': to_text(doc), 'meta': {'cls': doc[3].tag, 'n': len(sids), 'layout': 'history'}}

    def obs(self, o):
        if 'classerr' in o:
            return ('classerr', o['classerr'])
        return (err_class(o), tuple(map(repr, story_ids(o['tree']) or [])), tuple(child_tags(rc_of(o['tree'])) or []))

    def violation(self, case, io, claim, before):
        if 'classerr' in io:
            return None
        cls = io.get('cls')
        if cls not in STORY_CLASSES:
            return None
        ids0 = story_ids(before)
        after = story_ids(io['tree'])
        if cls in CONSERVING:
            b = collections.Counter(rc_of(before)[4])
            a = collections.Counter(rc_of(io['tree'])[4])
            if a != b:
                return '%s added or lost a child of roCreate' % cls
            if io.get('err') and rc_of(before)[4] != rc_of(io['tree'])[4]:
                return '%s raised %s but reordered the running order' % (cls, io['err'])
        if claim and claim[0] == 'story' and len(set(map(repr, ids0))) == len(ids0):
            if io.get('err'):
                return '%s raised %s although every reference resolves' % (cls, io['err'])
            if after != claim[1]:
                return '%s: story IDs %r, protocol demands %r' % (cls, after, claim[1])
        return None
