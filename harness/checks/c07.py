"""C07 — completion by roDelete is faithful, terminal and survives a round trip."""
import gens
import impl
import engine
import exchange as X
from docs import (to_text, ro_delete, ready_to_air, metadata_replace, ro_replace, E, story_send, p, story_append)
from checks.base import corpus_cases, rc_of

LEVEL = 'proof'
ASSUMPTIONS = [
    'C07_rodelete_marks / C07_terminal / C07_never_spurious are proved for the model; the round trip through '
    'serialisation is proved in C14 for the model codec and checked here on the real serialiser and parser',
]


def one_of_each(sids, items, rng, mid0):
    """one message of each of the 25 classes"""
    k = [0]

    def fresh():
        k[0] += 1
        return 'z%d' % k[0]
    docs = []
    seen = set()
    tries = 0
    while len(seen) < 20 and tries < 400:
        tries += 1
        d = gens.random_story_message(rng, sids, mid0 + tries, fresh) if rng.random() < 0.5 else \
            gens.random_item_message(rng, sids, items, mid0 + tries, fresh)
        t = to_text(d)
        try:
            cls = type(impl.MosFile.from_string(t)).__name__
        except Exception:
            continue
        if cls not in seen:
            seen.add(cls)
            docs.append(t)
    docs.append(to_text(ready_to_air(mid0 + 500)))
    docs.append(to_text(metadata_replace(mid0 + 501, [E('roSlug', text='x')])))
    docs.append(to_text(ro_replace(mid0 + 502, [gens.new_story('R')])))
    docs.append(to_text(ro_delete(mid0 + 503)))
    docs.append(to_text(gens.make_ro(['X'], message_id=mid0 + 504)))
    return docs


def histories(tier, rng):
    n = 40 if tier == 'quick' else 400
    for h in range(n):
        sids = gens.STORY_IDS[:rng.randrange(0, 5)]
        ro = to_text(gens.make_ro(sids, layout=rng.choice(gens.RO_LAYOUTS), timing=rng.choice(gens.TIMINGS)))
        state = ro
        msgs = []
        c = [0]

        def fresh():
            c[0] += 1
            return 'P%d_%d' % (h, c[0])
        for j in range(rng.randrange(0, 9)):
            cs, ci = gens.state_ids(state)
            d = gens.random_story_message(rng, cs, 20 + j, fresh) if rng.random() < 0.6 else gens.random_item_message(rng, cs, ci, 20 + j, fresh)
            t = to_text(d)
            if rng.random() < 0.15:
                t = gens.mutate_doc(rng, t, state, n=rng.randrange(1, 3))       # a structural neighbour of the message
            msgs.append(t)
            r = impl.run_add(state, t)
            if 'tree' in r and not r.get('err'):
                state = X.tree_to_string(r['tree'])
        n_prefix = len(msgs)
        with_delete = rng.random() < 0.85
        if with_delete:
            msgs.append(to_text(ro_delete(60, ro_id=rng.choice(['RO1', 'RO1', 'RO1-OLD', 'ro1', None]))))
        cs, ci = gens.state_ids(state)
        after = one_of_each(cs, ci, rng, 100)
        if h % 3 == 0:
            # "any message of any type": also ones without a usable message ID or roID (the refusal must not depend on them)
            import re
            for k in range(len(after)):
                r = rng.random()
                if r < 0.25:
                    after[k] = re.sub(r'<messageID>[^<]*</messageID>', rng.choice(['', '<messageID />', '<messageID>A17</messageID>', '<messageID>7.0</messageID>']), after[k], count=1)
                elif r < 0.4:
                    after[k] = re.sub(r'<roID>[^<]*</roID>', rng.choice(['', '<roID />']), after[k], count=1)
        msgs += after
        if h % 4 == 1:
            # ... and a running order without roID / roSlug of its own
            import re
            ro = re.sub(r'<roSlug>[^<]*</roSlug>', '', re.sub(r'<roID>[^<]*</roID>', rng.choice(['', '<roID />']), ro, count=1), count=1)
        yield {'ro': ro, 'msgs': msgs, 'n_prefix': n_prefix, 'with_delete': with_delete}


def completed(tree):
    return X.find(tree, 'mosromgrmeta') is not None


class Check:
    pid = 'C07'
    rule = ('seeded random histories: a prefix of 0..8 story/item-level messages, then (85%) a roDelete, then one message of '
            'each class that the generator reaches (20+ of the 25, always including roReadyToAir, roMetadataReplace, roReplace, a '
            'second roDelete and a second roCreate); every step compared with the model; after every step str(ro) is re-read '
            'and re-classified; plus collections whose roCreate document is a completed running order that was written out, with 1..5 '
            'further messages of random classes, merged strict and non-strict through from_strings / from_files. '
            'distinct by (step class, completed before, outcome)')

    def matches_known(self, k, v):
        return False

    def step_obs(self, s, prev):
        if 'classerr' in s:
            return ('classerr', s['classerr'])
        # the implementation reports ro.completed (the accessor); the model derives it from the document
        return (s['cls'], s['err'], s.get('completed', completed(s['tree'])), s.get('repr_completed', completed(s['tree'])),
                completed(s['tree']), s['tree'] == prev)

    def judge(self, case, steps):
        """the property oracle on the implementation's steps"""
        prev = X.elem_to_tree(impl.parse_doc(case['ro']))
        done = completed(prev)
        for k, s in enumerate(steps):
            if 'classerr' in s:
                return None
            if done:
                if s.get('completed') is not True:
                    return 'step %d: a completed running order reports completed=%r' % (k, s.get('completed'))
                if s['err'] != 'MosCompletedMergeError':
                    return 'step %d (%s) on a completed running order: %r, expected MosCompletedMergeError' % (k, s['cls'], s['err'])
                if s['tree'] != prev:
                    return 'step %d (%s) changed a completed running order' % (k, s['cls'])
            elif s['cls'] == 'RunningOrderEnd':
                if s['err'] or not completed(s['tree']) or s.get('completed') is not True or not s.get('repr_completed'):
                    return 'roDelete did not mark the running order completed (%r)' % s['err']
                if rc_of(s['tree']) != rc_of(prev):
                    return 'roDelete changed the running-order content'
                meta = X.find(s['tree'], 'mosromgrmeta')
                sent = X.find(X.elem_to_tree(impl.parse_doc(case['msgs'][k])), 'roDelete')
                if list(meta[4]) != [sent]:
                    return 'the completion record is not the roDelete that was sent'
                done = True
            else:
                if completed(s['tree']) or s.get('completed') is not False:
                    return 'step %d (%s) marked the running order completed without a roDelete' % (k, s['cls'])
            # round trip of the current state
            text = X.tree_to_string(s['tree'])
            try:
                mo = impl.MosFile.from_string(text)
                rt = (type(mo).__name__, bool(mo.completed))
            except Exception as e:
                rt = ('err', type(e).__name__)
            if rt != ('RunningOrder', completed(s['tree'])):
                return 'after step %d the written-out running order reads back as %r' % (k, rt)
            if s['err'] and s['err'] not in ('MosMergeError', 'MosCompletedMergeError'):
                return None
            prev = s['tree']
        return None

    def run(self, tier, rng, log):
        cases = [c for c in corpus_cases(self.pid, 'hist')] + list(histories(tier, rng))
        res = engine.hist_cases(cases)
        vio, dis, sigs, dist, samples = [], [], set(), {}, []
        n = 0
        for c, (isteps, msteps) in zip(cases, res):
            prev = X.elem_to_tree(impl.parse_doc(c['ro']))
            pa = pb = prev
            a, b = [], []
            for s in isteps:
                a.append(self.step_obs(s, pa))
                if 'tree' in s:
                    sigs.add((s['cls'], completed(pa), s['err']))
                    dist[s['cls']] = dist.get(s['cls'], 0) + 1
                    pa = s['tree']
                n += 1
            for s in msteps:
                b.append(self.step_obs(s, pb))
                if 'tree' in s:
                    pb = s['tree']
            what = self.judge(c, isteps)
            if what:
                vio.append({'what': what, 'case': {'kind': 'hist', 'ro': c['ro'], 'msgs': c['msgs']},
                            'impl': a, 'expected': b})
            if a != b:
                k = next((i for i, (x, y) in enumerate(zip(a, b)) if x != y), min(len(a), len(b)))
                dis.append({'case': {'kind': 'hist', 'ro': c['ro'], 'msgs': c['msgs'][:k + 1]},
                            'impl': a[k:k + 1], 'model': b[k:k + 1], 'explained': bool(what)})
            if len(samples) < 2 and c.get('with_delete'):
                samples.append({'ro': c['ro'], 'n_messages': len(c['msgs']), 'steps': [list(x) for x in a[:12]]})
        # collection mode: a completed running order that was written out is the roCreate of a collection
        cn, cdis, cvio = self.collections(tier, rng)
        n += cn
        return {'evaluations': n, 'distinct': len(sigs), 'rule': self.rule, 'samples': samples, 'distribution': dist,
                'disagreements': dis + cdis, 'violations': vio + cvio, 'extra': {'histories': len(cases), 'collection_merges': cn}}

    def collections(self, tier, rng):
        import tempfile
        import shutil
        n, dis, vio = 0, [], []
        tmp = tempfile.mkdtemp(prefix='mosverif-c07-')
        try:
            for k in range(6 if tier == 'quick' else 40):
                sids = gens.STORY_IDS[:rng.randrange(1, 4)]
                ro = to_text(gens.make_ro(sids, layout=rng.choice(gens.RO_LAYOUTS), message_id=1))
                done = impl.run_add(ro, to_text(ro_delete(1)))
                ro_done = X.tree_to_string(done['tree'])
                _, items = gens.state_ids(ro)
                others = one_of_each(sids, items, rng, 100)
                others = [t for t in others if '<roCreate>' not in t and '<roDelete>' not in t]
                rng.shuffle(others)
                others = others[:rng.randrange(1, 6)]
                docs = [ro_done] + others
                for strict in (True, False):
                    for how in ('strings', 'files'):
                        io = impl.run_coll(docs, True, strict, how=how, tmpdir=tmp)
                        n += 1
                        what = None
                        if 'err0' in io:
                            what = 'a collection built on a completed running order was rejected (%s)' % io['err0']
                        elif io['tree'] != done['tree']:
                            what = 'merging into a completed running order (collection, %s) changed it' % ('strict' if strict else 'non-strict')
                        elif strict and io['err'] != 'MosCompletedMergeError':
                            what = 'strict collection merge into a completed running order raised %r, not MosCompletedMergeError' % io['err']
                        elif not strict and (io['err'] or io['warns'].count('MosMergeNonStrictWarning') != len(others)):
                            what = ('non-strict collection merge of %d messages into a completed running order: exception %r, %d MosMergeNonStrictWarning'
                                    % (len(others), io['err'], io['warns'].count('MosMergeNonStrictWarning')))
                        case = {'kind': 'coll', 'docs': docs, 'strict': strict, 'how': how}
                        if what:
                            vio.append({'what': what, 'case': case, 'impl': str((io.get('err'), io.get('warns'))), 'expected': 'refused'})
                        mo, = engine.coll_cases([{'docs': docs, 'inc': True, 'strict': strict}])
                        a = (io.get('err0'), io.get('err'), tuple(io.get('warns') or ()), io.get('tree'))
                        b = (mo.get('err0'), mo.get('err'), tuple(mo.get('warns') or ()), mo.get('tree'))
                        if a != b:
                            dis.append({'case': case, 'impl': str(a[:3]), 'model': str(b[:3]), 'explained': bool(what)})
            # the roDelete carries a message ID at any rank - lower than the roCreate's, in the middle, the highest: every
            # message applied after it is refused, whatever ID the roCreate itself has
            import re
            for k in range(8 if tier == 'quick' else 60):
                sids = gens.STORY_IDS[:rng.randrange(1, 4)]
                ids = rng.sample(range(2, 60), 5)
                ro_mid, rd_mid = rng.choice(ids), None
                rest = sorted(i for i in ids if i != ro_mid)
                rd_mid = rest[k % len(rest)]
                ro = to_text(gens.make_ro(sids, layout=rng.choice(gens.RO_LAYOUTS), message_id=ro_mid))
                docs = [ro, to_text(ro_delete(rd_mid))]
                before = [i for i in rest if i < rd_mid]
                after = [i for i in rest if i > rd_mid]
                kinds = {}
                for j, i in enumerate(before + after):
                    # appends (their effect shows which messages were applied) alternating with messages that change nothing
                    # visible here - roReadyToAir, roMetadataReplace - and must be refused all the same
                    kinds[i] = ['append', 'ready', 'append', 'metadata'][(j + k) % 4]
                    docs.append(to_text(story_append(i, [gens.new_story('AP%d' % i)]) if kinds[i] == 'append' else
                                        ready_to_air(i) if kinds[i] == 'ready' else metadata_replace(i, [E('roChannel', text='ch%d' % i)])))
                rng.shuffle(docs)
                for strict in (True, False):
                    for how in ('strings', 'files', 's3'):
                        io = impl.run_coll(docs, True, strict, how=how, tmpdir=tmp)
                        n += 1
                        what = None
                        if 'err0' in io:
                            what = 'a valid collection was rejected (%s)' % io['err0']
                        else:
                            comp = X.find(io['tree'], 'mosromgrmeta') is not None
                            text_ = X.tree_to_string(io['tree'])
                            appended = [i for i in rest if i != rd_mid and ('<storyID>AP%d</storyID>' % i) in text_]
                            if not comp:
                                what = 'the roDelete (message %d of %r, roCreate %d) was not applied: the merged running order is not completed' % (rd_mid, sorted(ids), ro_mid)
                            elif appended != [i for i in before if kinds[i] == 'append']:
                                what = 'messages %r were applied, expected exactly those before the roDelete: %r' % (appended, before)
                            elif strict and after and io['err'] != 'MosCompletedMergeError':
                                what = 'strict merge: %r after the roDelete, expected MosCompletedMergeError' % (io['err'],)
                            elif not strict and io['warns'].count('MosMergeNonStrictWarning') != len(after):
                                what = 'non-strict merge: %d messages after the roDelete, %d MosMergeNonStrictWarning' % (len(after), io['warns'].count('MosMergeNonStrictWarning'))
                        case = {'kind': 'coll', 'docs': docs, 'strict': strict, 'how': how}
                        if what:
                            vio.append({'what': what, 'case': case, 'impl': str((io.get('err0'), io.get('err'), io.get('warns'))), 'expected': 'completed after message %d' % rd_mid})
                        mo, = engine.coll_cases([{'docs': docs, 'inc': True, 'strict': strict}])
                        a = (io.get('err0'), io.get('err'), tuple(io.get('warns') or ()), io.get('tree'))
                        b = (mo.get('err0'), mo.get('err'), tuple(mo.get('warns') or ()), mo.get('tree'))
                        if a != b:
                            dis.append({'case': case, 'impl': str(a[:3]), 'model': str(b[:3]), 'explained': bool(what)})
        finally:
            shutil.rmtree(tmp, ignore_errors=True)
        return n, dis, vio

    def replay(self, rep):
        case = rep.get('case') or {}
        if case.get('kind') == 'coll':
            import tempfile
            import shutil
            tmp = tempfile.mkdtemp(prefix='mosverif-c07-')
            try:
                io = impl.run_coll(case['docs'], True, case['strict'], how=case.get('how', 'strings'), tmpdir=tmp)
            finally:
                shutil.rmtree(tmp, ignore_errors=True)
            n_other = len(case['docs']) - 1
            bad = ('err0' in io or (case['strict'] and io['err'] != 'MosCompletedMergeError') or
                   (not case['strict'] and (io['err'] or io['warns'].count('MosMergeNonStrictWarning') != n_other)))
            return {'violation': bool(bad), 'outcome': str((io.get('err0'), io.get('err'), io.get('warns')))}
        if 'msgs' not in case:
            return {'violation': False, 'note': str(rep.get('detail'))}
        steps = impl.run_hist(case['ro'], case['msgs'])
        what = self.judge(case, steps)
        return {'violation': bool(what), 'what': what}

    def shrink(self, v):
        if v['case'].get('kind') == 'coll':
            return v
        case = dict(v['case'])
        msgs = list(case['msgs'])
        changed = True
        while changed and len(msgs) > 1:
            changed = False
            for k in range(len(msgs)):
                cand = msgs[:k] + msgs[k + 1:]
                c2 = dict(case, msgs=cand)
                try:
                    if self.judge(c2, impl.run_hist(c2['ro'], cand)):
                        msgs = cand
                        changed = True
                        break
                except Exception:
                    continue
        v = dict(v)
        v['case'] = dict(case, msgs=msgs)
        v['what'] = self.judge(v['case'], impl.run_hist(case['ro'], msgs)) or v['what']
        return v
