"""C17 — script and body list the story text and items faithfully and in order."""
import impl
import accessors
import exchange as X
from checks.c15 import ReportCheck, xml_facts

LEVEL = 'proof'
ASSUMPTIONS = ['paragraphs containing inline child elements are outside the claim (not generated)',
               'str.strip() / str.isspace() are modelled by an explicit code-point table, compared with CPython over all 0x110000 code points on every run']


def table_agrees():
    """the model's white-space table against CPython, over every code point"""
    spaces = {c for c in range(0x110000) if chr(c).isspace()}
    model = set(range(9, 14)) | set(range(28, 33)) | {133, 160, 5760} | set(range(8192, 8203)) | {8232, 8233, 8239, 8287, 12288}
    return spaces == model, sorted(spaces ^ model)[:10]


class Check(ReportCheck):
    pid = 'C17'
    fields_ro = ('script', 'body')
    fields_story = ('id', 'script', 'body')
    rule = ('the running orders and reached states of the C15 generator: paragraphs that are empty, whitespace-only (ASCII, '
            'U+00A0, U+2003), bracketed, half-bracketed, nested or mixed brackets, Unicode, interleaved with items and other '
            'elements, plus roStorySend bodies; script and body of every story and of the running order compared with the model '
            'and with an independent transcription; Story objects held across item-level merges and roStorySend must keep '
            'reporting what their element holds; the white-space table compared with str.isspace over all code points')

    def oracle(self, text, rep, meta):
        if rep == 'norc' or 'script=E' in rep or 'stories=E' in rep:
            return None
        rc, facts = xml_facts(text)
        sec = accessors.sections(rep)
        all_script, all_body = [], []
        same_n = len(sec['stories']) == len(facts)      # (how many stories are listed is C15's business; the running-order
        for k, f in enumerate(facts):                   #  script / body below are decided from the document either way)
            s = sec['stories'][k] if same_n else None
            script, body = [], []
            for c in f['elem']:
                if c.tag == 'p':
                    t = c.text or ''
                    body.append('T ' + X.s_tok(t))
                    st = t.strip()
                    note = (st.startswith('(') and st.endswith(')')) or (st.startswith('<') and st.endswith('>'))
                    if st and not note:
                        script.append(X.s_tok(st))
                elif c.tag == 'item':
                    iid = c.find('itemID')
                    body.append('I ' + X.s_tok(None if iid is None else iid.text))
            want_s = ' '.join([str(len(script))] + script)
            want_b = ' '.join([str(len(body))] + body)
            if s is not None and self.grab(s, 'script') != want_s:
                return 'story %r: script is not the non-empty, non-technical paragraphs, stripped, in order' % f['id']
            if s is not None and self.grab(s, 'body') != want_b:
                return 'story %r: body is not the paragraphs and items in document order' % f['id']
            all_script += script
            all_body += body
        if self.grab(sec['ro'], 'script') != ' '.join([str(len(all_script))] + all_script):
            return 'the running order script is not the concatenation of its stories\' scripts'
        if self.grab(sec['ro'], 'body') != ' '.join([str(len(all_body))] + all_body):
            return 'the running order body is not the concatenation of its stories\' bodies'
        return None

    def run(self, tier, rng, log):
        res = super().run(tier, rng, log)
        ok, diff = table_agrees()
        res['evaluations'] += 0x110000
        res['extra']['whitespace_table_code_points'] = 0x110000
        if not ok:
            res['disagreements'].append({'case': {'kind': 'table'}, 'impl': 'str.isspace', 'model': 'is_space differs at %r' % diff, 'explained': False})
        return res
