"""Shared machinery of the checks that run `ro + msg` cases."""
import os
import json
import collections
from xml.etree import ElementTree as ET

import exchange as X
import engine
import impl

ROOT = os.path.dirname(os.path.dirname(os.path.dirname(os.path.abspath(__file__))))


def rc_of(tree):
    return X.find(tree, 'roCreate')


def story_ids(tree):
    rc = rc_of(tree)
    if rc is None:
        return None
    out = []
    for k in rc[4]:
        if k[0] == 'story':
            c = X.find(k, 'storyID')
            out.append(None if c is None else c[2])
    return out


def item_ids(story):
    out = []
    for k in story[4]:
        if k[0] == 'item':
            c = X.find(k, 'itemID')
            out.append(None if c is None else c[2])
    return out


def child_tags(t):
    return None if t is None else [k[0] for k in t[4]]


def err_class(o):
    if 'classerr' in o:
        return 'classerr:' + o['classerr']
    return o.get('err') or 'ok'


def corpus_cases(pid, kind):
    d = os.path.join(ROOT, 'corpus')
    out = []
    if not os.path.isdir(d):
        return out
    for f in sorted(os.listdir(d)):
        if not f.endswith('.json'):
            continue
        c = json.load(open(os.path.join(d, f)))
        if c.get('kind') == kind and pid in c.get('properties', []):
            c.setdefault('meta', {})['corpus'] = f
            out.append(c)
    return out


def proto_claims(cases):
    """model's protocol demand per case: ('story', ids) | ('item', index, ids) | None"""
    lines = []
    for c in cases:
        ro_e = impl.parse_doc(c['ro'])
        msg_e = impl.parse_doc(c['msg'])
        lines.append('proto %s %s %s' % (engine.oracle_prefix([ro_e, msg_e]), X.elem_line(ro_e), X.elem_line(msg_e)))
    res = []
    for l in engine.run_model(lines):
        t = l.split(' ')
        if t[0] == 'story':
            n = int(t[1])
            res.append(('story', [X.tok_s(x) for x in t[2:2 + n]]))
        elif t[0] == 'item':
            n = int(t[2])
            res.append(('item', int(t[1]), [X.tok_s(x) for x in t[3:3 + n]]))
        else:
            res.append(None)
    return res


def drop_variants(text):
    """every document obtained by deleting one element (the envelope's own children - mosID, ncsID, messageID, the
    message element - included)"""
    root = ET.fromstring(text)
    parents = [(p, i) for p in root.iter() for i in range(len(p))]
    out = []
    for k in range(len(parents)):
        r2 = ET.fromstring(text)
        ps = [(p, i) for p in r2.iter() for i in range(len(p))]
        p, i = ps[k]
        del p[i]
        out.append(ET.tostring(r2, encoding='unicode'))
    return out


LIVE_RULE = ('; also 30 [300] histories of 3..9 messages merged into one live RunningOrder object, each step judged as the merge of that '
             'message into the state before it')


class AddCheck:
    """A check over {'ro','msg'} cases.  Subclasses give: pid, gen(tier, rng), obs(outcome),
    violation(case, impl_outcome, claim, before_tree) -> str|None, signature(case, outcome)."""
    pid = None
    chunk = 4000
    needs_claims = True

    def obs(self, o):
        raise NotImplementedError

    def obs_case(self, case, o):
        return self.obs(o)

    def violation(self, case, io, claim, before):
        return None

    def signature(self, case, io):
        m = case.get('meta', {})
        return (m.get('cls'), m.get('n'), m.get('layout') or m.get('para'), err_class(io), tuple(io.get('warns') or ()))

    def nontrivial(self, case, io, before):
        return ('classerr' in io) or io.get('err') or io.get('warns') or io.get('tree') != before

    def matches_known(self, k, v):
        return False

    def before_tree(self, case):
        return X.elem_to_tree(impl.parse_doc(case['ro']))

    def evaluate(self, cases, force_oracle=False):
        """returns (disagreements, violations, stats)"""
        disagreements, violations = [], []
        sigs = set()
        dist = collections.Counter()
        n = 0
        samples = []
        for i in range(0, len(cases), self.chunk):
            part = cases[i:i + self.chunk]
            res = engine.add_cases(part)
            bad_idx = [j for j, (io, mo) in enumerate(res) if self.obs_case(part[j], io) != self.obs_case(part[j], mo)]
            claims = {}
            if (bad_idx or force_oracle) and self.needs_claims:
                idx = list(range(len(part))) if force_oracle else bad_idx
                for j, cl in zip(idx, proto_claims([part[j] for j in idx])):
                    claims[j] = cl
            for j, (c, (io, mo)) in enumerate(zip(part, res)):
                n += 1
                before = self.before_tree(c)
                dist[c.get('meta', {}).get('cls', io.get('cls', '?'))] += 1
                if self.nontrivial(c, io, before):
                    sigs.add(self.signature(c, io))
                if len(samples) < 3 and self.nontrivial(c, io, before):
                    samples.append({'ro': c['ro'], 'msg': c['msg'], 'impl_obs': self.obs_case(c, io)})
                if j in bad_idx or force_oracle:
                    what = self.violation(c, io, claims.get(j), before)
                    if what:
                        violations.append({'what': what, 'case': {'kind': 'add', 'ro': c['ro'], 'msg': c['msg'], 'meta': c.get('meta')},
                                           'impl': self.obs_case(c, io), 'expected': self.obs_case(c, mo)})
                    if j in bad_idx:
                        disagreements.append({'case': {'kind': 'add', 'ro': c['ro'], 'msg': c['msg'], 'meta': c.get('meta')},
                                              'impl': self.obs_case(c, io), 'model': self.obs_case(c, mo), 'explained': bool(what)})
        return disagreements, violations, {'n': n, 'sigs': sigs, 'dist': dist, 'samples': samples}

    def run(self, tier, rng, log):
        corpus = corpus_cases(self.pid, 'add')
        cases = corpus + list(self.gen(tier, rng))
        # structural neighbours of the generated cases (gens.mutate_doc): shapes nobody wrote a generator for
        import gens
        n_fuzz = getattr(self, 'n_fuzz', 1500 if tier == 'quick' else 15000)
        fuzz = list(gens.fuzzed_cases(cases, rng, n_fuzz))
        cases += fuzz
        dis, vio, st = self.evaluate(cases)
        if dis and not vio:
            # a disagreement that is not itself a violation: search the whole space with the oracle
            log('%d disagreements, none is a violation by itself: searching all %d cases with the oracle'
                % (len(dis), len(cases)))
            _, vio, _ = self.evaluate(cases, force_oracle=True)
        # the same on live objects: every step of a history merged into ONE RunningOrder object is judged as the merge of
        # that message into the state before it (what an object remembers from earlier merges must not matter)
        hn, hdis, hvio = self.run_live(list(live_histories(tier, rng, n_quick=30, n_thorough=300)))
        return {'evaluations': st['n'] + hn, 'distinct': len(st['sigs']), 'rule': self.rule + LIVE_RULE,
                'samples': st['samples'], 'distribution': dict(st['dist'], live_history_steps=hn),
                'disagreements': dis + hdis, 'violations': vio + hvio, 'exhaustive': False,
                'extra': {'corpus_cases': len(corpus), 'fuzzed_cases': len(fuzz), 'live_history_steps': hn}}

    def run_live(self, hcases, only_last=False):
        dis, vio = [], []
        n = 0
        for c, (isteps, msteps) in zip(hcases, engine.hist_cases(hcases)):
            prev = c['ro']
            for k, (a, b) in enumerate(zip(isteps, msteps)):
                n += 1
                if 'classerr' in a or 'classerr' in b:
                    break
                case = {'ro': prev, 'msg': c['msgs'][k], 'meta': {'cls': a.get('cls'), 'layout': 'live', 'n': k}}
                hist = {'kind': 'hist', 'ro': c['ro'], 'msgs': c['msgs'][:k + 1]}
                if self.obs_case(case, a) != self.obs_case(case, b) and (not only_last or k == len(isteps) - 1):
                    claim = proto_claims([case])[0] if self.needs_claims else None
                    try:
                        what = self.violation(case, a, claim, self.before_tree(case))
                    except Exception as e:
                        what = None
                    if what:
                        vio.append({'what': 'step %d of a history on one RunningOrder object: %s' % (k, what), 'case': hist,
                                    'impl': self.obs_case(case, a), 'expected': self.obs_case(case, b)})
                    dis.append({'case': hist, 'impl': self.obs_case(case, a), 'model': self.obs_case(case, b), 'explained': bool(what)})
                    break
                if 'tree' in a:
                    try:
                        prev = X.tree_to_string(a['tree'])
                    except Exception:
                        break
        return n, dis, vio

    # -- single-case evaluation used by replay and shrink
    def case_violation(self, case):
        (io, mo), = engine.add_cases([case])
        claim = proto_claims([case])[0] if self.needs_claims else None
        return self.violation(case, io, claim, self.before_tree(case)), io, mo

    def replay(self, rep):
        case = rep.get('case') or {}
        if not case:
            return {'violation': False, 'note': 'replay file names a broken theorem or build, not an input: ' + str(rep.get('detail'))}
        if case.get('kind') == 'hist':
            n, dis, vio = self.run_live([case], only_last=True)
            return {'violation': bool(vio), 'what': vio[0]['what'] if vio else None, 'disagreements': len(dis)}
        what, io, mo = self.case_violation(case)
        return {'violation': bool(what), 'what': what, 'impl': self.obs_case(case, io), 'model': self.obs_case(case, mo)}

    def shrink(self, v):
        case = dict(v['case'])
        if case.get('kind') == 'hist':
            return v
        what0 = v['what']
        budget = 300
        changed = True
        while changed and budget > 0:
            changed = False
            for key in ('ro', 'msg'):
                for cand in drop_variants(case[key]):
                    budget -= 1
                    if budget <= 0:
                        break
                    c2 = dict(case)
                    c2[key] = cand
                    try:
                        what, io, mo = self.case_violation(c2)
                    except Exception:
                        continue
                    if what:
                        case = c2
                        v = {'what': what, 'case': case, 'impl': self.obs_case(case, io), 'expected': self.obs_case(case, mo)}
                        changed = True
                        break
                if changed:
                    break
        return v


# ---- histories on one live RunningOrder object (the add cases above start from a freshly
# parsed running order every time; state kept inside the object is only seen here)

def live_histories(tier, rng, n_quick=40, n_thorough=400):
    import gens
    from docs import E, to_text, ro_replace, metadata_replace, ro_delete, story_send, p, story_append
    n = n_quick if tier == 'quick' else n_thorough
    # fixed histories first: what an object may remember across a roReplace (its roCreate element, its story IDs, its
    # offsets) - an insert, the content re-sent without one story and with a new one, then inserts of the story that left
    # (not a duplicate any more) and of the one that came (a duplicate now), an item edit, a delete, a move
    from docs import story_insert as _si, element_action as _ea, ref as _ref, ro_replace as _rr, item_insert as _ii, story_delete as _sd, story_move as _sm
    for variant in (0, 1):
        ins = (lambda mid, tgt, sts: _si(mid, tgt, sts)) if variant == 0 else (lambda mid, tgt, sts: _ea(mid, 'INSERT', [_ref('storyID', tgt)], [sts]))
        yield {'ro': to_text(gens.make_ro(['A', 'B', 'C'], layout='plain')),
               'msgs': [to_text(ins(20, 'B', [gens.new_story('X')])),
                        to_text(_rr(21, [gens.new_story('A'), gens.new_story('C'), gens.new_story('D')])),
                        to_text(ins(22, 'C', [gens.new_story('B'), gens.new_story('D')])),
                        to_text(_ii(23, 'B', None, [gens.new_item('late')])),
                        to_text(_sd(24, ['X', 'A'])),
                        to_text(_sm(25, ['D', 'B'])),
                        to_text(ins(26, 'B', [gens.new_story('A'), gens.new_story('X')]))]}
    for h in range(n):
        sids = gens.STORY_IDS[:rng.randrange(1, 4)]
        ro = gens.vary_envelope(rng, to_text(gens.make_ro(sids, layout=rng.choice(gens.RO_LAYOUTS), timing=rng.choice(gens.TIMINGS))))
        state = ro
        msgs = []
        c = [0]

        def fresh():
            c[0] += 1
            return 'L%d_%d' % (h, c[0])
        ever = set()
        for j in range(rng.randrange(3, 10)):
            cs, ci = gens.state_ids(state)
            ever |= set(x for x in cs if x)
            gone = sorted(ever - set(cs))
            r = rng.random()
            if gone and cs and rng.random() < 0.25:
                # a story whose ID was in the running order earlier (deleted, replaced away, dropped by a roReplace) comes
                # back by an insert - and one that is there is inserted once more (a duplicate): whatever the object
                # remembers about its IDs must follow the document
                from docs import story_insert, element_action, ref
                new = [gens.new_story(rng.choice(gone)), gens.new_story(rng.choice(cs))]
                rng.shuffle(new)
                d = story_insert(20 + j, rng.choice(cs), new) if rng.random() < 0.5 else element_action(20 + j, 'INSERT', [ref('storyID', rng.choice(cs))], [new])
            elif r < 0.35:
                d = gens.random_story_message(rng, cs, 20 + j, fresh)
            elif r < 0.6:
                d = gens.random_item_message(rng, cs, ci, 20 + j, fresh)
            elif r < 0.8:
                d = ro_replace(20 + j, [gens.new_story(fresh()) for _ in range(rng.randrange(0, 3))] +
                               ([gens.new_story(rng.choice(cs))] if cs and rng.random() < 0.5 else []))
            elif r < 0.9:
                d = metadata_replace(20 + j, [E('roSlug', text='s%d' % j)])
            elif r < 0.95 and cs:
                d = story_send(20 + j, rng.choice(cs), body=[p('t'), E('storyItem', E('itemID', text='q%d' % j))])
            else:
                d = ro_delete(20 + j)
            t = gens.vary_envelope(rng, to_text(d))
            if rng.random() < 0.1:
                t = gens.mutate_doc(rng, t, state, n=1)
            msgs.append(t)
            res = impl.run_add(state, t)
            if 'tree' in res and not res.get('err'):
                state = X.tree_to_string(res['tree'])
        yield {'ro': ro, 'msgs': msgs}


def compare_histories(cases, obs_step, judge_step):
    """(n steps, disagreements, violations) over live-object histories"""
    dis, vio = [], []
    n = 0
    for c, (isteps, msteps) in zip(cases, engine.hist_cases(cases)):
        prev = X.elem_to_tree(impl.parse_doc(c['ro']))
        for k, (a, b) in enumerate(zip(isteps, msteps)):
            n += 1
            what = judge_step(c, k, a, prev)
            case = {'kind': 'hist', 'ro': c['ro'], 'msgs': c['msgs'][:k + 1]}
            if what:
                vio.append({'what': what, 'case': case, 'impl': str(obs_step(a))[:300], 'expected': str(obs_step(b))[:300]})
            if obs_step(a) != obs_step(b):
                dis.append({'case': case, 'impl': str(obs_step(a))[:300], 'model': str(obs_step(b))[:300], 'explained': bool(what)})
                break
            if what:
                break
            if 'tree' in a:
                prev = a['tree']
    return n, dis, vio
