"""C03 — a merge changes only what the message names (no collateral edits)."""
import copy
from xml.etree import ElementTree as ET
import gens
import impl
import engine
import exchange as X
from docs import (E, to_text, ABSENT, metadata_replace, item, story, p, payload, ro_create, ro_head, ready_to_air, ro_delete)
from checks.base import AddCheck, rc_of, err_class
from checks.c01 import history_states
from checks.c06 import base_tag, texts

LEVEL = 'proof'
ASSUMPTIONS = ['frame theorems: story-level for all 11 classes (moves/swaps where the order theorem applies), item-level for any '
               'message (only the addressed story can differ), metadata by tag / (tag, mosSchema)',
               'the observable compared with the model is the complete resulting tree']
STORY_CLASSES = {'StorySend', 'StoryAppend', 'StoryDelete', 'StoryInsert', 'StoryMove', 'StoryReplace',
                 'EAStoryReplace', 'EAStoryDelete', 'EAStoryInsert', 'EAStorySwap', 'EAStoryMove'}
ITEM_CLASSES = {'ItemDelete', 'ItemInsert', 'ItemMoveMultiple', 'ItemReplace', 'EAItemReplace',
                'EAItemDelete', 'EAItemInsert', 'EAItemSwap', 'EAItemMove'}


def rich_ro(rng, n_stories, placeholders=False, xrefs=False):
    """nested metadata, attributes, mixed text and tails, repeated item IDs across stories,
    several mosExternalMetadata blocks"""
    kids = ro_head()
    kids.append(E('mosExternalMetadata', E('mosScope', text='PLAYLIST'), E('mosSchema', text='http://schema/one'),
                  E('mosPayload', E('Owner', text='o1', dept='news'), E('nested', E('deep', E('deeper', text='x & y'), text='t'), tail=' tail '))))
    kids.append(E('mosExternalMetadata', E('mosSchema', text='http://schema/two'), E('mosPayload', E('Owner', text='o2'))))
    for k in range(n_stories):
        sid = gens.STORY_IDS[k]
        body = []
        for j in range(rng.randrange(0, 4)):
            if rng.random() < 0.5:
                body.append(E('p', E('b', text='bold', tail=' after'), text='para %d ' % j, tail='\n  '))
            body.append(item(gens.ITEM_IDS[j], slug='s%d-%d' % (k, j), extra=[E('objID', text='obj', kind='clip')]))
        if rng.random() < 0.5:
            body.append(p('(technical)'))
        st = story(sid, body=body, slug='Story <%s> & co' % sid, meta=payload(duration='%d' % (k + 3)) if rng.random() < 0.6 else None,
                   extra=[E('storyNum', text=str(k))])
        if xrefs and k == 0 and n_stories > 1:
            # the first story refers to the later ones (and to item IDs used elsewhere) inside a free-form payload
            host = st.find('item')
            (host if host is not None else st).append(gens.cross_refs(gens.STORY_IDS[1:n_stories], gens.ITEM_IDS[:3]))
        st.set('status', 'READY')
        st.tail = '\n'
        kids.append(st)
        if rng.random() < 0.4:
            kids.append(E('roTrigger', text='trig %d' % k, mode='auto'))
        if placeholders and k == 0:
            # placeholder stories with a blank / missing storyID, holding items with the usual IDs and a blank one
            kids.append(story(None, body=[item(gens.ITEM_IDS[0], slug='in-blank'), item(None, slug='blank-item'), p('text')], slug='Blank'))
            if placeholders > 1:
                kids.append(story(ABSENT, body=[item(gens.ITEM_IDS[0], slug='in-noid')], slug='NoId'))
    return ro_create(kids)


def metadata_cases(rng):
    yield from metadata_cases_on(rng, to_text(rich_ro(rng, 3)), 'two schemas')
    # a block without any mosSchema tag, and one with a blank one, in front of the others
    d = rich_ro(rng, 2)
    rc = d.find('roCreate')
    rc.insert(2, E('mosExternalMetadata', E('mosScope', text='PLAYLIST'), E('mosPayload', E('owner', text='no schema tag', dept='news'))))
    rc.insert(3, E('mosExternalMetadata', E('mosSchema'), E('mosPayload', E('owner', text='blank schema'))))
    yield from metadata_cases_on(rng, to_text(d), 'schema-less block first')
    # the same tag / the same mosSchema several times among the running-order metadata: the first one is the one replaced
    d = rich_ro(rng, 2)
    rc = d.find('roCreate')
    rc.insert(2, E('mosExternalMetadata', E('mosSchema', text='http://schema/two'), E('mosPayload', E('Owner', text='first of two'))))
    rc.append(E('mosExternalMetadata', E('mosSchema', text='http://schema/two'), E('mosPayload', E('Owner', text='last of three'))))
    rc.append(E('mosExternalMetadata', E('mosSchema', text='http://schema/one'), E('mosPayload', E('Owner', text='second one'))))
    rc.insert(2, E('roTrigger', text='early trigger'))
    rc.append(E('roTrigger', text='late trigger'))
    rc.append(E('roSlug', text='a second slug'))
    yield from metadata_cases_on(rng, to_text(d), 'repeated blocks and tags')


def metadata_cases_on(rng, ro, ro_kind):
    md = lambda schema, owner: E('mosExternalMetadata', *( [E('mosSchema', text=schema)] if schema != ABSENT else []),
                                 E('mosPayload', E('Owner', text=owner)))
    for kids, name in [([E('roSlug', text='New')], 'slug'),
                       ([md('http://schema/two', 'new2')], 'schema two'),
                       ([md('http://schema/one', 'new1')], 'schema one'),
                       ([md('http://schema/three', 'new3')], 'unknown schema'),
                       ([md(ABSENT, 'none')], 'no schema'), ([md(None, 'blank')], 'blank schema'),
                       ([md('http://schema/two', 'a'), md('http://schema/two', 'b')], 'same schema twice'),
                       ([E('roTrigger', text='new trig')], 'trigger'),
                       ([E('roChannel', text='1'), E('roChannel', text='2')], 'new tag twice'),
                       ([E('roSlug', text='s'), md('http://schema/one', 'x'), E('roEdStart', text='2020-01-01T00:00:00')], 'several'),
                       # children that are not metadata at all: a story (with / without ID), an item, after and before real metadata
                       ([E('roSlug', text='before the story'), gens.new_story('MDS'), E('roChannel', text='after')], 'story among metadata'),
                       ([gens.new_story('A'), E('roSlug', text='after the story')], 'story first'),
                       ([E('roTrigger', text='t'), E('story', E('storySlug', text='no id')), E('item', E('itemID', text='i1'))], 'id-less story and item'),
                       ([], 'empty')]:
        yield {'ro': ro, 'msg': to_text(metadata_replace(7, kids)), 'meta': {'cls': 'MetaDataReplace', 'carried': name, 'ro_kind': ro_kind}}
    yield {'ro': ro, 'msg': to_text(ready_to_air(8)), 'meta': {'cls': 'ReadyToAir'}}
    yield {'ro': ro, 'msg': to_text(ro_delete(9)), 'meta': {'cls': 'RunningOrderEnd'}}


def ids_in(tree, tag):
    out = []

    def walk(t):
        if t[0] == tag:
            out.append(t[2])
        for k in t[4]:
            walk(k)
    walk(tree)
    return out


class Check(AddCheck):
    pid = 'C03'
    needs_claims = False
    rule = ('rich running orders (nested metadata, attributes, mixed text and tails, two mosExternalMetadata blocks, repeated '
            'item IDs across stories, trailing triggers, placeholder stories with blank or missing storyID holding blank-ID items) x random story-level and item-level messages with references in '
            '{existing, unknown, blank, absent}; the exhaustive small message spaces of C01/C02; roMetadataReplace with same / '
            'other / unknown / missing / blank / repeated mosSchema. obs = the complete resulting tree. distinct by (class, outcome, layout)')

    def gen(self, tier, rng):
        n = 60 if tier == 'quick' else 600
        for r in range(n):
            ro = to_text(rich_ro(rng, rng.randrange(1, 5), placeholders=(1 if r % 4 == 1 else 2 if r % 8 == 3 else 0), xrefs=(r % 3 == 2)), pretty=(r % 3 == 0))
            sids, items = gens.state_ids(ro)
            k = [0]

            def fresh():
                k[0] += 1
                return 'c%d' % k[0]
            for j in range(12):
                doc = gens.random_story_message(rng, sids, 300 + j, fresh) if rng.random() < 0.5 else \
                    gens.random_item_message(rng, sids, items, 300 + j, fresh)
                yield {'ro': ro, 'msg': to_text(doc, pretty=rng.random() < 0.2), 'meta': {'cls': doc[3].tag, 'n': len(sids), 'layout': 'rich'}}
        yield from metadata_cases(rng)
        nm = 2 if tier == 'quick' else 3
        yield from gens.merge_cases_story(n_max=nm, max_src=2, layouts=['between', 'trailing', 'blankids', 'noids'])
        yield from gens.merge_cases_item(n_max=nm, max_src=2, para_layouts=['between', 'trailing', 'blankids', 'noids'])
        yield from gens.merge_cases_other()
        yield from gens.merge_cases_padded()
        yield from gens.merge_cases_special_ids()

    def obs(self, o):
        if 'classerr' in o:
            return ('classerr', o['classerr'])
        return (err_class(o), o['tree'])

    def signature(self, case, io):
        m = case.get('meta', {})
        return (io.get('cls'), m.get('layout') or m.get('para') or m.get('carried'), err_class(io), tuple(io.get('warns') or ()))

    def violation(self, case, io, claim, before):
        if 'classerr' in io or io.get('err'):
            return None
        cls = io['cls']
        after = io['tree']
        msg = X.elem_to_tree(impl.parse_doc(case['msg']))
        b = base_tag(msg)
        # everything outside roCreate is unchanged (roDelete appends its record)
        outside0 = [k for k in before[4] if k[0] != 'roCreate']
        outside1 = [k for k in after[4] if k[0] not in ('roCreate', 'mosromgrmeta')]
        if outside0 != [k for k in outside1] and cls != 'RunningOrderEnd':
            return '%s changed the envelope of the running order' % cls
        rc0, rc1 = rc_of(before), rc_of(after)
        if cls in ('ReadyToAir', 'RunningOrderEnd'):
            return None if rc0 == rc1 else '%s changed the running-order content' % cls
        if cls in STORY_CLASSES:
            named = {repr(i) for i in ids_in(b, 'storyID') if i is not None}    # a blank reference names nothing

            def untouched(rc):
                return [k for k in rc[4] if not (k[0] == 'story' and repr(X.child_text(k, 'storyID')) in named)]
            if untouched(rc0) != untouched(rc1):
                return '%s altered, removed or displaced something it does not name' % cls
            if rc0[:4] != rc1[:4]:
                return '%s changed roCreate itself' % cls
        elif cls in ITEM_CLASSES:
            tgt = b if cls in ('ItemDelete', 'ItemInsert', 'ItemMoveMultiple', 'ItemReplace') else X.find(b, 'element_target')
            sid = (texts(tgt[4], 'storyID') or [None])[0] if tgt else None
            idx = next((j for j, k in enumerate(rc0[4]) if k[0] == 'story' and sid is not None and X.child_text(k, 'storyID') == sid), None)
            if len(rc0[4]) != len(rc1[4]):
                return '%s changed the number of children of roCreate' % cls
            for j, (a, c) in enumerate(zip(rc0[4], rc1[4])):
                if j != idx and a != c:
                    return '%s addressed story %r but changed child %d of roCreate (%s)' % (cls, sid, j, a[0])
            if idx is not None:
                named = {repr(i) for i in ids_in(b, 'itemID') if i is not None}
                s0, s1 = rc0[4][idx], rc1[4][idx]

                def untouched_i(s):
                    return [k for k in s[4] if not (k[0] == 'item' and repr(X.child_text(k, 'itemID')) in named)]
                if untouched_i(s0) != untouched_i(s1):
                    return '%s altered, removed or displaced a child of story %r that it does not name' % (cls, sid)
                if s0[:4] != s1[:4]:
                    return '%s changed the story element itself' % cls
        elif cls == 'MetaDataReplace':
            carried = [(k[0], X.child_text(k, 'mosSchema') if X.find(k, 'mosSchema') is not None else ('absent',)) for k in b[4]]

            def matched(c):
                for tag, schema in carried:
                    if tag == 'mosExternalMetadata':
                        cs = X.child_text(c, 'mosSchema') if X.find(c, 'mosSchema') is not None else ('absent',)
                        if c[0] == tag and (cs or '') == (schema or '') and type(cs) == type(schema) or \
                           (c[0] == tag and (cs in (None, '') and schema in (None, ''))):
                            return True
                    elif c[0] == tag:
                        return True
                return False
            if [k for k in rc0[4] if not matched(k)] != [k for k in rc1[4] if not matched(k)]:
                return 'roMetadataReplace altered a child of roCreate that it does not carry'
        return None
