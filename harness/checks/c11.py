"""C11 — a collection is accepted exactly when it describes one running order."""
import os
import itertools
import gens
import impl
import engine
import exchange as X
from docs import to_text, ro_delete, story_append, ready_to_air, ro_replace
from checks.base import corpus_cases
from checks.c08 import run_sub, smoke

LEVEL = 'proof'
ASSUMPTIONS = ['the interpreter flag is not an argument of the model; the differential run executes the real code under '
               'default flags and under python -O']


def collections(tier):
    """(docs, allow_incomplete, expected acceptance by the statement of the property)"""
    mx = 3 if tier == 'quick' else 4
    for n_rc, n_rd, n_other, two_ids in itertools.product(range(mx), range(mx), range(mx), (False, True)):
        docs = []
        mid = 1
        for k in range(n_rc):
            docs.append(to_text(gens.make_ro(['A'], message_id=mid, ro_id='RO1' if not (two_ids and k == 1) else 'RO2')))
            mid += 1
        for k in range(n_other):
            rid = 'RO2' if (two_ids and k == 0 and n_rc < 2) else 'RO1'
            if k % 3 == 0:
                d = ro_replace(mid, [gens.new_story('R%d' % k)], ro_id=rid)
            elif k % 3 == 1:
                d = story_append(mid, [gens.new_story('N%d' % k)], ro_id=rid)
            else:
                d = ready_to_air(mid, ro_id=rid)
            docs.append(to_text(d))
            mid += 1
        for k in range(n_rd):
            rid = 'RO2' if (two_ids and k == 0 and n_rc < 2 and n_other == 0) else 'RO1'
            docs.append(to_text(ro_delete(mid, ro_id=rid)))
            mid += 1
        mixed = two_ids and (n_rc >= 2 or n_other >= 1 or n_rd >= 1) and len(docs) >= 2
        shapes = [('std', docs)]
        if n_rc >= 1 and len(docs) > n_rc:
            # the roCreate(s) supplied last
            shapes.append(('rc-last', docs[n_rc:] + docs[:n_rc]))
        if n_rc == 1 and n_other >= 1:
            # another message carries the roCreate's message ID and is supplied before / after it
            same = docs[1].replace('<messageID>2</messageID>', '<messageID>1</messageID>')
            assert same != docs[1]
            shapes.append(('dup-id-before', [same, docs[0]] + docs[2:]))
            shapes.append(('dup-id-after', [docs[0], same] + docs[2:]))
        if len(docs) >= 3 and (n_rc >= 2 or n_rd >= 2 or (n_rc >= 1 and n_rd >= 1)):
            # message IDs dealt round-robin over the kinds, so that equal kinds are never neighbours in message-ID order
            # (roCreate#1, other#2, roCreate#3 ...; roDelete#1, roCreate#2, roDelete#3 ...), for two starting kinds
            import re
            groups = [docs[:n_rc], docs[n_rc:n_rc + n_other], docs[n_rc + n_other:]]
            for start in (0, 2):
                gs = [list(g) for g in (groups[start:] + groups[:start])]
                order = []
                while any(gs):
                    for g in gs:
                        if g:
                            order.append(g.pop(0))
                renum = [re.sub(r'<messageID>\d+</messageID>', '<messageID>%d</messageID>' % (k + 1), t, count=1) for k, t in enumerate(order)]
                shapes.append(('interleaved-%d' % start, renum))
        for shape, dl in shapes:
            for inc in (False, True) + ((None,) if shape == 'std' else ()):         # None: the argument is left out
                accept = (len(dl) > 0 and not mixed and n_rc == 1 and n_rd <= 1 and (bool(inc) or n_rd == 1))
                yield dl, inc, accept, {'rc': n_rc, 'rd': n_rd, 'other': n_other, 'mixed': mixed, 'shape': shape}
        if n_rc == 1 and not two_ids:
            # acceptance is a matter of counts and IDs only: whatever the roCreate looks like inside (no roSlug, nothing
            # but the roID, metadata after the stories, stories without IDs, no story at all, unparseable timing)
            variants = [(lay, to_text(gens.make_ro(['A', 'B'], message_id=1, layout=lay))) for lay in ('nometa', 'bare', 'noids', 'decoys', 'dupstories')]
            variants.append(('nostories', to_text(gens.make_ro([], message_id=1, layout='nometa'))))
            variants.append(('badtiming', to_text(gens.make_ro(['A'], message_id=1, ed_start='not a time', timing='all'))))
            variants.append(('blankslug', to_text(gens.make_ro(['A'], message_id=1)).replace('<roSlug>Slug</roSlug>', '<roSlug />')))
            for lay, rc_doc in variants:
                dl = [rc_doc] + docs[1:]
                for inc in (False, True):
                    accept = n_rd <= 1 and (inc or n_rd == 1)
                    yield dl, inc, accept, {'rc': n_rc, 'rd': n_rd, 'other': n_other, 'mixed': False, 'shape': 'rc-' + lay}
        if n_rc == 1 and not two_ids and len(docs) >= 2:
            # running-order IDs that are blank: the same blank ID everywhere is one running order, a blank one among
            # others is a second one; a message without any roID tag is not schema-shaped (no claim, model comparison only)
            all_blank = [t.replace('<roID>RO1</roID>', '<roID />') for t in docs]
            one_blank = docs[:-1] + [docs[-1].replace('<roID>RO1</roID>', '<roID />')]
            one_missing = docs[:-1] + [docs[-1].replace('<roID>RO1</roID>', '')]
            one_padded = docs[:-1] + [docs[-1].replace('<roID>RO1</roID>', '<roID>RO1 </roID>')]
            one_indented = docs[:-1] + [docs[-1].replace('<roID>RO1</roID>', '<roID>\n    RO1\n  </roID>')]
            one_case = docs[:-1] + [docs[-1].replace('<roID>RO1</roID>', '<roID>ro1</roID>')]
            for inc in (False, True):
                ok = n_rd <= 1 and (inc or n_rd == 1)
                yield all_blank, inc, ok, {'rc': n_rc, 'rd': n_rd, 'other': n_other, 'mixed': False, 'shape': 'blank-roid-all'}
                yield one_blank, inc, False, {'rc': n_rc, 'rd': n_rd, 'other': n_other, 'mixed': True, 'shape': 'blank-roid-one'}
                yield one_missing, inc, None, {'rc': n_rc, 'rd': n_rd, 'other': n_other, 'mixed': None, 'shape': 'missing-roid-one'}
                # IDs are opaque strings: one that differs only by white space or case is another running order
                yield one_padded, inc, False, {'rc': n_rc, 'rd': n_rd, 'other': n_other, 'mixed': True, 'shape': 'padded-roid-one'}
                yield one_indented, inc, False, {'rc': n_rc, 'rd': n_rd, 'other': n_other, 'mixed': True, 'shape': 'indented-roid-one'}
                yield one_case, inc, False, {'rc': n_rc, 'rd': n_rd, 'other': n_other, 'mixed': True, 'shape': 'case-roid-one'}


CLASS_OF = {'roReplace': 'RunningOrderReplace', 'roStoryAppend': 'StoryAppend', 'roReadyToAir': 'ReadyToAir', 'roDelete': 'RunningOrderEnd'}


def expected_readers(docs):
    """(message ID of the roCreate, [[message ID, class]] of the other messages, ascending, supplied order kept among equals)"""
    import re
    rows = []
    for t in docs:
        mid = int(re.search(r'<messageID>(\d+)</messageID>', t).group(1))
        tag = re.search(r'</messageID><(\w+)', t).group(1)
        rows.append((mid, tag))
    ro = [m for m, tag in rows if tag == 'roCreate'][0]
    rest = sorted([[m, CLASS_OF[tag]] for m, tag in rows if tag != 'roCreate'], key=lambda x: x[0])
    return ro, rest


class Check:
    pid = 'C11'
    rule = ('every multiset with 0..2 [0..3] roCreates x 0..2 roDeletes x 0..2 other messages (roReplace, roStoryAppend, roReadyToAir) x {one, two running-order '
            'IDs} x {roCreate supplied first, last, another message sharing its message ID before / after it} x allow_incomplete in {False, True}, each built through MosCollection.from_strings in a fresh interpreter '
            'with default flags and with -O. distinct by (counts, mixed ids, allow_incomplete, flags, outcome)')

    def matches_known(self, k, v):
        return False

    def run(self, tier, rng, log):
        for flags in ([], ['-O']):
            ok, err = smoke(flags)
            if not ok:
                log('ENVIRONMENT-ERROR: python %s cannot import mosromgr: %s' % (flags, err))
                raise SystemExit(3)
        cols = list(collections(tier))
        items = [{'docs': d, 'inc': inc} for d, inc, _, _ in cols]
        model = engine.readers_cases([dict(i, inc=bool(i['inc'])) for i in items])
        res = {'default': run_sub([], 'collection', items), '-O': run_sub(['-O'], 'collection', items)}
        vio, dis, sigs, samples = [], [], set(), []
        n = 0
        for (docs, inc, accept, meta), mo, a, b in zip(cols, model, res['default'], res['-O']):
            for flag, r in (('default', a), ('-O', b)):
                n += 1
                sigs.add((meta['rc'], meta['rd'], meta['other'], meta['mixed'], meta['shape'], inc, flag, r[0] if r[0] == 'ok' else r[1]))
                what = None
                if accept is None:
                    pass                    # outside the property's domain: compared with the model only
                elif accept and r[0] != 'ok':
                    what = 'a valid collection %r (allow_incomplete=%s, %s) was rejected with %s' % (meta, inc, flag, r[1])
                elif not accept and r[0] == 'ok':
                    what = 'an invalid collection %r (allow_incomplete=%s) was accepted under %s' % (meta, inc, flag)
                elif not accept and r[1] != 'InvalidMosCollection':
                    what = 'an invalid collection %r raised %s, not InvalidMosCollection (%s)' % (meta, r[1], flag)
                elif accept:
                    want_ro, want_readers = expected_readers(docs)
                    if r[1] != want_ro or r[3] != 'RunningOrder' or [list(x) for x in r[2]] != want_readers:
                        what = ('accepted collection has ro %r (%s) and readers %r; the roCreate is %r and the other messages are %r'
                                % (r[1], r[3], r[2], want_ro, want_readers))
                if what:
                    vio.append({'what': what, 'case': {'kind': 'collection', 'docs': docs, 'inc': inc, 'flag': flag, 'meta': meta},
                                'impl': r[:2], 'expected': 'accept' if accept else 'InvalidMosCollection'})
                m = ('ok', mo[1], [[x[0], x[1]] for x in mo[2]]) if mo[0] == 'ok' else ('err', mo[1])
                i = ('ok', r[1], r[2]) if r[0] == 'ok' else ('err', r[1])
                if m != i:
                    dis.append({'case': {'kind': 'collection', 'docs': docs, 'inc': inc, 'flag': flag}, 'impl': str(i), 'model': str(m), 'explained': bool(what)})
            if len(samples) < 3 and meta['rc'] == 1 and meta['rd'] == 2:
                samples.append({'counts': meta, 'allow_incomplete': inc, 'default': a[:2], '-O': b[:2]})
        # the default of every construction route (the keyword left out) is "incompleteness is not allowed"
        import tempfile
        import shutil
        import fakes3
        from mosromgr.moscollection import MosCollection, MosReader
        from mosromgr.utils import s3 as s3mod
        ro_t = to_text(gens.make_ro(['A'], message_id=1))
        ap_t = to_text(story_append(2, [gens.new_story('N')]))
        rd_t = to_text(ro_delete(3))
        tmp = tempfile.mkdtemp(prefix='mosverif-c11-')
        saved = (s3mod.s3._client, s3mod.s3._resource)
        try:
            for complete in (True, False):
                docs_ = [ro_t, ap_t] + ([rd_t] if complete else [])
                paths = []
                for k, t in enumerate(docs_):
                    paths.append(os.path.join(tmp, 'c%d-%d.mos.xml' % (complete, k)))
                    open(paths[-1], 'w', encoding='utf-8').write(t)
                fakes3.install(s3mod, objects={'p/%d.mos.xml' % k: t.encode('utf-8') for k, t in enumerate(docs_)})
                for inc in (None, False, True):
                    kw = {} if inc is None else {'allow_incomplete': inc}
                    routes = {'MosCollection(readers)': lambda: MosCollection(sorted(MosReader.from_string(t) for t in docs_), **kw),
                              'from_strings': lambda: MosCollection.from_strings(docs_, **kw),
                              'from_files': lambda: MosCollection.from_files(paths, **kw),
                              'from_s3': lambda: MosCollection.from_s3(bucket_name='b', prefix='p/', **kw),
                              'from_s3 with suffix': lambda: MosCollection.from_s3(bucket_name='b', prefix='p/', suffix='.mos.xml', **kw)}
                    for name, fn in routes.items():
                        try:
                            fn()
                            got = 'accepted'
                        except Exception as e:
                            got = type(e).__name__
                        n += 1
                        sigs.add(('route', name, inc, complete, got))
                        want = 'accepted' if (complete or inc) else 'InvalidMosCollection'
                        if got != want:
                            how = 'without allow_incomplete' if inc is None else 'with allow_incomplete=%s' % inc
                            vio.append({'what': '%s %s: a collection %s roDelete is %s, expected %s' % (name, how, 'with its' if complete else 'without a', got, want),
                                        'case': {'kind': 'default-route', 'route': name, 'docs': docs_, 'inc': inc}, 'impl': got, 'expected': want})
            # a roCreate document that is itself a completed running order (written out after an earlier merge) is still
            # one roCreate and no roDelete
            done_t = X.tree_to_string(impl.run_add(ro_t, rd_t)['tree'])
            for docs_, inc, want in (([done_t, ap_t], False, 'InvalidMosCollection'), ([done_t, ap_t], True, 'accepted'),
                                     ([done_t, ap_t, rd_t], False, 'accepted'), ([done_t, rd_t, rd_t], True, 'InvalidMosCollection')):
                for how in ('strings', 'files', 's3'):
                    io = impl.run_coll(docs_, inc, False, how=how, tmpdir=tmp)
                    got = io.get('err0') or 'accepted'
                    n += 1
                    sigs.add(('completed-rc', len(docs_), inc, how, got))
                    if got != want:
                        vio.append({'what': 'from_%s over a completed roCreate document and %d other messages (allow_incomplete=%s): %s, expected %s' % (how, len(docs_) - 1, inc, got, want),
                                    'case': {'kind': 'twice', 'docs': docs_, 'how': how, 'inc': inc, 'want': want}, 'impl': got, 'expected': want})
            # the very same document supplied twice is two messages, whichever way the collection is built (for from_files:
            # one path listed twice, the second time in another spelling)
            for label, docs_ in (('the roCreate twice', [ro_t, ap_t, rd_t, ro_t]), ('the roDelete twice', [ro_t, ap_t, rd_t, rd_t]),
                                 ('another message twice', [ro_t, ap_t, rd_t, ap_t])):
                for how in ('strings', 'files', 's3'):
                    io = impl.run_coll(docs_, False, False, how=how, tmpdir=tmp)
                    got = io.get('err0') or 'accepted'
                    want = 'accepted' if label == 'another message twice' else 'InvalidMosCollection'
                    n += 1
                    sigs.add(('twice', label, how, got))
                    if got != want:
                        vio.append({'what': 'from_%s with %s: %s, expected %s' % (how, label, got, want),
                                    'case': {'kind': 'twice', 'docs': docs_, 'how': how}, 'impl': got, 'expected': want})
        finally:
            s3mod.s3._client, s3mod.s3._resource = saved
            shutil.rmtree(tmp, ignore_errors=True)
        import static
        asserts = static.validate_asserts(impl.REPO)
        if asserts and not vio:
            dis.append({'case': {'kind': 'static', 'assert_lines': asserts}, 'impl': 'MosCollection._validate contains assert statements',
                        'model': 'validation is unconditional', 'explained': False})
        return {'evaluations': n, 'distinct': len(sigs), 'rule': self.rule, 'samples': samples,
                'distribution': {'collections': len(cols)}, 'disagreements': dis, 'violations': vio,
                'exhaustive': True, 'extra': {'flags': ['default', '-O']}}

    def replay(self, rep):
        case = rep.get('case') or {}
        if 'docs' not in case:
            return {'violation': False, 'note': str(rep.get('detail'))}
        flags = ['-O'] if case.get('flag') == '-O' else []
        if case.get('kind') == 'twice':
            import tempfile
            import shutil
            tmp = tempfile.mkdtemp(prefix='mosverif-c11-')
            try:
                io = impl.run_coll(case['docs'], bool(case.get('inc')), False, how=case['how'], tmpdir=tmp)
            finally:
                shutil.rmtree(tmp, ignore_errors=True)
            if case.get('want'):
                return {'violation': (io.get('err0') or 'accepted') != case['want'], 'impl': io.get('err0') or 'accepted'}
            want_reject = case['docs'].count(case['docs'][0]) > 1 or len(case['docs']) != len(set(case['docs'])) and case['docs'][-1] == case['docs'][2]
            return {'violation': (io.get('err0') == 'InvalidMosCollection') != bool(want_reject), 'impl': io.get('err0') or 'accepted'}
        if case.get('kind') == 'default-route':
            # replayed through from_strings without the keyword (the route itself is named in the report)
            case = dict(case, inc=case.get('inc'))
        r = run_sub(flags, 'collection', [{'docs': case['docs'], 'inc': case['inc']}])[0]
        mo = engine.readers_cases([{'docs': case['docs'], 'inc': bool(case['inc'])}])[0]
        return {'violation': (r[0] == 'ok') != (mo[0] == 'ok') or (r[0] == 'err' and r[1] != 'InvalidMosCollection'), 'impl': r[:2], 'model': str(mo)}

    def shrink(self, v):
        return v
