"""C02 — item order inside the addressed story follows the MOS protocol."""
import collections
import exchange as X
import gens
from docs import to_text
from checks.base import AddCheck, story_ids, item_ids, rc_of, child_tags, err_class
from checks.c01 import history_states

LEVEL = 'proof'
ASSUMPTIONS = [
    'theorems are about the hand-written Gallina model (coq/theories/Merge.v, Seq.v); the correspondence run ties it to /repo',
    'order theorem hypotheses: the addressed story exists, its items have an <itemID>, item IDs unique within that story, schema-shaped message, references resolve (proto_item)',
]
ITEM_CLASSES = {'ItemDelete', 'ItemInsert', 'ItemMoveMultiple', 'ItemReplace', 'EAItemReplace',
                'EAItemDelete', 'EAItemInsert', 'EAItemSwap', 'EAItemMove'}
CONSERVING = {'ItemMoveMultiple', 'EAItemSwap', 'EAItemMove'}


class Check(AddCheck):
    pid = 'C02'
    rule = ('exhaustive: a 3-story running order whose addressed story has 0..n items x 4 paragraph layouts '
            '(the other stories re-use the same item IDs) x every item-level message (9 classes) with every '
            'ordered selection of source IDs from {existing, unknown, blank} and every reference item; plus seeded '
            'random item-level messages on states reached by random histories. non-trivial = document changed, '
            'warning or exception; distinct by (class, #items, layout, outcome class, warnings)')

    def gen(self, tier, rng):
        n_max, max_src = (3, 2) if tier == 'quick' else (5, 3)
        yield from gens.merge_cases_item(n_max=n_max, max_src=max_src)
        yield from gens.merge_cases_multi_move('item', rng)
        yield from gens.merge_cases_padded()
        yield from gens.merge_cases_special_ids()
        yield from gens.merge_cases_decoy_payload()
        n_hist = 150 if tier == 'quick' else 1500
        for state in history_states(rng, n_hist, 10):
            sids, items = gens.state_ids(state)
            k = [0]

            def fresh():
                k[0] += 1
                return 'f%d' % k[0]
            for j in range(4):
                doc = gens.random_item_message(rng, sids, items, 600 + j, fresh)
                yield {'ro': state, 'msg': to_text(doc), 'meta': {'cls': doc[3].tag, 'n': len(sids), 'para': 'history'}}

    def obs(self, o):
        if 'classerr' in o:
            return ('classerr', o['classerr'])
        rc = rc_of(o['tree'])
        stories = [k for k in (rc[4] if rc else ()) if k[0] == 'story']
        return (err_class(o), tuple(tuple(map(repr, item_ids(s))) for s in stories),
                tuple(tuple(child_tags(s)) for s in stories))

    def violation(self, case, io, claim, before):
        if 'classerr' in io:
            return None
        cls = io.get('cls')
        if cls not in ITEM_CLASSES:
            return None
        rc0, rc1 = rc_of(before), rc_of(io['tree'])
        if rc0 is None or rc1 is None:
            return None
        if cls in CONSERVING:
            if len(rc0[4]) != len(rc1[4]):
                return '%s changed the number of children of roCreate' % cls
            for a, b in zip(rc0[4], rc1[4]):
                if collections.Counter(a[4]) != collections.Counter(b[4]):
                    return '%s added or lost a child of a story' % cls
            if io.get('err') and rc0 != rc1:
                return '%s raised %s but changed the running order' % (cls, io['err'])
        if claim and claim[0] == 'item':
            idx, want = claim[1], claim[2]
            s0 = rc0[4][idx]
            ids0 = item_ids(s0)
            if len(set(map(repr, ids0))) != len(ids0):
                return None
            if io.get('err'):
                return '%s raised %s although every reference resolves' % (cls, io['err'])
            if len(rc1[4]) != len(rc0[4]):
                return '%s changed the number of children of roCreate' % cls
            for j, (a, b) in enumerate(zip(rc0[4], rc1[4])):
                if j != idx and a != b:
                    return '%s changed child %d of roCreate, which it does not address' % (cls, j)
            got = item_ids(rc1[4][idx])
            if got != want:
                return '%s: item IDs of the addressed story %r, protocol demands %r' % (cls, got, want)
        return None
