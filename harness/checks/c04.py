"""C04 — stories, items and metadata carried by a message arrive intact."""
import gens
import impl
import engine
import exchange as X
from docs import (E, to_text, ABSENT, story, item, p, payload, story_send, story_append, story_insert, story_replace,
                  item_insert, item_replace, element_action, ref, ea_target, ro_replace, metadata_replace)
from checks.base import AddCheck, rc_of, err_class
from checks.c06 import base_tag, texts

LEVEL = 'proof'
ASSUMPTIONS = ['payload theorems: carried elements are spliced in as identical values (gen_insert / gen_replace / insert_dups), the '
               'roStorySend conversion shape, roReplace content, roMetadataReplace presence',
               'the correspondence compares complete trees, so every attribute, text, tail and child of a carried element is observed']

SPECIAL = ['plain', 'a & b', '<tag>', '"quoted" \'single\'', ']]>', 'café ☃', '\U0001F600 astral', '  spaced  ', 'line\nbreak\ttab', '',
           'e\u0301 decomposed', '\u212bngstr\u00f6m \u2126', '\u0338 struck through', '\ufb01 ligature \u1e9b\u0323']


# vendor XML in a namespace of its own (as ElementTree names it): foreign elements called item, story, p, storyID ...
NS_TAGS = ['{urn:vendor:video}clip', '{urn:vendor:gfx}item', '{urn:vendor:gfx}story', '{urn:vendor:gfx}p', '{urn:vendor:gfx}storyID',
           '{urn:vendor:gfx}itemID', '{urn:vendor:video}mosPayload']


def deep(rng, depth, ns=False):
    """ns: a third of the elements (and some attributes) are in an XML namespace - not for checks that compare with the
    model serialiser, which has no namespaces"""
    kids = []
    if depth > 0:
        for _ in range(rng.randrange(0, 3)):
            kids.append(deep(rng, depth - 1, ns))
    tag = rng.choice(NS_TAGS) if ns and rng.random() < 0.35 else rng.choice(['meta', 'field', 'group', 'x', 'L\u00e4nge', '\u503c'])
    e = E(tag, *kids, text=rng.choice(SPECIAL + [None]), tail=rng.choice([None, ' t ', '\n', 'tail & more']))
    if rng.random() < 0.5:
        e.set(rng.choice(['kind', 'id', 'lang', 'gepr\u00fcft'] + (['{urn:vendor:video}rate', '{urn:vendor:gfx}id'] if ns else [])), rng.choice(SPECIAL))
    return e


def rich_item(rng, iid, depth, ns=False):
    e = item(iid, slug=rng.choice(SPECIAL), extra=[deep(rng, depth, ns) for _ in range(rng.randrange(0, 3))])
    e.tail = rng.choice([None, '\n  ', 'x'])
    return e


def rich_story(rng, sid, depth, ns=False):
    body = []
    for j in range(rng.randrange(0, 4)):
        if rng.random() < 0.5:
            body.append(E('p', text=rng.choice(SPECIAL), tail=rng.choice([None, ' ', 'after'])))
        body.append(rich_item(rng, 'p%d' % j, depth, ns))
        if ns and rng.random() < 0.2:
            body.append(E('{urn:vendor:gfx}item', E('{urn:vendor:gfx}itemID', text='p%d' % j), E('itemID', text='foreign')))
    e = story(sid, body=body, slug=rng.choice(SPECIAL), meta=payload(duration='5') if rng.random() < 0.5 else None,
              extra=[deep(rng, depth, ns)])
    e.set('rev', rng.choice(SPECIAL))
    e.tail = rng.choice([None, '\n', 'tail'])
    return e


def expected_story_send(b):
    """independent transcription of the conversion: (tag story, children of the first storyBody spliced in place,
    direct storyItem children renamed item)"""
    kids = []
    done = False
    for k in b[4]:
        if k[0] == 'storyBody' and not done:
            done = True
            for c in k[4]:
                kids.append(('item',) + c[1:] if c[0] == 'storyItem' else c)
        else:
            kids.append(k)
    return ('story', b[1], b[2], b[3], tuple(kids))


class Check(AddCheck):
    pid = 'C04'
    needs_claims = False
    rule = ('seeded random payloads: 0..3 carried stories / items of nesting depth <=4 [<=7] with attributes, mixed text and tails, '
            'markup-significant and non-ASCII characters, vendor elements and attributes in XML namespaces of their own (foreign item / story / p / storyID), comments and processing instructions between and inside the elements; roStorySend with storyBody at every position among its siblings, '
            'storyItem / p / other children interleaved; roReplace and roMetadataReplace with rich content; for all 13 '
            'payload-carrying classes, onto running orders with the target first / middle / last / blank. '
            'distinct by (class, #carried, target position, outcome)')

    def gen(self, tier, rng):
        yield from gens.merge_cases_decoy_payload()
        n = 150 if tier == 'quick' else 1500
        depth = 4 if tier == 'quick' else 7
        for r in range(n):
            sids = gens.STORY_IDS[:rng.randrange(1, 5)]
            ro = to_text(gens.make_ro(sids, layout=rng.choice(gens.RO_LAYOUTS), para_layout=rng.choice(gens.PARA_LAYOUTS),
                                      timing=rng.choice(gens.TIMINGS)))
            if rng.random() < 0.5:
                # attributes and text on the roCreate element itself: after roReplace the content is the sent one, nothing else
                from xml.etree import ElementTree as ET_
                d_ = ET_.fromstring(ro)
                rc_ = d_.find('roCreate')
                rc_.set('channel', 'A')
                rc_.set('rev', '1')
                if rc_.text is None and rng.random() < 0.5:
                    rc_.text = '\n  '
                ro = ET_.tostring(d_, encoding='unicode')
            tgt = rng.choice(sids + [None])
            ns = rng.random() < 0.4              # vendor XML in namespaces of its own inside what is carried
            its = gens.ITEM_IDS[:2]
            itgt = rng.choice(its + [None])
            # a carried story may bear the ID of a story that is already there (inserts skip it, replaces and appends do not)
            new_s = [rich_story(rng, rng.choice(sids) if rng.random() < 0.15 else 'N%d' % j, rng.randrange(0, depth), ns) for j in range(rng.randrange(0, 4))]
            new_i = [rich_item(rng, 'n%d' % j, rng.randrange(0, depth), ns) for j in range(rng.randrange(0, 4))]
            mid = 40
            docs = [
                story_append(mid, new_s), story_insert(mid, tgt, new_s), story_replace(mid, tgt, new_s),
                element_action(mid, 'INSERT', [ref('storyID', tgt)], [new_s]),
                element_action(mid, 'REPLACE', [ref('storyID', tgt)], [new_s]),
                item_insert(mid, sids[0], itgt, new_i), item_replace(mid, sids[0], itgt, new_i),
                element_action(mid, 'INSERT', ea_target(sids[0], itgt), [new_i]),
                element_action(mid, 'REPLACE', ea_target(sids[0], itgt), [new_i]),
            ]
            # roStorySend: storyBody at a random position
            pre = [E('storySlug', text=rng.choice(SPECIAL))] + [deep(rng, 2, ns) for _ in range(rng.randrange(0, 3))]
            post = [deep(rng, 2, ns) for _ in range(rng.randrange(0, 3))] + ([payload(duration='7')] if rng.random() < 0.5 else [])
            body = []
            for j in range(rng.randrange(0, 5)):
                c = rng.random()
                if c < 0.4:
                    si = rich_item(rng, 'b%d' % j, 2, ns)
                    si.tag = 'storyItem'
                    body.append(si)
                elif c < 0.8:
                    body.append(E('p', text=rng.choice(SPECIAL), tail=rng.choice([None, ' '])))
                else:
                    body.append(E('wrapper', E('storyItem', E('itemID', text='nested'))))
            ss = story_send(mid, rng.choice(sids), body=body, pre=pre, post=post)
            ss[3].set('attr', rng.choice(SPECIAL))
            sb = ss[3].find('storyBody')
            if rng.random() < 0.5:
                sb.set('Read1stMEMasBody', 'true')        # attributes, text and tail of the wrapper itself
                if rng.random() < 0.5:
                    sb.set('attr', 'on the body')
            if rng.random() < 0.3:
                sb.text, sb.tail = '\n  ', ' after body '
            docs.append(ss)
            rr = ro_replace(mid, [rich_story(rng, 'R%d' % j, 2, ns) for j in range(rng.randrange(0, 3))] + [deep(rng, 2, ns)])
            if rng.random() < 0.5:
                rr[3].set('rev', '2')                # an attribute on roReplace (same name as one on roCreate) and leading text
                rr[3].text = rng.choice([None, ' lead '])
            docs.append(rr)
            docs.append(metadata_replace(mid, [E('roSlug', text=rng.choice(SPECIAL)), deep(rng, 3, ns),
                                               E('mosExternalMetadata', E('mosSchema', text='http://schema/ro'), E('mosPayload', deep(rng, 3, ns)))]))
            for d in docs:
                yield {'ro': ro, 'msg': gens.sprinkle(rng, to_text(d)), 'meta': {'cls': d[3].tag + (':' + d[3].get('operation', '') if d[3].get('operation') else ''), 'n': len(sids)}}

    def run(self, tier, rng, log):
        res = super().run(tier, rng, log)
        # what is carried arrives intact wherever the message was read from: the same message stored as a file in the
        # encoding its XML declaration names (ISO-8859-1, windows-1252, UTF-16, UTF-8 with BOM), merged, against the merge
        # of the message parsed from the str
        import os
        import tempfile
        import shutil
        import warnings
        from mosromgr.mostypes import RunningOrder, MosFile
        ro_text = to_text(gens.make_ro(['A', 'B'], layout='plain'))
        accented = ['Z\u00fcrich d\u00e9p\u00eache', 'na\u00efve \u00c3\u00a9 \u00bf?', 'plain ascii', '\u00a3 5 \u00b1 1']
        tmp = tempfile.mkdtemp(prefix='mosverif-c04-')
        n = 0
        try:
            for k, slug in enumerate(accented):
                st = story('N%d' % k, body=[item('n1', slug=slug), p(slug)], slug=slug)
                st.set('note', slug)
                docs = [story_append(40, [st]), story_send(41, 'A', body=[p(slug), E('storyItem', E('itemID', text='q'), E('itemSlug', text=slug))], pre=[E('storySlug', text=slug)]),
                        metadata_replace(42, [E('roSlug', text=slug)]), ro_replace(43, [st], slug=slug)]
                for d in docs:
                    text = to_text(d)
                    want = impl.run_add(ro_text, text)
                    # ... and through a collection built from strs whose XML declaration names another encoding (it means
                    # nothing for a str): what is carried arrives as sent
                    from mosromgr.moscollection import MosCollection
                    for enc in ('ISO-8859-1', 'UTF-16'):
                        decl = '<?xml version="1.0" encoding="%s"?>' % enc
                        n += 1
                        try:
                            with warnings.catch_warnings():
                                warnings.simplefilter('ignore')
                                mc = MosCollection.from_strings([decl + text, decl + ro_text], allow_incomplete=True)
                                mc.merge()
                            got = X.elem_to_tree(mc.ro.xml)
                        except Exception as e:
                            got = 'raises ' + impl.ename(e)
                        if got != want.get('tree'):
                            res['violations'].append({'what': '%s in a collection built from strs declaring %s: what arrives in the running order is not what the message brings when added directly (%s)'
                                                              % (d[3].tag, enc, got if isinstance(got, str) else 'content differs'),
                                                      'case': {'kind': 'file-source', 'ro': ro_text, 'msg': text, 'encoding': 'collection:' + enc},
                                                      'impl': str(got)[:300], 'expected': 'the tree of the merge of the parsed str'})
                    for enc in ('iso-8859-1', 'windows-1252', 'utf-16', 'utf-8-sig'):
                        path = os.path.join(tmp, 'm.mos.xml')
                        decl = '' if enc == 'utf-8-sig' else '<?xml version="1.0" encoding="%s"?>' % enc
                        try:
                            data = (decl + text).encode(enc)
                        except UnicodeEncodeError:
                            continue
                        with open(path, 'wb') as f:
                            f.write(data)
                        n += 1
                        try:
                            with warnings.catch_warnings():
                                warnings.simplefilter('ignore')
                                ro = RunningOrder.from_string(ro_text)
                                ro += MosFile.from_file(path)
                            got = X.elem_to_tree(ro.xml)
                        except Exception as e:
                            got = 'raises ' + impl.ename(e)
                        if got != want.get('tree'):
                            res['violations'].append({'what': '%s read from a file stored in %s: what arrives in the running order is not what the same message read from a str brings (%s)'
                                                              % (d[3].tag, enc, got if isinstance(got, str) else 'content differs'),
                                                      'case': {'kind': 'file-source', 'ro': ro_text, 'msg': text, 'encoding': enc},
                                                      'impl': str(got)[:300], 'expected': 'the tree of the merge of the parsed str'})
        finally:
            shutil.rmtree(tmp, ignore_errors=True)
        res['evaluations'] += n
        res['extra']['file_source_merges'] = n
        return res

    def replay(self, rep):
        case = rep.get('case') or {}
        if case.get('kind') != 'file-source':
            return super().replay(rep)
        import os
        import tempfile
        import shutil
        from mosromgr.mostypes import RunningOrder, MosFile
        enc = case['encoding']
        if enc.startswith('collection:'):
            from mosromgr.moscollection import MosCollection
            decl = '<?xml version="1.0" encoding="%s"?>' % enc.split(':')[1]
            want = impl.run_add(case['ro'], case['msg'])
            try:
                mc = MosCollection.from_strings([decl + case['msg'], decl + case['ro']], allow_incomplete=True)
                mc.merge()
                got = X.elem_to_tree(mc.ro.xml)
            except Exception as e:
                got = 'raises ' + impl.ename(e)
            return {'violation': got != want.get('tree'), 'encoding': enc}
        decl = '' if enc == 'utf-8-sig' else '<?xml version="1.0" encoding="%s"?>' % enc
        tmp = tempfile.mkdtemp(prefix='mosverif-c04-')
        try:
            path = os.path.join(tmp, 'm.mos.xml')
            with open(path, 'wb') as f:
                f.write((decl + case['msg']).encode(enc))
            want = impl.run_add(case['ro'], case['msg'])
            try:
                ro = RunningOrder.from_string(case['ro'])
                ro += MosFile.from_file(path)
                got = X.elem_to_tree(ro.xml)
            except Exception as e:
                got = 'raises ' + impl.ename(e)
        finally:
            shutil.rmtree(tmp, ignore_errors=True)
        return {'violation': got != want.get('tree'), 'encoding': enc}

    def shrink(self, v):
        if (v.get('case') or {}).get('kind') == 'file-source':
            return v
        return super().shrink(v)

    def obs(self, o):
        if 'classerr' in o:
            return ('classerr', o['classerr'])
        return (err_class(o), o['tree'])

    def obs_case(self, case, o):
        """obs_C04: the outcome class and, for every ID the message carries, the subtrees of the result with
        that ID (stories by storyID, items by itemID); the whole roCreate for roReplace; the children with a
        carried tag for roMetadataReplace"""
        if 'classerr' in o:
            return ('classerr', o['classerr'])
        msg = X.elem_to_tree(impl.parse_doc(case['msg']))
        b = base_tag(msg)
        rc = rc_of(o['tree'])
        cls = o.get('cls')
        if rc is None or b is None:
            return (err_class(o), None)
        if cls == 'RunningOrderReplace':
            return (err_class(o), rc)
        if cls == 'MetaDataReplace':
            tags = {k[0] for k in b[4]}
            return (err_class(o), tuple(k for k in rc[4] if k[0] in tags))
        sids, iids = set(), set()

        def walk(t, in_story):
            if t[0] in ('story', 'roStorySend'):
                c = X.find(t, 'storyID')
                if c is not None and t[0] == 'story' or t[0] == 'roStorySend':
                    sids.add(repr(c[2] if c is not None else None))
            if t[0] in ('item', 'storyItem'):
                c = X.find(t, 'itemID')
                iids.add(repr(c[2] if c is not None else None))
            for k in t[4]:
                walk(k, in_story)
        walk(b, False)
        found = []
        for k in rc[4]:
            if k[0] == 'story':
                if repr(X.child_text(k, 'storyID')) in sids:
                    found.append(k)
                else:
                    for it in k[4]:
                        if it[0] == 'item' and repr(X.child_text(it, 'itemID')) in iids:
                            found.append(it)
        return (err_class(o), tuple(found))

    def signature(self, case, io):
        return (io.get('cls'), case['meta'].get('n'), err_class(io), len(io.get('warns') or ()))

    def violation(self, case, io, claim, before):
        if 'classerr' in io or io.get('err'):
            return None
        cls = io['cls']
        msg = X.elem_to_tree(impl.parse_doc(case['msg']))
        b = base_tag(msg)
        rc0, rc1 = rc_of(before), rc_of(io['tree'])

        def contiguous(hay, needles):
            n = len(needles)
            return n == 0 or any(tuple(hay[j:j + n]) == tuple(needles) for j in range(len(hay) - n + 1))
        if cls in ('StoryAppend', 'StoryInsert', 'StoryReplace', 'EAStoryInsert', 'EAStoryReplace'):
            src = b if not cls.startswith('EA') else (X.findall(b, 'element_source') or [None])[0]
            carried = X.findall(src, 'story') if src else []
            if cls in ('StoryInsert', 'EAStoryInsert'):
                have = [X.child_text(k, 'storyID') for k in rc0[4] if k[0] == 'story']
                kept = []
                for c in carried:
                    cid = X.child_text(c, 'storyID')
                    if cid not in have:
                        kept.append(c)
                        have.append(cid)
                carried = kept
            if not contiguous(list(rc1[4]), carried):
                return '%s: the carried stories do not appear in the running order with the content that was sent' % cls
        if cls in ('ItemInsert', 'ItemReplace', 'EAItemInsert', 'EAItemReplace'):
            src = b if not cls.startswith('EA') else (X.findall(b, 'element_source') or [None])[0]
            tgt = b if not cls.startswith('EA') else X.find(b, 'element_target')
            sid = (texts(tgt[4], 'storyID') or [None])[0]
            carried = X.findall(src, 'item') if src else []
            st = next((k for k in rc1[4] if k[0] == 'story' and X.child_text(k, 'storyID') == sid), None)
            if st is None or not contiguous(list(st[4]), carried):
                return '%s: the carried items do not appear in story %r with the content that was sent' % (cls, sid)
        if cls == 'StorySend' and not io.get('warns'):
            want = expected_story_send(b)
            if want not in rc1[4]:
                return 'roStorySend: the story in the running order is not the sent story with its storyBody spliced in place'
        if cls == 'RunningOrderReplace':
            if rc1 != ('roCreate',) + b[1:]:
                return 'roReplace: the running-order content is not the sent one'
        if cls == 'MetaDataReplace':
            for k, c in enumerate(b[4]):
                later_same = any(x[0] == c[0] and (c[0] != 'mosExternalMetadata' or X.child_text(x, 'mosSchema') == X.child_text(c, 'mosSchema')) for x in b[4][k + 1:])
                if not later_same and c not in rc1[4]:
                    return 'roMetadataReplace: carried <%s> is not in the running order with the sent content' % c[0]
        return None
