"""Case generators: exhaustive small scopes and seeded random large ones.

A merge case is a dict {'ro': xml text, 'msg': xml text, 'meta': {...}}.
Every random choice derives from the random.Random instance passed in."""
import copy
import itertools
from docs import (E, ABSENT, to_text, mos, payload, item, story, p, ro_create, ro_head,
                  story_send, story_append, story_delete, story_insert, story_move,
                  story_replace, item_delete, item_insert, item_move_multiple, item_replace,
                  ro_replace, metadata_replace, ready_to_air, ro_delete, element_action,
                  ea_target, ref)

STORY_IDS = ['A', 'B', 'C', 'D', 'E', 'F', 'G', 'H']
ITEM_IDS = ['i1', 'i2', 'i3', 'i4', 'i5', 'i6']
UNKNOWN = 'ZZ'

RO_LAYOUTS = ['plain', 'between', 'trailing', 'nometa', 'bare', 'blankids', 'noids', 'decoys', 'dupstories', 'noslug']
PARA_LAYOUTS = ['none', 'between', 'leading', 'trailing', 'idlast']
TIMINGS = ['all', 'none', 'mixed']


def story_body(item_ids, para_layout, tagp='p'):
    body = []
    if para_layout == 'leading':
        body.append(p('lead'))
    for k, iid in enumerate(item_ids):
        if para_layout == 'between' and k > 0:
            body.append(p('between %d' % k))
        body.append(item(iid, slug='slug-' + str(iid)))
    if para_layout == 'trailing':
        body.append(p('trail'))
        body.append(E('storyNum', text='7'))
    return body


def timing_meta(k, timing):
    if timing == 'none' or (timing == 'mixed' and k % 2 == 1):
        return None
    if k % 3 == 0:
        return payload(duration='%d.5' % (10 + k))
    if k % 3 == 1:
        return payload(text_time='%d' % (3 + k), media_time='1.25')
    return payload(media_time='%d.125' % k)


def make_ro(story_ids, layout='plain', items=None, para_layout='none', timing='none',
            ed_start=None, message_id=1, ro_id='RO1'):
    """items: dict story id -> list of item ids (default: two items i1, i2)"""
    kids = []
    if layout == 'bare':
        pass            # nothing before the first story: roID and roSlug come after the stories
    elif layout == 'noslug':
        kids.append(E('roID', text=ro_id))
    elif layout != 'nometa':
        kids += ro_head(ro_id)
    else:
        kids.append(E('roID', text=ro_id))
    if ed_start is not None:
        kids.append(E('roEdStart', text=ed_start))
    for k, sid in enumerate(story_ids):
        if layout == 'between' and k > 0:
            kids.append(E('roTrigger', text='t%d' % k))
        its = ITEM_IDS[:2] if items is None else items.get(sid, [])
        st_ = story(sid, body=story_body(its, para_layout), slug='Story ' + str(sid), meta=timing_meta(k, timing))
        if para_layout == 'idlast':
            # the story's own fields after its body: the first child of the story is an item (child index 0), the
            # storyID comes last - the library finds it by name, not by position
            head = [c for c in st_ if c.tag in ('storyID', 'storySlug')]
            for c in head:
                st_.remove(c)
            for c in head:
                st_.append(c)
        if layout == 'noslug':
            for c in [c for c in st_ if c.tag == 'storySlug']:
                st_.remove(c)                      # the optional slugs left out (the running order's own too)
        kids.append(st_)
        if layout in ('blankids', 'noids') and k == 0:
            # placeholder stories: a blank <storyID/> (holding an item with a blank <itemID/>) and, in
            # 'noids', one with no storyID at all - no reference, blank or not, may ever select them
            kids.append(story(None, body=[item(ITEM_IDS[0], slug='in-blank'), item(None, slug='blank-item')], slug='Blank'))
            if layout == 'noids':
                kids.append(story(ABSENT, body=[item(ITEM_IDS[0], slug='in-noid'), item(ABSENT, slug='noid-item')], slug='NoId'))
    if layout == 'dupstories' and story_ids:
        # a second story with the ID of the first one (other items, other slug) at the end: every lookup finds the first
        kids.append(story(story_ids[0], body=[item(ITEM_IDS[0], slug='twin-1'), p('twin para'), item('twin-only', slug='twin-2')],
                          slug='Twin of ' + str(story_ids[0])))
    if layout == 'decoys':
        add_decoys(kids)
    if layout == 'bare':
        kids += ro_head(ro_id)
    if layout == 'trailing':
        kids.append(E('mosExternalMetadata', E('mosSchema', text='http://schema/ro'),
                      E('mosPayload', E('Owner', text='x'))))
    return ro_create(kids, message_id=message_id)


def cross_refs(story_ids, item_ids):
    """a payload that cross-references other stories / items of the running order by their IDs"""
    return E('mosExternalMetadata', E('mosSchema', text='http://schema/xref'),
             E('mosPayload', *[E('relatedStory', E('storyID', text=s)) for s in story_ids],
               *[E('relatedItem', E('itemID', text=i)) for i in item_ids]))


def decoy_block():
    """elements with the names the library searches for (storyID, itemID, story, item, p, roSlug, mosPayload ...),
    nested where no lookup should ever find them: inside the free-form payload of an item.  Their texts are the IDs
    that generated messages carry (N1, N2, n1, n2), reference as unknown (ZZ) or find elsewhere (A, i1)."""
    return E('mosExternalMetadata', E('mosSchema', text='http://schema/decoy'),
             E('mosPayload',
               E('linked', E('storyID', text='N1'), E('storyID', text=UNKNOWN), E('itemID', text='n1'), E('itemID', text=UNKNOWN)),
               E('story', E('storyID', text='N2'), E('storySlug', text='decoy story'), E('item', E('itemID', text='n2'), E('itemSlug', text='decoy item')), E('p', text='decoy paragraph')),
               E('item', E('itemID', text='i1'), E('itemSlug', text='nested item')),
               E('item', E('itemID', text='i2'), E('itemSlug', text='nested twin of an item that comes later in the story')),
               E('story', E('storyID', text='B'), E('storySlug', text='nested twin of a story that comes later')),
               E('playlist', E('item', E('itemID', text='GFX1')), E('item', E('itemID', text='n1'))),
               E('roSlug', text='decoy slug'), E('StoryDuration', text='999'), E('p', text='(decoy note)'),
               # an element with the name of the completion record, and the message element names, where no search belongs
               E('mosromgrmeta', E('roDelete', E('roID', text='RO1'))), E('roCreate', E('roID', text='DECOY'), E('story', E('storyID', text='N1'))),
               # ... and the names of the envelope's own fields
               E('header', E('messageID', text='77'), E('mosID', text='decoy.mos'), E('ncsID', text='decoy.ncs'), E('roEdDur', text='00:59:59'))))


def add_decoys(kids):
    """put a decoy block into the first item of the first story (or into the story when it has no item)"""
    for k in kids:
        if k.tag == 'story':
            host = k.find('item')
            (host if host is not None else k).append(decoy_block())
            return


def new_story(sid, n_items=1):
    return story(sid, body=[item('n%d' % k) for k in range(n_items)], slug='New ' + str(sid))


def new_item(iid):
    return item(iid, slug='new-' + str(iid))


def selections(pool, max_len, min_len=0, repeats=False):
    """ordered selections of up to max_len elements of pool"""
    for n in range(min_len, max_len + 1):
        if repeats:
            yield from itertools.product(pool, repeat=n)
        else:
            yield from itertools.permutations(pool, n)


def ea_ids(tag, ids, grouping):
    """element_source groups: 'one' = all IDs in one element_source, 'each' = one per ID"""
    if grouping == 'one':
        return [[ref(tag, i) for i in ids]]
    return [[ref(tag, i)] for i in ids]


# ---- story-level messages ---------------------------------------------------

def story_level_messages(existing, max_src=2, full_refs=True):
    """every story-level message (class, document, description) over the given existing IDs"""
    refs = list(existing) + [UNKNOWN, None]
    refs_abs = refs + [ABSENT]
    mid = 5
    new1, new2 = 'N1', 'N2'
    payloads = [[], [new1], [new1, new2]]
    if existing:
        payloads += [[existing[0], new1], [new1, existing[-1]], [new1, new1]]
    for sid in refs_abs:
        yield 'StorySend', story_send(mid, sid, body=[p('hello'), E('storyItem', E('itemID', text='s1')), p()],
                                      pre=[E('storySlug', text='sent')], post=[payload(duration='4')]), {'target': sid}
    for pl in payloads:
        yield 'StoryAppend', story_append(mid, [new_story(s) for s in pl]), {'payload': pl}
    for ids in selections(refs, max_src, repeats=True):
        yield 'StoryDelete', story_delete(mid, ids), {'ids': ids}
        for g in ('one', 'each'):
            if len(ids) < 2 and g == 'each':
                continue
            yield 'EAStoryDelete', element_action(mid, 'DELETE', None, ea_ids('storyID', ids, g) or [[]]), {'ids': ids, 'grouping': g}
    for tgt in refs_abs:
        for pl in payloads:
            yield 'StoryInsert', story_insert(mid, tgt, [new_story(s) for s in pl]), {'target': tgt, 'payload': pl}
            yield 'EAStoryInsert', element_action(mid, 'INSERT', [ref('storyID', tgt)], [[new_story(s) for s in pl]]), {'target': tgt, 'payload': pl}
            yield 'StoryReplace', story_replace(mid, tgt, [new_story(s) for s in pl]), {'target': tgt, 'payload': pl}
            yield 'EAStoryReplace', element_action(mid, 'REPLACE', [ref('storyID', tgt)], [[new_story(s) for s in pl]]), {'target': tgt, 'payload': pl}
    # absent element_target altogether
    yield 'EAStoryInsert', element_action(mid, 'INSERT', None, [[new_story(new1)]]), {'target': 'no-element_target', 'payload': [new1]}
    for src in refs:
        for tgt in refs_abs:
            ids = [src] if tgt == ABSENT else [src, tgt]
            yield 'StoryMove', story_move(mid, ids), {'source': src, 'target': tgt}
    yield 'StoryMove', story_move(mid, []), {'source': ABSENT, 'target': ABSENT}
    for tgt in refs_abs + ['no-element_target']:
        target = None if tgt == 'no-element_target' else [ref('storyID', tgt)]
        for srcs in selections(refs, max_src, min_len=1, repeats=True):
            for g in ('one', 'each'):
                if len(srcs) < 2 and g == 'each':
                    continue
                yield 'EAStoryMove', element_action(mid, 'MOVE', target, ea_ids('storyID', srcs, g)), {'target': tgt, 'sources': srcs, 'grouping': g}
    for ids in selections(refs, 3, repeats=True):
        if len(ids) == 3 and not full_refs:
            continue
        yield 'EAStorySwap', element_action(mid, 'SWAP', [ref('storyID', None)], [[ref('storyID', i) for i in ids]]), {'ids': ids}


# ---- item-level messages ----------------------------------------------------

def item_level_messages(story_refs, existing_items, max_src=2):
    """every item-level message addressed to each story reference"""
    irefs = list(existing_items) + [UNKNOWN, None]
    irefs_abs = irefs + [ABSENT]
    mid = 6
    payloads = [[], ['n1'], ['n1', 'n2']]
    if existing_items:
        payloads.append([existing_items[0], 'n1'])
    for sid in story_refs:
        for ids in selections(irefs, max_src, repeats=True):
            yield 'ItemDelete', item_delete(mid, sid, ids), {'story': sid, 'ids': ids}
            if ids:
                for g in ('one', 'each'):
                    if len(ids) < 2 and g == 'each':
                        continue
                    yield 'EAItemDelete', element_action(mid, 'DELETE', [ref('storyID', sid)], ea_ids('itemID', ids, g)), {'story': sid, 'ids': ids, 'grouping': g}
        for tgt in irefs_abs:
            for pl in payloads:
                yield 'ItemInsert', item_insert(mid, sid, tgt, [new_item(i) for i in pl]), {'story': sid, 'target': tgt, 'payload': pl}
                yield 'ItemReplace', item_replace(mid, sid, tgt, [new_item(i) for i in pl]), {'story': sid, 'target': tgt, 'payload': pl}
                if tgt != ABSENT:
                    yield 'EAItemInsert', element_action(mid, 'INSERT', ea_target(sid, tgt), [[new_item(i) for i in pl]]), {'story': sid, 'target': tgt, 'payload': pl}
                    yield 'EAItemReplace', element_action(mid, 'REPLACE', ea_target(sid, tgt), [[new_item(i) for i in pl]]), {'story': sid, 'target': tgt, 'payload': pl}
        for tgt in irefs:
            for srcs in selections(irefs, max_src, repeats=True):
                yield 'ItemMoveMultiple', item_move_multiple(mid, sid, list(srcs) + [tgt]), {'story': sid, 'target': tgt, 'sources': srcs}
                if srcs:
                    yield 'EAItemMove', element_action(mid, 'MOVE', ea_target(sid, tgt), [[ref('itemID', i) for i in srcs]]), {'story': sid, 'target': tgt, 'sources': srcs}
        for ids in selections(irefs, 3, min_len=1, repeats=True):
            if len(ids) == 3 and max_src < 2:
                continue
            yield 'EAItemSwap', element_action(mid, 'SWAP', [ref('storyID', sid)], [[ref('itemID', i) for i in ids]]), {'story': sid, 'ids': ids}


def other_messages(existing):
    mid = 7
    yield 'ReadyToAir', ready_to_air(mid), {}
    yield 'RunningOrderEnd', ro_delete(mid), {}
    yield 'RunningOrderReplace', ro_replace(mid, [new_story('R1'), E('roTrigger', text='x'), new_story('R2')]), {}
    yield 'RunningOrderReplace', ro_replace(mid, []), {}
    yield 'RunningOrder', make_ro(['X'], message_id=mid), {}
    md1 = E('mosExternalMetadata', E('mosSchema', text='http://schema/ro'), E('mosPayload', E('Owner', text='new')))
    md2 = E('mosExternalMetadata', E('mosSchema', text='http://schema/other'), E('mosPayload', E('Owner', text='other')))
    md3 = E('mosExternalMetadata', E('mosPayload', E('Owner', text='noschema')))
    for kids, name in [([E('roSlug', text='New slug')], 'slug'),
                       ([E('roSlug', text='New slug'), E('roChannel', text='1')], 'slug+new'),
                       ([E('roSlug', text='s'), md1], 'slug+md-same-schema'),
                       ([md2], 'md-other-schema'), ([md3], 'md-no-schema'),
                       ([md2, md1, E('roTrigger', text='tt')], 'several'), ([], 'empty')]:
        yield 'MetaDataReplace', metadata_replace(mid, kids), {'carried': name}


def merge_cases_story(n_max=4, max_src=2, layouts=RO_LAYOUTS, timing='all'):
    for n in range(0, n_max + 1):
        ids = STORY_IDS[:n]
        for layout in layouts:
            ro = to_text(make_ro(ids, layout=layout, timing=timing))
            for cls, doc, meta in story_level_messages(ids, max_src=max_src, full_refs=(n <= 3)):
                meta = dict(meta, cls=cls, n=n, layout=layout)
                yield {'ro': ro, 'msg': to_text(doc), 'meta': meta}


def merge_cases_item(n_max=4, max_src=2, para_layouts=PARA_LAYOUTS):
    for n in range(0, n_max + 1):
        its = ITEM_IDS[:n]
        for pl in para_layouts:
            # three stories; the addressed one is B; A and C re-use the same item IDs
            items = {'A': ITEM_IDS[:2], 'B': its, 'C': ITEM_IDS[:3]}
            ro = to_text(make_ro(['A', 'B', 'C'], layout='between', items=items, para_layout=pl))
            story_refs = ['B'] if n > 1 else ['B', UNKNOWN, None, ABSENT]
            for cls, doc, meta in item_level_messages(story_refs, its, max_src=max_src):
                meta = dict(meta, cls=cls, n=n, para=pl)
                yield {'ro': ro, 'msg': to_text(doc), 'meta': meta}
    yield from merge_cases_placeholder(max_src=min(max_src, 2))
    # the addressed story holds, nested in the payload of its first item, elements named item / story with the IDs of
    # real items / stories that come later: only the story's own children count
    ro = to_text(make_ro(['A', 'B'], layout='decoys'))
    for cls, doc, meta in item_level_messages(['A'], ITEM_IDS[:2], max_src=2):
        yield {'ro': ro, 'msg': to_text(doc), 'meta': dict(meta, cls=cls, n=2, para='decoys')}
    # two stories share an ID: item operations address the first one only (the twin holds an item the first lacks)
    ro = to_text(make_ro(['A', 'B'], layout='dupstories'))
    for cls, doc, meta in item_level_messages(['A'], ITEM_IDS[:2] + ['twin-only'], max_src=1):
        yield {'ro': ro, 'msg': to_text(doc), 'meta': dict(meta, cls=cls, n=2, para='dupstories')}


def merge_cases_optional_missing():
    """the story- and item-level message spaces over a running order without any of the optional fields (no roSlug, no
    storySlug, no itemSlug, no metadata), and replaces whose carried stories bear the IDs of other stories"""
    from xml.etree import ElementTree as ET
    root = make_ro(['A', 'B', 'C'], layout='noslug', timing='none')
    for e in list(root.iter()):
        for c in [c for c in e if c.tag in ('itemSlug', 'mosExternalMetadata')]:
            e.remove(c)
    ro = to_text(root)
    for cls, doc, meta in story_level_messages(['A', 'B'], max_src=2, full_refs=False):
        yield {'ro': ro, 'msg': to_text(doc), 'meta': dict(meta, cls=cls, n=3, layout='optional-missing')}
    for cls, doc, meta in item_level_messages(['B'], ITEM_IDS[:2], max_src=2):
        yield {'ro': ro, 'msg': to_text(doc), 'meta': dict(meta, cls=cls, n=3, para='optional-missing')}
    full = to_text(make_ro(['A', 'B', 'C'], layout='plain'))
    for new in ([new_story('C')], [new_story('A'), new_story('C')], [new_story('C'), new_story('N1')], [new_story('B')]):
        yield {'ro': full, 'msg': to_text(story_replace(5, 'B', new)), 'meta': {'cls': 'StoryReplace', 'n': 3, 'layout': 'replace-by-existing-ids'}}
        yield {'ro': full, 'msg': to_text(element_action(5, 'REPLACE', [ref('storyID', 'B')], [new])),
               'meta': {'cls': 'EAStoryReplace', 'n': 3, 'layout': 'replace-by-existing-ids'}}


def merge_cases_placeholder(max_src=2):
    """item-level messages whose story reference is blank or missing, against a running order that holds
    placeholder stories (blank / missing storyID) with items i1 and a blank-ID item: nothing may be selected"""
    for layout in ('blankids', 'noids'):
        ro = to_text(make_ro(['A', 'B'], layout=layout))
        for cls, doc, meta in item_level_messages([None, ABSENT], ITEM_IDS[:1], max_src=max_src):
            yield {'ro': ro, 'msg': to_text(doc), 'meta': dict(meta, cls=cls, n=1, para='placeholder-' + layout)}


def merge_cases_multi_move(level, rng=None):
    """moves of three (and, sampled, four or five) sources that straddle the target, in a story with six items /
    a running order with six stories: every ordered selection of 3 of the 5 other elements, target in the middle or blank"""
    ids = ['X', 'A', 'B', 'T', 'C', 'D']
    if level == 'item':
        variants = [('none', make_ro(['S0', 'S1'], layout='between', items={'S0': ids[:2], 'S1': ids}, para_layout='none')),
                    ('between', make_ro(['S0', 'S1'], layout='between', items={'S0': ids[:2], 'S1': ids}, para_layout='between'))]
    else:
        variants = [('plain', make_ro(ids, layout='plain')), ('between', make_ro(ids, layout='between'))]
    others = [i for i in ids if i != 'T']
    sels = list(itertools.permutations(others, 3))
    if rng is not None:
        sels += [tuple(rng.sample(others, n)) for n in (4, 4, 4, 5, 5) for _ in range(6)]
    for name, ro in variants:
        ro_t = to_text(ro)
        for srcs in sels:
            for tgt in ('T', None):
                if level == 'item':
                    docs = [('ItemMoveMultiple', item_move_multiple(6, 'S1', list(srcs) + [tgt])),
                            ('EAItemMove', element_action(6, 'MOVE', ea_target('S1', tgt), [[ref('itemID', i) for i in srcs]]))]
                else:
                    docs = [('EAStoryMove', element_action(6, 'MOVE', [ref('storyID', tgt)], [[ref('storyID', i) for i in srcs]]))]
                for cls, doc in docs:
                    yield {'ro': ro_t, 'msg': to_text(doc), 'meta': {'cls': cls, 'n': 6, 'layout': 'multi-move-' + name, 'para': 'multi-move-' + name,
                                                                    'sources': list(srcs), 'target': tgt}}


def merge_cases_bad_timing_payload():
    """messages that carry several stories of which one has a blank or non-numeric timing field: the merge itself
    must not trip over what it has just inserted (the next evaluation of ro.stories will)"""
    bads = {'blank-media': E('mosExternalMetadata', E('mosSchema', text='x'), E('mosPayload', E('MediaTime'))),
            'blank-duration': E('mosExternalMetadata', E('mosSchema', text='x'), E('mosPayload', E('StoryDuration'))),
            'text-duration': E('mosExternalMetadata', E('mosSchema', text='x'), E('mosPayload', E('StoryDuration', text='abc'))),
            'text-only': payload(text_time='7')}
    for timing in ('all', 'none'):
        ro = to_text(make_ro(['A', 'B'], layout='plain', timing=timing))
        for bname, bad in bads.items():
            for where in (0, 1, 2):
                import copy
                new = [new_story('N%d' % j) for j in range(3)]
                new[where].append(copy.deepcopy(bad))
                for cls, doc in (('StoryInsert', story_insert(5, 'B', new)), ('StoryAppend', story_append(5, new)),
                                 ('StoryReplace', story_replace(5, 'A', new)),
                                 ('EAStoryInsert', element_action(5, 'INSERT', [ref('storyID', 'B')], [new])),
                                 ('EAStoryInsertEnd', element_action(5, 'INSERT', [ref('storyID', None)], [new])),
                                 ('EAStoryReplace', element_action(5, 'REPLACE', [ref('storyID', 'A')], [new]))):
                    yield {'ro': ro, 'msg': to_text(doc), 'meta': {'cls': cls, 'n': 2, 'layout': 'bad-timing-payload', 'timing': timing,
                                                                    'bad': bname, 'where': where}}


PADDED_STORY_IDS = ['A ', ' B', 'C\u00a0']        # IDs are opaque strings: leading / trailing blanks belong to them
PADDED_ITEM_IDS = ['i1  ', ' i2']


def merge_cases_padded():
    """story- and item-level messages over running orders whose IDs carry leading / trailing white space; a reference
    must match the ID exactly (the references used are the padded IDs themselves, the trimmed ones are unknown)"""
    sids = PADDED_STORY_IDS[:2]
    ro = to_text(make_ro(sids, layout='plain', items={s: PADDED_ITEM_IDS for s in sids}))
    for cls, doc, meta in story_level_messages(sids, max_src=2, full_refs=False):
        yield {'ro': ro, 'msg': to_text(doc), 'meta': dict(meta, cls=cls, n=2, layout='padded-ids')}
    for cls, doc, meta in story_level_messages(['A', 'B'], max_src=1, full_refs=False):      # the trimmed IDs: unknown here
        yield {'ro': ro, 'msg': to_text(doc), 'meta': dict(meta, cls=cls, n=2, layout='padded-ids-trimmed-refs')}
    for cls, doc, meta in item_level_messages([sids[1], 'B'], PADDED_ITEM_IDS, max_src=2):
        yield {'ro': ro, 'msg': to_text(doc), 'meta': dict(meta, cls=cls, n=2, para='padded-ids')}
    yield from merge_cases_lookalike_ids()
    yield from merge_cases_optional_missing()


# IDs that are different strings but equal under some normalisation a careless comparison might apply: Unicode
# composition, case, zero-width characters, numeric value
LOOKALIKE_STORY_IDS = ['caf\u00e9', 'cafe\u0301', 'Caf\u00e9', '10', '010', '10.0', 'A\u200b']
LOOKALIKE_ITEM_IDS = ['\u00e5', 'a\u030a', '1', '01']


def merge_cases_lookalike_ids():
    for sids in (LOOKALIKE_STORY_IDS[:3], LOOKALIKE_STORY_IDS[3:6], ['A', LOOKALIKE_STORY_IDS[6]]):
        ro = to_text(make_ro(sids, layout='plain', items={s: LOOKALIKE_ITEM_IDS for s in sids}))
        # references run over the later IDs of each family: a comparison that normalises finds the first one instead
        for cls, doc, meta in story_level_messages(sids[1:], max_src=2, full_refs=False):
            yield {'ro': ro, 'msg': to_text(doc), 'meta': dict(meta, cls=cls, n=len(sids), layout='lookalike-ids')}
        for cls, doc, meta in item_level_messages([sids[-1]], LOOKALIKE_ITEM_IDS[1:], max_src=2):
            yield {'ro': ro, 'msg': to_text(doc), 'meta': dict(meta, cls=cls, n=len(sids), para='lookalike-ids')}
    # the message is addressed to another running order (or to none): merging does not look at the roID
    ro = to_text(make_ro(['A', 'B', 'C'], layout='plain'))
    for cls, doc, meta in list(story_level_messages(['A', 'B'], max_src=1, full_refs=False)) + list(item_level_messages(['B'], ITEM_IDS[:2], max_src=1)):
        for rid in ('OTHER', None):
            d2 = copy.deepcopy(doc)
            e = d2[3].find('roID')
            if e is not None:
                e.text = rid
                yield {'ro': ro, 'msg': to_text(d2), 'meta': dict(meta, cls=cls, n=3, layout='other-roid', para='other-roid')}


def decoy_payload_messages(sids=('A', 'B'), its=('i1', 'i2')):
    """payload-carrying messages whose carried stories / items hold, deep inside a free-form payload, elements named
    item / story / storyID / itemID: they are content of the carried element, not further carried elements"""
    mid = 5

    def ditem(iid):
        return item(iid, slug='carried ' + iid, extra=[decoy_block()])

    def dstory(sid):
        return story(sid, body=[ditem('x1'), p('para'), item('x2')], slug='Carried ' + sid)
    tgt_s, tgt_i = sids[-1], its[0]
    yield 'StoryAppend', story_append(mid, [dstory('N1'), dstory('N2')]), {}
    yield 'StoryInsert', story_insert(mid, tgt_s, [dstory('N1')]), {}
    yield 'StoryReplace', story_replace(mid, tgt_s, [dstory('N1'), dstory('N2')]), {}
    yield 'EAStoryInsert', element_action(mid, 'INSERT', [ref('storyID', tgt_s)], [[dstory('N1')]]), {}
    yield 'EAStoryReplace', element_action(mid, 'REPLACE', [ref('storyID', tgt_s)], [[dstory('N1')]]), {}
    yield 'ItemInsert', item_insert(mid, tgt_s, tgt_i, [ditem('n1'), ditem('n2')]), {}
    yield 'ItemReplace', item_replace(mid, tgt_s, tgt_i, [ditem('n1'), ditem('n2')]), {}
    yield 'EAItemInsert', element_action(mid, 'INSERT', ea_target(tgt_s, tgt_i), [[ditem('n1'), ditem('n2')]]), {}
    yield 'EAItemReplace', element_action(mid, 'REPLACE', ea_target(tgt_s, tgt_i), [[ditem('n1')]]), {}
    yield 'StorySend', story_send(mid, tgt_s, body=[p('t'), E('storyItem', E('itemID', text='q1'), decoy_block()), E('storyItem', E('itemID', text='q2'))]), {}
    yield 'RunningOrderReplace', ro_replace(mid, [dstory('R1'), dstory('R2')]), {}


def merge_cases_decoy_payload():
    ro = to_text(make_ro(['A', 'B'], layout='plain'))
    for cls, doc, meta in decoy_payload_messages():
        yield {'ro': ro, 'msg': to_text(doc), 'meta': dict(meta, cls=cls, n=2, layout='decoy-payload', para='decoy-payload')}


# IDs in the style of newsroom systems: the part after the last comma is not the ID
VENDOR_STORY_IDS = ['2012R2ENPS8VM;P_ENPSNEWS\\W;696F8FBE-1,4.15529413.1', 'OM_4.15529414,4.15529413.1', 'x,y,4.15529413.1']
VENDOR_ITEM_IDS = ['ITEM;1,7', 'ITEM;2,7']
SPECIAL_STORY_IDS = ["O'NEIL;2", 'a"b', 'x]y[z', 'a/b.c', '*', '{3F2504E0-4F89}', '%s %(id)s {0} }{']      # IDs are free text
SPECIAL_ITEM_IDS = ["Jo's clip", 'i[1]', '@id', 'a=b']


def merge_cases_special_ids():
    """IDs with characters that mean something in path / predicate / regular-expression syntax"""
    sids = SPECIAL_STORY_IDS[:3]
    ro = to_text(make_ro(sids, layout='plain', items={s: SPECIAL_ITEM_IDS[:3] for s in sids}))
    for cls, doc, meta in story_level_messages(sids[:2], max_src=2, full_refs=False):
        yield {'ro': ro, 'msg': to_text(doc), 'meta': dict(meta, cls=cls, n=3, layout='special-ids')}
    for cls, doc, meta in item_level_messages([sids[1]], SPECIAL_ITEM_IDS[:2], max_src=2):
        yield {'ro': ro, 'msg': to_text(doc), 'meta': dict(meta, cls=cls, n=3, para='special-ids')}
    vro = to_text(make_ro(VENDOR_STORY_IDS, layout='plain', items={s: VENDOR_ITEM_IDS for s in VENDOR_STORY_IDS}))
    for cls, doc, meta in story_level_messages(VENDOR_STORY_IDS[1:], max_src=2, full_refs=False):
        yield {'ro': vro, 'msg': to_text(doc), 'meta': dict(meta, cls=cls, n=3, layout='vendor-ids')}
    for cls, doc, meta in item_level_messages([VENDOR_STORY_IDS[2]], VENDOR_ITEM_IDS, max_src=2):
        yield {'ro': vro, 'msg': to_text(doc), 'meta': dict(meta, cls=cls, n=3, para='vendor-ids')}
    # inserts that carry a story whose ID (with characters that mean something to str.format / % / paths) is already there
    for sids_ in (SPECIAL_STORY_IDS[:3], SPECIAL_STORY_IDS[4:7]):
        ro_ = to_text(make_ro(sids_, layout='plain'))
        for dup in sids_:
            yield {'ro': ro_, 'msg': to_text(story_insert(5, sids_[1], [new_story(dup), new_story('N9')])),
                   'meta': {'cls': 'StoryInsert', 'n': 3, 'layout': 'special-ids-dup'}}
            yield {'ro': ro_, 'msg': to_text(element_action(5, 'INSERT', [ref('storyID', sids_[1])], [[new_story('N9'), new_story(dup)]])),
                   'meta': {'cls': 'EAStoryInsert', 'n': 3, 'layout': 'special-ids-dup'}}
    # the odd ID named but absent, in k-th position of a delete
    plain = to_text(make_ro(['A', 'B', 'C'], layout='plain'))
    for ids in (["O'NEIL"], ['A', "O'NEIL"], ['A', 'B', "it's"], ["x'y", 'A']):
        yield {'ro': plain, 'msg': to_text(story_delete(5, ids)), 'meta': {'cls': 'StoryDelete', 'n': 3, 'layout': 'special-ids', 'ids': ids}}
        yield {'ro': plain, 'msg': to_text(element_action(5, 'DELETE', None, [[ref('storyID', i) for i in ids]])),
               'meta': {'cls': 'EAStoryDelete', 'n': 3, 'layout': 'special-ids', 'ids': ids}}
        yield {'ro': plain, 'msg': to_text(item_delete(5, 'A', ['i1'] + ids)), 'meta': {'cls': 'ItemDelete', 'n': 3, 'para': 'special-ids', 'ids': ids}}
        yield {'ro': plain, 'msg': to_text(element_action(5, 'DELETE', [ref('storyID', 'A')], [[ref('itemID', i) for i in ['i1'] + ids]])),
               'meta': {'cls': 'EAItemDelete', 'n': 3, 'para': 'special-ids', 'ids': ids}}


def merge_cases_other():
    for n in (0, 2):
        for layout in ('plain', 'trailing'):
            ro = to_text(make_ro(STORY_IDS[:n], layout=layout, timing='mixed'))
            for cls, doc, meta in other_messages(STORY_IDS[:n]):
                yield {'ro': ro, 'msg': to_text(doc), 'meta': dict(meta, cls=cls, n=n, layout=layout)}


# ---- random messages relative to a state, and histories ----------------------

def _pick_ref(rng, existing, p_bad=0.15):
    r = rng.random()
    if existing and r > p_bad:
        return rng.choice(existing)
    return rng.choice([UNKNOWN, None, ABSENT])


def random_story_message(rng, sids, mid, fresh):
    """one story-level message with references drawn (mostly) from the existing story IDs"""
    kind = rng.choice(['send', 'append', 'delete', 'eadelete', 'insert', 'eainsert', 'move',
                       'eamove', 'replace', 'eareplace', 'swap'])
    def newids(n):
        return [fresh() for _ in range(n)]
    def refs(n, distinct=True):
        pool = list(sids)
        rng.shuffle(pool)
        out = pool[:n] if distinct else [rng.choice(sids) for _ in range(n)] if sids else []
        return [x if rng.random() > 0.1 else rng.choice([UNKNOWN, None]) for x in out]
    if kind == 'send':
        sid = _pick_ref(rng, sids)
        body = [p('para %d' % mid), E('storyItem', E('itemID', text='s%d' % mid)), p()]
        rng.shuffle(body)
        d = story_send(mid, sid, body=body, pre=[E('storySlug', text='sent %d' % mid)],
                       post=[payload(duration=str(rng.randrange(1, 40)))] if rng.random() < 0.5 else [])
        if rng.random() < 0.3:
            d[3].find('storyBody').set('Read1stMEMasBody', 'true')
        return d
    if kind == 'append':
        return story_append(mid, [new_story(s) for s in newids(rng.randrange(0, 3))])
    if kind == 'delete':
        return story_delete(mid, refs(rng.randrange(0, 4)))
    if kind == 'eadelete':
        ids = refs(rng.randrange(1, 4))
        return element_action(mid, 'DELETE', None, ea_ids('storyID', ids, rng.choice(['one', 'each'])) or [[]])
    payload_ids = newids(rng.randrange(0, 3))
    if sids and rng.random() < 0.2:
        payload_ids.insert(rng.randrange(0, len(payload_ids) + 1), rng.choice(sids))
    if kind == 'insert':
        return story_insert(mid, _pick_ref(rng, sids), [new_story(s) for s in payload_ids])
    if kind == 'eainsert':
        tgt = _pick_ref(rng, sids)
        return element_action(mid, 'INSERT', [ref('storyID', tgt)], [[new_story(s) for s in payload_ids]])
    if kind == 'replace':
        return story_replace(mid, _pick_ref(rng, sids), [new_story(s) for s in payload_ids])
    if kind == 'eareplace':
        return element_action(mid, 'REPLACE', [ref('storyID', _pick_ref(rng, sids))],
                              [[new_story(s) for s in payload_ids]])
    if kind == 'move':
        src = _pick_ref(rng, sids, 0.1)
        tgt = _pick_ref(rng, sids, 0.3)
        return story_move(mid, [src] if tgt == ABSENT else [src, tgt])
    if kind == 'eamove':
        tgt = _pick_ref(rng, sids, 0.3)
        srcs = refs(rng.randrange(1, 4), distinct=rng.random() < 0.9)
        return element_action(mid, 'MOVE', None if rng.random() < 0.1 else [ref('storyID', tgt)],
                              ea_ids('storyID', srcs, rng.choice(['one', 'each'])))
    ids = refs(2, distinct=rng.random() < 0.9) if rng.random() < 0.9 else refs(rng.choice([0, 1, 3]))
    return element_action(mid, 'SWAP', [ref('storyID', None)], [[ref('storyID', i) for i in ids]])


def random_item_message(rng, sids, items_of, mid, fresh):
    """one item-level message addressed (mostly) to an existing story"""
    sid = _pick_ref(rng, sids, 0.1)
    its = items_of.get(sid, []) if isinstance(sid, str) else []
    kind = rng.choice(['delete', 'eadelete', 'insert', 'eainsert', 'replace', 'eareplace',
                       'move', 'eamove', 'swap'])
    def refs(n, distinct=True):
        pool = list(its)
        rng.shuffle(pool)
        out = pool[:n] if distinct else ([rng.choice(its) for _ in range(n)] if its else [])
        return [x if rng.random() > 0.1 else rng.choice([UNKNOWN, None]) for x in out]
    new = [new_item(fresh()) for _ in range(rng.randrange(0, 3))]
    if kind == 'delete':
        return item_delete(mid, sid, refs(rng.randrange(0, 4)))
    if kind == 'eadelete':
        ids = refs(rng.randrange(1, 4))
        return element_action(mid, 'DELETE', [ref('storyID', sid)], ea_ids('itemID', ids, rng.choice(['one', 'each'])) or [[ref('itemID', UNKNOWN)]])
    if kind == 'insert':
        return item_insert(mid, sid, _pick_ref(rng, its, 0.3), new)
    if kind == 'eainsert':
        tgt = _pick_ref(rng, its, 0.3)
        return element_action(mid, 'INSERT', ea_target(sid, None if tgt == ABSENT else tgt), [new])
    if kind == 'replace':
        return item_replace(mid, sid, _pick_ref(rng, its, 0.15), new)
    if kind == 'eareplace':
        tgt = _pick_ref(rng, its, 0.15)
        return element_action(mid, 'REPLACE', ea_target(sid, None if tgt == ABSENT else tgt), [new])
    if kind == 'move':
        tgt = _pick_ref(rng, its, 0.3)
        return item_move_multiple(mid, sid, refs(rng.randrange(0, 4), distinct=rng.random() < 0.9) + [None if tgt == ABSENT else tgt])
    if kind == 'eamove':
        tgt = _pick_ref(rng, its, 0.3)
        srcs = refs(rng.randrange(1, 4), distinct=rng.random() < 0.9) or [UNKNOWN]
        return element_action(mid, 'MOVE', ea_target(sid, None if tgt == ABSENT else tgt), [[ref('itemID', i) for i in srcs]])
    ids = refs(2, distinct=rng.random() < 0.9) if rng.random() < 0.9 else refs(rng.choice([1, 3]))
    return element_action(mid, 'SWAP', [ref('storyID', sid)], [[ref('itemID', i) for i in ids] or [ref('itemID', UNKNOWN)]])


def state_ids(ro_text):
    """(story ids, {story id: item ids}) of a running order text"""
    from xml.etree import ElementTree as ET
    root = ET.fromstring(ro_text)
    rc = root.find('roCreate')
    sids, items = [], {}
    if rc is not None:
        for s in rc.findall('story'):
            sid = s.findtext('storyID')
            if sid:
                sids.append(sid)
                items[sid] = [i.findtext('itemID') for i in s.findall('item') if i.findtext('itemID')]
    return sids, items


def vary_envelope(rng, text, prob=0.25):
    """the same message in a non-standard <mos> envelope: ncsID or mosID left out, or an extra element in
    front of the body - the body then sits at another child index than in the usual layout"""
    if rng.random() >= prob:
        return text
    from xml.etree import ElementTree as ET
    root = ET.fromstring(text)
    how = rng.choice(['no-ncs', 'no-mos', 'extra-before', 'extra-first', 'header-last'])
    if how == 'header-last':
        # mosID / ncsID / messageID after the message element: the library finds them by name, not by position
        head = [c for c in root if c.tag in ('mosID', 'ncsID', 'messageID')]
        for c in head:
            root.remove(c)
        for c in head:
            root.append(c)
        return ET.tostring(root, encoding='unicode')
    if how == 'no-ncs' and root.find('ncsID') is not None:
        root.remove(root.find('ncsID'))
    elif how == 'no-mos' and root.find('mosID') is not None:
        root.remove(root.find('mosID'))
    elif how == 'extra-before':
        mid = root.find('messageID')
        idx = list(root).index(mid) + 1 if mid is not None else len(root)
        root.insert(idx, ET.Element('mosExtra'))
    else:
        root.insert(0, ET.Element('mosExtra'))
    return ET.tostring(root, encoding='unicode')


# ---- structural mutation of documents ------------------------------------------------
# The generators above produce the shapes I thought of.  The operators below derive, from any document,
# neighbours I did not think of: an element duplicated, dropped, moved, nested one level deeper, given an
# attribute / text / tail, an ID blanked, padded, or swapped for another ID that occurs in the pair.
# The model is defined on arbitrary element trees, so the correspondence must hold on all of them.

MUTATIONS = ['dup-elem', 'drop-elem', 'move-elem', 'nest-copy', 'wrap', 'attr', 'text', 'tail', 'blank-id', 'pad-id', 'swap-id',
             'dup-id-tag', 'rename-id-case', 'empty-elem', 'ws-mix']
ID_TAGS = ('storyID', 'itemID', 'roID', 'messageID')


def _elems(root):
    """(parent, index, element) for every element below the root"""
    return [(p_, i, c) for p_ in root.iter() for i, c in enumerate(list(p_))]


def mutate_doc(rng, text, other_text=None, n=1):
    """n random structural mutations of the document; other_text supplies IDs to swap in.
    messageID and the classifying element are left alone so that the result is still a message of the same kind
    (most of the time)."""
    import copy
    from xml.etree import ElementTree as ET
    try:
        root = ET.fromstring(text)
    except ET.ParseError:
        return text
    ids = [e.text for e in root.iter() if e.tag in ('storyID', 'itemID') and e.text]
    if other_text:
        try:
            ids += [e.text for e in ET.fromstring(other_text).iter() if e.tag in ('storyID', 'itemID') and e.text]
        except ET.ParseError:
            pass
    for _ in range(n):
        els = [(p_, i, c) for p_, i, c in _elems(root) if c.tag != 'messageID' and p_ is not root]
        if not els:
            break
        p_, i, c = rng.choice(els)
        op = rng.choice(MUTATIONS)
        if op == 'dup-elem':
            p_.insert(i + rng.randrange(0, 2), copy.deepcopy(c))
        elif op == 'drop-elem':
            del p_[i]
        elif op == 'move-elem':
            del p_[i]
            p_.insert(rng.randrange(0, len(p_) + 1), c)
        elif op == 'nest-copy':
            # a copy of the element one or two levels further down, inside something that takes free content
            hosts = [e for e in root.iter() if e.tag in ('mosPayload', 'item', 'story', 'p')] or [c]
            host = rng.choice(hosts)
            host.append(E('nested', copy.deepcopy(c)) if rng.random() < 0.5 else copy.deepcopy(c))
        elif op == 'wrap':
            del p_[i]
            p_.insert(i, E('wrapper', c))
        elif op == 'ws-mix':
            whitespace_mix(rng, root, 0.5)
        elif op == 'attr':
            c.set(rng.choice(['kind', 'rev', 'operation', 'id']), rng.choice(['x', '', 'MOVE', ' spaced ']))
        elif op == 'text':
            if len(c):
                c.text = rng.choice([None, ' ', '\n   ', 'text'])
        elif op == 'tail':
            c.tail = rng.choice([None, ' ', '\n', 'tail'])
        else:
            idels = [e for e in root.iter() if e.tag in ('storyID', 'itemID')]
            if not idels:
                continue
            e = rng.choice(idels)
            if op == 'blank-id':
                e.text = None
            elif op == 'pad-id':
                e.text = rng.choice([' %s', '%s ', '\n  %s\n', '%s ']) % (e.text or '')
            elif op == 'swap-id' and ids:
                e.text = rng.choice(ids)
            elif op == 'dup-id-tag':
                for p2 in root.iter():
                    kids = list(p2)
                    if e in kids:
                        p2.insert(kids.index(e) + 1, copy.deepcopy(e))
                        break
            elif op == 'rename-id-case' and e.text:
                e.text = e.text.swapcase()
            elif op == 'empty-elem':
                for ch in list(e):
                    e.remove(ch)
                e.text = ''
    return sprinkle(rng, ET.tostring(root, encoding='unicode'), 0.2)


def whitespace_mix(rng, root, prob=0.35):
    """blank and non-blank text / tails on elements that have children, in every combination: indentation that is real
    content because the parent also carries text, notes after an element, blanks between siblings.  Mutates and returns root."""
    for e in root.iter():
        if len(e) == 0 or e.tag in ('mos',):
            continue
        if rng.random() < prob:
            e.text = rng.choice([None, ' ', '\n    ', 'lead text', '\n  lead\n  '])
            for c in e:
                if c.tag in ('storyID', 'itemID', 'roID', 'messageID'):
                    continue
                c.tail = rng.choice([None, None, ' ', '\n    ', '(note)', ' tail '])
    return root


def sprinkle(rng, text, prob=0.3):
    """the same document with one or two XML comments / processing instructions put in (after any tag, so also between
    an ID tag and its text): the parser drops them, the document means the same"""
    if rng.random() >= prob or '<!--' in text or '<![CDATA[' in text:
        return text
    for _ in range(rng.randrange(1, 3)):
        spots = [i + 1 for i, ch in enumerate(text) if ch == '>']
        if not spots:
            break
        k = rng.choice(spots)
        text = text[:k] + rng.choice(['<!-- note -->', '<!--was S9-->', '<?vendor keep="1"?>', '<!---->']) + text[k:]
    return text


def fuzzed_cases(cases, rng, n_cases, which=('msg', 'ro')):
    """structural neighbours of a sample of merge cases"""
    cases = list(cases)
    if not cases:
        return
    for _ in range(n_cases):
        c = dict(rng.choice(cases))
        k = rng.choice(which)
        other = c['ro'] if k == 'msg' else c['msg']
        c[k] = mutate_doc(rng, c[k], other, n=rng.randrange(1, 4))
        if rng.random() < 0.2:
            k2 = 'ro' if k == 'msg' else 'msg'
            c[k2] = mutate_doc(rng, c[k2], c[k], n=1)
        c['meta'] = dict(c.get('meta', {}), layout='fuzzed', para='fuzzed')
        yield c
