"""The accessor report of a running order: the real code's values rendered exactly as the OCaml
driver renders the model's (command `acc`)."""
import datetime
from fractions import Fraction

import impl
import exchange as X
import engine
from mosromgr.mostypes import RunningOrder

EPOCH = datetime.datetime(1970, 1, 1, tzinfo=datetime.timezone.utc)


def us(d):
    if d.tzinfo is None:
        d = d.replace(tzinfo=datetime.timezone.utc)
    delta = d - EPOCH
    return (delta.days * 86400 + delta.seconds) * 1000000 + delta.microseconds


def ticks(f):
    """a duration in whole microseconds; binary64 sums of decimal texts with at most six fractional digits are within
    a hundredth of a microsecond of the exact sum for the sizes generated, anything else is reported as inexact (X)"""
    fr = Fraction(f) * 1000000
    n = round(fr)
    if abs(fr - n) > Fraction(1, 100):
        return 'X%r' % f
    return 'V%d' % n


def acc(fn, conv):
    try:
        v = fn()
    except Exception as e:
        return 'E' + impl.ename(e)
    if v is None:
        return 'N'
    return conv(v)


def strs(l):
    return '%d%s' % (len(l), ''.join(' ' + X.s_tok(x) for x in l))


def body(l):
    out = [str(len(l))]
    for x in l:
        if isinstance(x, str):
            out.append('T ' + X.s_tok(x))
        else:
            out.append('I ' + X.s_tok(x.id))
    return ' '.join(out)


def report(ro_text):
    return report_obj(RunningOrder.from_string(ro_text))


def report_obj(ro):
    """the report of a RunningOrder object (possibly one that has been merged into)"""
    if ro.xml.find('roCreate') is None:
        return 'norc'
    t_us = lambda d: 'V%d' % us(d)
    def tagtext(fn):
        try:
            return X.s_tok(fn())
        except Exception as e:
            return 'E' + impl.ename(e)
    out = ['completed=%d' % (1 if ro.completed else 0),
           'roid=' + tagtext(lambda: ro.ro_id), 'roslug=' + tagtext(lambda: ro.ro_slug),
           'start=' + acc(lambda: ro.start_time, t_us),
           'end=' + acc(lambda: ro.end_time, t_us),
           'duration=' + acc(lambda: ro.duration, ticks),
           'script=' + acc(lambda: ro.script, strs),
           'body=' + acc(lambda: ro.body, body)]
    try:
        stories = ro.stories
    except Exception as e:
        out.append('stories=E' + impl.ename(e))
        return ' '.join(out)
    out.append('stories=%d' % len(stories))
    for s in stories:
        out += ['|', 'id=' + X.s_tok(s.id), 'slug=' + X.s_tok(s.slug),
                'dur=' + acc(lambda: s.duration, ticks), 'off=' + acc(lambda: s.offset, ticks),
                'start=' + acc(lambda: s.start_time, t_us), 'end=' + acc(lambda: s.end_time, t_us),
                'script=' + strs(s.script), 'body=' + body(s.body)]
        items = s.items
        out.append('items=%d' % len(items))
        for i in items:
            out.append(';')
            for f in (lambda: i.id, lambda: i.slug, lambda: i.type, lambda: i.object_id, lambda: i.mos_id, lambda: i.note):
                try:
                    out.append(X.s_tok(f()))
                except Exception as e:
                    out.append('E' + impl.ename(e))       # a raised exception is a value of the report
    return ' '.join(out)


def model_reports(ro_texts):
    lines = []
    for t in ro_texts:
        e = impl.parse_doc(t)
        lines.append('acc %s %s' % (engine.oracle_prefix([e]), X.elem_line(e)))
    return engine.run_model(lines)


def sections(rep):
    """split a report into {'ro': str, 'stories': [str, ...]}"""
    parts = rep.split(' | ')
    return {'ro': parts[0], 'stories': parts[1:]}


def field(section, name):
    toks = section.split(' ')
    for k, t in enumerate(toks):
        if t.startswith(name + '='):
            return t[len(name) + 1:]
    return None
