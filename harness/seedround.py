"""Prepare a round of seeded changes: one scratch worktree of /repo and one prompt file per property.

  seedround.py prepare <round> <property-id>...   -> /tmp/seed<round>/<id>/ (worktree), /tmp/seed<round>/<id>.prompt
  seedround.py clean <round>                      -> remove the worktrees and the directory

The prompt gives a fresh sub-agent the property text, the worktree and the one-line descriptions of
the changes earlier rounds made for that property (so that it looks elsewhere) - nothing of the
machinery in /verif.  The sub-agent leaves patch.diff, demo.py and note.txt in /tmp/seed<round>/<id>.out/.
"""
import os
import sys
import json
import glob
import subprocess

ROOT = os.path.dirname(os.path.dirname(os.path.abspath(__file__)))

TEMPLATE = '''You are testing how good a verification effort is by planting a realistic regression.

Your own scratch git worktree of the Python library bbc/mosromgr is at {wt} (use only this directory for
code; never touch /repo, never read anything under /verif, never use `git stash`).  Run Python as
`cd {wt} && PYTHONPATH={wt} /venv/bin/python ...` and the test suite as
`cd {wt} && PYTHONPATH={wt} /venv/bin/python -m pytest -q -p no:cacheprovider`  (196 tests, all pass now).

The semantic property under test ({pid}: {title}):

STATEMENT: {statement}

QUANTIFIED OVER: {quant}

WHY THE TESTS CANNOT SETTLE IT: {why}

ANCHORED IN: {anchors}

Task: make ONE realistic change to the library source in {wt} (the kind of edit a maintainer might make in a
refactoring, optimisation, clean-up or feature commit - not sabotage that is obvious at a glance, not a change to the tests) such that
  (a) the property above no longer holds for at least one input / history the property quantifies over,
  (b) the full test suite still passes (196 passed), the package still imports,
  (c) the change is subtle: it should manifest only for particular inputs, shapes of documents, orders of operations,
      encodings, option combinations etc. - think about which inputs a quick random tester would NOT try.
Earlier rounds already made the following changes for this property; do something DIFFERENT in kind (other code path,
other input shape needed to see it):
{earlier}

Deliver, in the directory {out}/ (create it):
  patch.diff  - `git -C {wt} diff > {out}/patch.diff` (source changes only; must apply to a clean checkout with `git apply`)
  demo.py     - a self-contained script (imports mosromgr from PYTHONPATH, builds its XML inputs inline, no files outside a temp dir,
                no network) that exits 0 on the UNCHANGED library and exits non-zero (assert / sys.exit(1)) on the CHANGED library,
                printing in its last line what property-relevant behaviour went wrong.  Verify both: run it with the change,
                then `git -C {wt} stash` is forbidden, so instead save the patch, run `git -C {wt} checkout -- .`, run demo.py (must exit 0),
                then re-apply the patch with `git -C {wt} apply {out}/patch.diff` and run it again (must exit non-zero).
  note.txt    - three lines: (1) one sentence saying what the change is, (2) what an input must look like for the breakage to manifest,
                (3) why the existing tests do not notice.
Finish by making sure the test suite passes with the patch applied, and reply with the content of note.txt.
'''


def prepare(rnd, pids):
    props = {json.loads(l)['id']: json.loads(l) for l in open(os.path.join(ROOT, 'properties.jsonl'))}
    base = '/tmp/seed%s' % rnd
    os.makedirs(base, exist_ok=True)
    for pid in pids:
        p = props[pid]
        wt = os.path.join(base, pid)
        subprocess.run('git -C /repo worktree remove --force %s' % wt, shell=True, capture_output=True)
        r = subprocess.run('git -C /repo worktree add -f %s HEAD' % wt, shell=True, capture_output=True, text=True)
        assert r.returncode == 0, r.stderr
        earlier = []
        for m in sorted(glob.glob(os.path.join(ROOT, 'seeded', '*', 'meta.json'))):
            d = json.load(open(m))
            if d.get('property') == pid and d.get('change'):
                earlier.append('  - ' + d['change'])
        text = TEMPLATE.format(wt=wt, out=wt + '.out', pid=pid, title=p['title'], statement=p['statement'],
                               quant=p['quantifier']['text'], why=p['why_tests_cant'], anchors=json.dumps(p['anchors']),
                               earlier='\n'.join(earlier) or '  (none)')
        open(os.path.join(base, pid + '.prompt'), 'w').write(text)
        print(wt, len(earlier), 'earlier changes listed')


def clean(rnd):
    base = '/tmp/seed%s' % rnd
    for wt in glob.glob(os.path.join(base, 'C??')):
        subprocess.run('git -C /repo worktree remove --force %s' % wt, shell=True, capture_output=True)
    subprocess.run('git -C /repo worktree prune; rm -rf %s' % base, shell=True)


if __name__ == '__main__':
    if sys.argv[1] == 'prepare':
        prepare(sys.argv[2], sys.argv[3:])
    else:
        clean(sys.argv[2])
