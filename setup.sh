#!/bin/sh
# Build the Coq development (full .vo build), extract the model, compile the driver.
set -e
cd "$(dirname "$0")"
cd coq
coq_makefile -f _CoqProject -o Makefile >/dev/null
timeout 1800 make -j16 >/dev/null
cd ..
./ocaml/build.sh
