(* driver.ml — reads one case per line in the exchange format, calls the extracted model,
   prints one result line per case.  Hand-written glue (part of the trusted base). *)
module L = Stdlib.List
module S = Stdlib.String
module B = Stdlib.Buffer
open BinNums
open Datatypes

(* ---- conversions between OCaml ints and the extracted numerals *)
let rec pos_of_int (n : int) : positive =
  if n = 1 then Coq_xH
  else if n land 1 = 0 then Coq_xO (pos_of_int (n lsr 1))
  else Coq_xI (pos_of_int (n lsr 1))
let n_of_int n = if n = 0 then N0 else Npos (pos_of_int n)
let z_of_int n = if n = 0 then Z0 else if n > 0 then Zpos (pos_of_int n) else Zneg (pos_of_int (-n))
let rec int_of_pos = function
  | Coq_xH -> 1
  | Coq_xO p -> 2 * int_of_pos p
  | Coq_xI p -> 2 * int_of_pos p + 1
let int_of_n = function N0 -> 0 | Npos p -> int_of_pos p
let int_of_z = function Z0 -> 0 | Zpos p -> int_of_pos p | Zneg p -> - (int_of_pos p)
(* decimal rendering of a positive of any size (message IDs are not bounded by the OCaml int): Horner over the bits,
   most significant first, on a little-endian list of decimal digits *)
let dec_of_pos (p : positive) : string =
  let rec bits acc = function
    | Coq_xH -> 1 :: acc
    | Coq_xO q -> bits (0 :: acc) q
    | Coq_xI q -> bits (1 :: acc) q in
  let rec dbl carry = function
    | [] -> if carry = 0 then [] else [carry]
    | d :: r -> let v = 2 * d + carry in (v mod 10) :: dbl (v / 10) r in
  let digits = L.fold_left (fun ds b -> dbl b ds) [] (bits [] p) in
  S.concat "" (L.rev_map string_of_int digits)
let dec_of_n = function N0 -> "0" | Npos p -> dec_of_pos p
let dec_of_z = function Z0 -> "0" | Zpos p -> dec_of_pos p | Zneg p -> "-" ^ dec_of_pos p
let rec nat_of_int n = if n <= 0 then O else S (nat_of_int (n - 1))
let rec int_of_nat = function O -> 0 | S n -> 1 + int_of_nat n

(* ---- token reader *)
type rd = { toks : string array; mutable pos : int }
exception Bad of string
let next r =
  if r.pos >= Array.length r.toks then raise (Bad "eof");
  let t = r.toks.(r.pos) in r.pos <- r.pos + 1; t
let rd_int r = int_of_string (next r)
let rd_bool r = (next r) = "1"

(* string token: s<hex>.<hex>... ; None token: n *)
let parse_str (t : string) : Str.str =
  if S.length t = 1 then []
  else
    L.map (fun h -> n_of_int (int_of_string ("0x" ^ h)))
      (S.split_on_char '.' (S.sub t 1 (S.length t - 1)))
let rd_str r = let t = next r in if S.get t 0 <> 's' then raise (Bad ("str " ^ t)) else parse_str t
let rd_ostr r = let t = next r in if t = "n" then None else Some (parse_str t)

let rec rd_n r n f = if n = 0 then [] else let x = f r in x :: rd_n r (n - 1) f
let rec rd_xml r : Xml.xml =
  let e = next r in
  if e <> "E" then raise (Bad ("elem " ^ e));
  let tag = rd_str r in
  let na = rd_int r in
  let attrs = rd_n r na (fun r -> let k = rd_str r in let v = rd_str r in (k, v)) in
  let text = rd_ostr r in
  let tail = rd_ostr r in
  let nk = rd_int r in
  let kids = rd_n r nk rd_xml in
  Xml.Elem (tag, attrs, text, tail, kids)
let rd_list r f = let n = rd_int r in rd_n r n f

(* oracle table: n (str value)* ; value = n | integer *)
let rd_table r : (Str.str * coq_Z option) list =
  rd_list r (fun r -> let k = rd_str r in let v = next r in
              (k, if v = "n" then None else Some (z_of_int (int_of_string v))))
let lookup tbl (s : Str.str) =
  let rec go = function
    | [] -> None
    | (k, v) :: rest -> if Str.str_eqb k s then v else go rest in
  go tbl
let rd_oracles r : Outcome.oracles =
  let nums = rd_table r in
  let times = rd_table r in
  { Outcome.parse_num = lookup nums; Outcome.parse_time = lookup times }

(* ---- printers *)
let buf = B.create 65536
let out s = B.add_string buf s
let outc () = B.add_char buf ' '
let pr_str (s : Str.str) =
  out "s"; out (S.concat "." (L.map (fun c -> Printf.sprintf "%x" (int_of_n c)) s))
let pr_ostr = function None -> out "n" | Some s -> pr_str s
let rec pr_xml (Xml.Elem (tag, attrs, text, tail, kids)) =
  out "E "; pr_str tag; outc (); out (string_of_int (L.length attrs));
  L.iter (fun (k, v) -> outc (); pr_str k; outc (); pr_str v) attrs;
  outc (); pr_ostr text; outc (); pr_ostr tail; outc ();
  out (string_of_int (L.length kids));
  L.iter (fun k -> outc (); pr_xml k) kids

let exn_name = function
  | Outcome.MosMergeError -> "MosMergeError"
  | Outcome.MosCompletedMergeError -> "MosCompletedMergeError"
  | Outcome.UnknownMosFileType -> "UnknownMosFileType"
  | Outcome.MosInvalidXML -> "MosInvalidXML"
  | Outcome.InvalidMosCollection -> "InvalidMosCollection"
  | Outcome.PyAttributeError -> "AttributeError"
  | Outcome.PyKeyError -> "KeyError"
  | Outcome.PyValueError -> "ValueError"
  | Outcome.PyTypeError -> "TypeError"
  | Outcome.PyIndexError -> "IndexError"
  | Outcome.PyNotImplementedError -> "NotImplementedError"
  | Outcome.PyOSError -> "OSError"
let warn_name = function
  | Outcome.StoryNotFound -> "StoryNotFoundWarning"
  | Outcome.ItemNotFound -> "ItemNotFoundWarning"
  | Outcome.DuplicateStory -> "DuplicateStoryWarning"
  | Outcome.NonStrict -> "MosMergeNonStrictWarning"
let class_name k = let s = Classify.class_name k in
  S.concat "" (L.map (fun c -> S.make 1 (Char.chr (int_of_n c))) s)

let pr_res (r : Xml.xml Outcome.res) =
  out (match r.Outcome.r_err with None -> "none" | Some e -> exn_name e);
  out " W"; out (string_of_int (L.length r.Outcome.r_ws));
  L.iter (fun w -> outc (); out (warn_name w)) r.Outcome.r_ws;
  outc (); pr_xml r.Outcome.r_st

(* ---- commands *)
let run_case (line : string) =
  let r = { toks = Array.of_list (S.split_on_char ' ' line); pos = 0 } in
  let cmd = next r in
  (match cmd with
   | "classify" ->
     let d = rd_xml r in
     (match Classify.classify d with
      | Coq_inl e -> out "err "; out (exn_name e)
      | Coq_inr k -> out "ok "; out (class_name k); out (if Classify.completed k d then " 1" else " 0"))
   | "add" ->
     (* add <oracles> <ro> <msg> : classify msg, then ro + msg *)
     let o = rd_oracles r in
     let ro = rd_xml r in
     let m = rd_xml r in
     (match Classify.classify m with
      | Coq_inl e -> out "classerr "; out (exn_name e)
      | Coq_inr k -> out (class_name k); outc (); pr_res (Merge.add o ro k m))
   | "hist" ->
     (* hist <oracles> <ro> <n> <msg>* : fold of add, stopping at the first exception;
        prints every intermediate outcome *)
     let o = rd_oracles r in
     let ro = rd_xml r in
     let ms = rd_list r rd_xml in
     let cur = ref ro in
     let stop = ref false in
     L.iter (fun m ->
         if not !stop then begin
           (match Classify.classify m with
            | Coq_inl e -> out "classerr "; out (exn_name e); stop := true
            | Coq_inr k ->
              let res = Merge.add o !cur k m in
              out (class_name k); outc (); pr_res res;
              cur := res.Outcome.r_st);
           out " ; "
         end) ms
   | "proto" ->
     (* proto <oracles> <ro> <msg> : what the protocol demands of the story IDs (story-level
        classes) or of the item IDs of the addressed story (item-level classes); noclaim when
        a hypothesis of the order theorems fails (uniqueness is checked by the harness) *)
     let o = rd_oracles r in
     let ro = rd_xml r in
     let m = rd_xml r in
     let pr_ids ids = out (string_of_int (L.length ids)); L.iter (fun i -> outc (); pr_ostr i) ids in
     (match Classify.classify m, Proto.rc_of ro with
      | Coq_inr k, Some rc when not (Classify.ro_completed ro) && Proto.schema_ok k m ->
        (match Messages.base_of k m with
         | None -> out "noclaim"
         | Some b ->
           let kids = Xml.kids_of rc in
           if Proto.is_story_class k then begin
             if Seq.no_bad Merge.skey kids && Elements.ro_stories_err o rc = None then
               (match Proto.proto_story k b (Proto.story_ids_rc rc) with
                | Some ids -> out "story "; pr_ids ids
                | None -> out "noclaim")
             else out "noclaim"
           end else if Proto.is_item_class k then begin
             (match Merge.find_story (Proto.addressed_story k b) kids with
              | Seq.FFound i ->
                (match List.nth_error kids i with
                 | Some s when Seq.no_bad Merge.ikey (Xml.kids_of s) ->
                   (match Proto.proto_item k b (Proto.item_ids s) with
                    | Some ids -> out "item "; out (string_of_int (int_of_nat i)); outc (); pr_ids ids
                    | None -> out "noclaim")
                 | _ -> out "noclaim")
              | _ -> out "noclaim")
           end else out "noclaim")
      | _ -> out "noclaim")
   | "schema" ->
     (* schema <oracles> <ro> <msg> : the guards of C05 / C12 for this case *)
     let o = rd_oracles r in
     let ro = rd_xml r in
     let m = rd_xml r in
     let b x = if x then "1" else "0" in
     let timing = match Proto.rc_of ro with Some rc -> Elements.ro_stories_err o rc = None | None -> true in
     (match Classify.classify m with
      | Coq_inl _ -> out "noclass"
      | Coq_inr k ->
        out ("wf=" ^ b (Proto.wf_ro ro) ^ " msg=" ^ b (Proto.msg_ok m) ^ " schema=" ^ b (Proto.schema_ok k m)
             ^ " payload=" ^ b (Proto.payload_wf k m) ^ " timing=" ^ b timing))
   | "readers" ->
     (* readers <inc> <n> <doc>* : MosCollection construction: sorted, validated *)
     let inc = rd_bool r in
     let ds = rd_list r rd_xml in
     (match Collection.make_readers ds with
      | Coq_inl e -> out "err "; out (exn_name e)
      | Coq_inr rs ->
        (match Collection.validate (Collection.sort_readers rs) inc with
         | Coq_inl e -> out "err "; out (exn_name e)
         | Coq_inr (rc, others) ->
           out "ok "; out (dec_of_n rc.Collection.rd_mid);
           L.iter (fun rd -> outc (); out (dec_of_n rd.Collection.rd_mid);
                    out ":"; out (class_name rd.Collection.rd_class)) others))
   | "access" ->
     (* access <oracles> <msg> : what the message object exposes and what inspect() prints *)
     let o = rd_oracles r in
     let m = rd_xml r in
     (match Classify.classify m with
      | Coq_inl e -> out "classerr "; out (exn_name e)
      | Coq_inr k ->
        (match Messages.base_of k m with
         | None -> out "nobase"
         | Some b ->
           out (class_name k);
           (match Inspect.exposed_err o k b with
            | Some e -> out " Aerr "; out (exn_name e)
            | None ->
              let ex = Inspect.exposed k b in
              out " A"; out (string_of_int (L.length ex));
              L.iter (fun (name, ids) -> outc (); pr_str name; outc (); out (string_of_int (L.length ids));
                       L.iter (fun i -> outc (); pr_ostr i) ids) ex);
           (match Inspect.exposed_xml_err o k b with
            | Some e -> out " Xerr "; out (exn_name e)
            | None ->
              let xs = Inspect.exposed_xml k b in
              out " X"; out (string_of_int (L.length xs));
              L.iter (fun x -> outc (); pr_xml x) xs);
           (match Inspect.inspect_o o k b with
            | Coq_inl e -> out " Ierr "; out (exn_name e)
            | Coq_inr ls -> out " I"; out (string_of_int (L.length ls));
              L.iter (fun l -> outc (); pr_str l) ls)))
   | "acc" ->
     (* acc <oracles> <ro> : every read accessor of the running order, its stories and items *)
     let o = rd_oracles r in
     let ro = rd_xml r in
     let pr_accz = function
       | Elements.ANone -> out "N"
       | Elements.AVal z -> out "V"; out (dec_of_z z)
       | Elements.AErr e -> out "E"; out (exn_name e) in
     let pr_oz = function None -> out "N" | Some z -> out "V"; out (dec_of_z z) in
     let pr_strs l = out (string_of_int (L.length l)); L.iter (fun x -> outc (); pr_str x) l in
     let pr_body l = out (string_of_int (L.length l));
       L.iter (fun x -> outc (); match x with
                | Elements.BText t -> out "T "; pr_str t
                | Elements.BItem i -> out "I "; pr_ostr (Elements.item_id i)) l in
     (match Proto.rc_of ro with
      | None -> out "norc"
      | Some rc ->
        out "completed="; out (if Classify.ro_completed ro then "1" else "0");
        (* ro.ro_id / ro.ro_slug: the text of the tag (None when blank), AttributeError when the tag is missing *)
        let pr_tag t = match Xml.find t (Xml.kids_of rc) with
          | Some e -> pr_ostr (Xml.text_of e)
          | None -> out "EAttributeError" in
        out " roid="; pr_tag Xml.t_roID;
        out " roslug="; pr_tag Xml.t_roSlug;
        out " start="; pr_accz (Elements.ro_start_time o rc);
        out " end="; pr_accz (Elements.ro_end_time o rc);
        out " duration="; pr_accz (Elements.ro_duration o rc);
        (match Elements.ro_script_acc o rc with
         | Elements.AVal l -> out " script="; pr_strs l
         | Elements.AErr e -> out " script=E"; out (exn_name e)
         | Elements.ANone -> out " script=N");
        (match Elements.ro_body_acc o rc with
         | Elements.AVal l -> out " body="; pr_body l
         | Elements.AErr e -> out " body=E"; out (exn_name e)
         | Elements.ANone -> out " body=N");
        (match Elements.ro_stories o rc with
         | Elements.AErr e -> out " stories=E"; out (exn_name e)
         | Elements.ANone -> out " stories=N"
         | Elements.AVal l ->
           out " stories="; out (string_of_int (L.length l));
           L.iter (fun so ->
               let x = so.Elements.so_xml in
               out " | id="; pr_ostr (Elements.story_id x);
               out " slug="; pr_ostr (Elements.story_slug x);
               out " dur="; pr_accz (Elements.story_duration o x);
               out " off="; pr_oz (Elements.so_offset so);
               out " start="; pr_accz (Elements.so_start_time o so);
               out " end="; pr_accz (Elements.so_end_time o so);
               out " script="; pr_strs (Elements.story_script x);
               out " body="; pr_body (Elements.story_body x);
               let items = Elements.story_items x in
               out " items="; out (string_of_int (L.length items));
               L.iter (fun i ->
                   out " ; "; pr_ostr (Elements.item_id i); outc (); pr_ostr (Elements.item_slug i);
                   outc (); pr_ostr (Elements.item_type i); outc (); pr_ostr (Elements.item_object_id i);
                   outc (); pr_ostr (Elements.item_mos_id i); outc (); pr_ostr (Elements.item_note i)) items) l))
   | "list" ->
     (* list <suffix> <npages> then per page: n, or <nkeys> followed by the keys : S3 listing *)
     let suffix = rd_str r in
     let pages = rd_list r (fun r -> let t = next r in
                             if t = "n" then None else Some (rd_n r (int_of_string t) rd_str)) in
     let ks = S3.get_mos_files pages suffix in
     out (string_of_int (L.length ks)); L.iter (fun k -> outc (); pr_str k) ks
   | "cli" ->
     (* cli <oracles> <inspect> <nfiles> then per file: <name> and D <doc>, B or U : detect / inspect output lines *)
     let o = rd_oracles r in
     let insp = rd_bool r in
     let files = rd_list r (fun r -> let name = rd_str r in
                             let t = next r in
                             (name, if t = "D" then Cli.FDoc (rd_xml r) else if t = "B" then Cli.FBadXml else Cli.FUnreadable)) in
     let (ls, status) = Cli.detect_cmd o insp files in
     out (string_of_int (int_of_nat status)); outc (); out (string_of_int (L.length ls));
     L.iter (fun l -> outc (); match l with Cli.Out s -> out "O "; pr_str s | Cli.Err s -> out "E "; pr_str s) ls
   | "clim" ->
     (* clim <oracles> <incomplete> <nonstrict> <nfiles> then per file: D <doc>, B or U : merge command *)
     let o = rd_oracles r in
     let inc = rd_bool r in
     let ns = rd_bool r in
     let files = rd_list r (fun r -> let t = next r in
                             if t = "D" then Cli.FDoc (rd_xml r) else if t = "B" then Cli.FBadXml else Cli.FUnreadable) in
     let (status, outp) = Cli.merge_cmd o files inc ns in
     out (string_of_int (int_of_nat status));
     (match outp with None -> out " none" | Some x -> out " doc "; pr_xml x)
   | "ser" ->
     let x = rd_xml r in pr_str (Codec.ser x)
   | "parse" ->
     let t = rd_str r in
     (match Codec.parse t with None -> out "none" | Some x -> out "some "; pr_xml x)
   | "coll" ->
     let o = rd_oracles r in
     let inc = rd_bool r in
     let strict = rd_bool r in
     let ds = rd_list r rd_xml in
     (match Collection.collection_merge o ds inc strict with
      | Coq_inl e -> out "err "; out (exn_name e)
      | Coq_inr res -> out "ok "; pr_res res)
   | _ -> out "badcmd");
  B.add_char buf '\n'

let () =
  (try
     while true do
       let line = input_line stdin in
       if line <> "" then begin
         (try run_case line with
          | Bad s -> B.add_string buf ("driver-error " ^ s ^ "\n")
          | Failure s -> B.add_string buf ("driver-error " ^ s ^ "\n"));
         if B.length buf > 1 lsl 20 then begin print_string (B.contents buf); B.clear buf end
       end
     done
   with End_of_file -> ());
  print_string (B.contents buf)
