#!/bin/sh
# build the extracted model plus the driver; run from anywhere
set -e
HERE=$(cd "$(dirname "$0")" && pwd)
mkdir -p "$HERE/gen"
cd "$HERE/gen"
rm -f *.ml *.mli *.cm* *.o
timeout 300 coqc -Q ../../coq/theories Mos ../../coq/theories/Extract.v >/dev/null
cp ../driver.ml .
# dependency order via ocamlfind ocamldep -sort
FILES=$(ocamlfind ocamldep -sort *.mli *.ml)
timeout 600 ocamlfind ocamlopt -O2 -w -a -o ../model $FILES 2>/dev/null || timeout 600 ocamlfind ocamlopt -w -a -o ../model $FILES
echo built "$HERE/model"
