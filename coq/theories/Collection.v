(* Collection.v — moscollection.py: readers, sorting, validation, the merge loop.
   Definitions only. *)
From Coq Require Import List Bool NArith.
Import ListNotations.
From Mos Require Import Str Xml Outcome Elements Classify Messages Merge.

Record reader := { rd_mid : N; rd_roid : option str; rd_class : mclass; rd_doc : xml }.

(* MosReader.from_string on a parsed document: classify, then message_id, then ro_id *)
Definition make_reader (d : xml) : exn + reader :=
  match classify d with
  | inl e => inl e
  | inr k =>
    match msg_id_exn d, message_id d with
    | Some e, _ => inl e
    | None, None => inl PyValueError
    | None, Some mid =>
      match ro_id_of k d with
      | inl e => inl e
      | inr rid => inr {| rd_mid := mid; rd_roid := rid; rd_class := k; rd_doc := d |}
      end
    end
  end.

Fixpoint make_readers (ds : list xml) : exn + list reader :=
  match ds with
  | [] => inr []
  | d :: r =>
    match make_reader d with
    | inl e => inl e
    | inr x => match make_readers r with inl e => inl e | inr xs => inr (x :: xs) end
    end
  end.

(* sorted(readers): stable, by numeric message ID *)
Fixpoint insert_reader (x : reader) (l : list reader) : list reader :=
  match l with
  | [] => [x]
  | y :: r => if N.ltb (rd_mid y) (rd_mid x) then y :: insert_reader x r else x :: l
  end.
Definition sort_readers (l : list reader) : list reader := fold_right insert_reader [] l.

Definition is_class (k : mclass) (r : reader) : bool := mclass_eqb (rd_class r) k.

(* MosCollection._validate: the running order (the single roCreate) and the other readers *)
Definition validate (rs : list reader) (allow_incomplete : bool) : exn + (reader * list reader) :=
  match rs with
  | [] => inl InvalidMosCollection
  | r0 :: _ =>
    if negb (forallb (fun r => ostr_eqb (rd_roid r) (rd_roid r0)) rs) then inl InvalidMosCollection
    else
      match filter (is_class RunningOrder) rs with
      | [rc] =>
        let dels := length (filter (is_class RunningOrderEnd) rs) in
        if Nat.leb 2 dels then inl InvalidMosCollection
        else if negb allow_incomplete && negb (Nat.eqb dels 1) then inl InvalidMosCollection
        else inr (rc, filter (fun r => negb (is_class RunningOrder r)) rs)
      | _ => inl InvalidMosCollection
      end
  end.

Section Coll.
Variable o : oracles.

(* MosCollection.merge *)
Fixpoint merge_loop (strict : bool) (rs : list reader) (ro : xml) : res xml :=
  match rs with
  | [] => ok ro
  | r :: rest =>
    let s := add o ro (rd_class r) (rd_doc r) in
    match r_err s with
    | None => bind s (merge_loop strict rest)
    | Some e =>
      if is_merge_error e && negb strict
      then bind (R (r_st s) (r_ws s ++ [NonStrict]) None) (merge_loop strict rest)
      else s
    end
  end.

(* MosCollection.from_strings(docs, allow_incomplete).merge(strict) on parsed documents:
   the error, or the merged running order with the warnings *)
Definition collection_merge (ds : list xml) (allow_incomplete strict : bool) : exn + res xml :=
  match make_readers ds with
  | inl e => inl e
  | inr rs =>
    match validate (sort_readers rs) allow_incomplete with
    | inl e => inl e
    | inr (rc, others) => inr (merge_loop strict others (rd_doc rc))
    end
  end.

End Coll.
