(* S3.v — utils/s3.py: the paginated listing.  Definitions only. *)
From Coq Require Import List Bool.
Import ListNotations.
From Mos Require Import Str.

(* a result page: its 'Contents' keys, or None when the page has no 'Contents' *)
Definition page := option (list str).

(* get_mos_files: every key with the suffix, across all result pages *)
Fixpoint get_mos_files (pages : list page) (suffix : str) : list str :=
  match pages with
  | [] => []
  | None :: r => get_mos_files r suffix
  | Some ks :: r => filter (str_endswith suffix) ks ++ get_mos_files r suffix
  end.
