(* Xml.v — ElementTree element trees and the Python list / ElementTree primitives
   the library uses.  Definitions only. *)
From Coq Require Import List NArith Bool Arith String.
Import ListNotations.
From Mos Require Import Str.

Inductive xml := Elem (tag : str) (attrs : list (str * str)) (text tail : option str) (kids : list xml).

Definition tag_of (e : xml) : str := let 'Elem t _ _ _ _ := e in t.
Definition attrs_of (e : xml) := let 'Elem _ a _ _ _ := e in a.
Definition text_of (e : xml) : option str := let 'Elem _ _ t _ _ := e in t.
Definition tail_of (e : xml) : option str := let 'Elem _ _ _ t _ := e in t.
Definition kids_of (e : xml) : list xml := let 'Elem _ _ _ _ k := e in k.

Definition set_kids (e : xml) (k : list xml) : xml :=
  let 'Elem t a x y _ := e in Elem t a x y k.
Definition set_tag (e : xml) (t : str) : xml :=
  let 'Elem _ a x y k := e in Elem t a x y k.

Definition has_tag (t : str) (e : xml) : bool := str_eqb (tag_of e) t.

(* Element.find(tag): first direct child with that tag *)
Fixpoint find (t : str) (l : list xml) : option xml :=
  match l with
  | [] => None
  | e :: r => if has_tag t e then Some e else find t r
  end.
(* Element.findall(tag): all direct children with that tag, document order *)
Definition findall (t : str) (l : list xml) : list xml := filter (has_tag t) l.

(* index of the first direct child with that tag *)
Fixpoint find_index (t : str) (l : list xml) : option nat :=
  match l with
  | [] => None
  | e :: r => if has_tag t e then Some O else option_map S (find_index t r)
  end.

(* Element.findtext(tag): None when absent, '' when the element has no text *)
Definition findtext (t : str) (l : list xml) : option str :=
  match find t l with
  | None => None
  | Some e => Some (match text_of e with Some s => s | None => [] end)
  end.

(* attrib.get(name) *)
Fixpoint attr_get (name : str) (a : list (str * str)) : option str :=
  match a with
  | [] => None
  | (k, v) :: r => if str_eqb k name then Some v else attr_get name r
  end.

(* ---- Python list primitives (indexes are always >= 0 in this library) *)
Definition insert_at {A} (i : nat) (x : A) (l : list A) : list A := firstn i l ++ x :: skipn i l.
Definition insert_many {A} (i : nat) (xs l : list A) : list A := firstn i l ++ xs ++ skipn i l.
Fixpoint remove_at {A} (i : nat) (l : list A) : list A :=
  match l, i with
  | [], _ => []
  | _ :: r, O => r
  | x :: r, S j => x :: remove_at j r
  end.
(* for k, x in enumerate(xs, start=i): parent.insert(k, x) *)
Fixpoint insert_loop {A} (i : nat) (xs l : list A) : list A :=
  match xs with
  | [] => l
  | x :: r => insert_loop (S i) r (insert_at i x l)
  end.
(* replace_node(parent, old, new, index): remove then insert at the same index *)
Definition replace_at {A} (i : nat) (x : A) (l : list A) : list A := insert_at i x (remove_at i l).

(* apply f to the kids of the first direct child with tag t (in-place mutation of that child) *)
Fixpoint update_first (t : str) (f : xml -> xml) (l : list xml) : list xml :=
  match l with
  | [] => []
  | e :: r => if has_tag t e then f e :: r else e :: update_first t f r
  end.
Fixpoint update_nth {A} (i : nat) (f : A -> A) (l : list A) : list A :=
  match l, i with
  | [], _ => []
  | x :: r, O => f x :: r
  | x :: r, S j => x :: update_nth j f r
  end.

(* ---- structural equality (used by the executable oracles only) *)
Fixpoint attrs_eqb (a b : list (str * str)) : bool :=
  match a, b with
  | [], [] => true
  | (k, v) :: a', (k', v') :: b' => str_eqb k k' && str_eqb v v' && attrs_eqb a' b'
  | _, _ => false
  end.
Fixpoint xml_eqb (a b : xml) {struct a} : bool :=
  match a, b with
  | Elem t1 a1 x1 y1 k1, Elem t2 a2 x2 y2 k2 =>
    str_eqb t1 t2 && attrs_eqb a1 a2 && ostr_eqb x1 x2 && ostr_eqb y1 y2 &&
    (fix kids_eqb (l1 l2 : list xml) {struct l1} : bool :=
       match l1, l2 with
       | [], [] => true
       | e1 :: r1, e2 :: r2 => xml_eqb e1 e2 && kids_eqb r1 r2
       | _, _ => false
       end) k1 k2
  end.

(* ---- tag and attribute names used by the library *)
Definition T (s : string) : str := lit s.
Definition t_roCreate := Eval compute in T "roCreate".
Definition t_roStorySend := Eval compute in T "roStorySend".
Definition t_roStoryAppend := Eval compute in T "roStoryAppend".
Definition t_roStoryDelete := Eval compute in T "roStoryDelete".
Definition t_roStoryInsert := Eval compute in T "roStoryInsert".
Definition t_roStoryMove := Eval compute in T "roStoryMove".
Definition t_roStoryReplace := Eval compute in T "roStoryReplace".
Definition t_roItemDelete := Eval compute in T "roItemDelete".
Definition t_roItemInsert := Eval compute in T "roItemInsert".
Definition t_roItemMoveMultiple := Eval compute in T "roItemMoveMultiple".
Definition t_roItemReplace := Eval compute in T "roItemReplace".
Definition t_roReplace := Eval compute in T "roReplace".
Definition t_roMetadataReplace := Eval compute in T "roMetadataReplace".
Definition t_roReadyToAir := Eval compute in T "roReadyToAir".
Definition t_roDelete := Eval compute in T "roDelete".
Definition t_roElementAction := Eval compute in T "roElementAction".
Definition t_element_target := Eval compute in T "element_target".
Definition t_element_source := Eval compute in T "element_source".
Definition t_operation := Eval compute in T "operation".
Definition t_story := Eval compute in T "story".
Definition t_item := Eval compute in T "item".
Definition t_storyID := Eval compute in T "storyID".
Definition t_itemID := Eval compute in T "itemID".
Definition t_storySlug := Eval compute in T "storySlug".
Definition t_itemSlug := Eval compute in T "itemSlug".
Definition t_storyBody := Eval compute in T "storyBody".
Definition t_storyItem := Eval compute in T "storyItem".
Definition t_roID := Eval compute in T "roID".
Definition t_roSlug := Eval compute in T "roSlug".
Definition t_roEdStart := Eval compute in T "roEdStart".
Definition t_messageID := Eval compute in T "messageID".
Definition t_mosromgrmeta := Eval compute in T "mosromgrmeta".
Definition t_mosExternalMetadata := Eval compute in T "mosExternalMetadata".
Definition t_mosSchema := Eval compute in T "mosSchema".
Definition t_mosPayload := Eval compute in T "mosPayload".
Definition t_StoryDuration := Eval compute in T "StoryDuration".
Definition t_TextTime := Eval compute in T "TextTime".
Definition t_MediaTime := Eval compute in T "MediaTime".
Definition t_StoryStarted := Eval compute in T "StoryStarted".
Definition t_StoryEnded := Eval compute in T "StoryEnded".
Definition t_p := Eval compute in T "p".
Definition t_objType := Eval compute in T "objType".
Definition t_objID := Eval compute in T "objID".
Definition t_mosID := Eval compute in T "mosID".
Definition t_studioCommand := Eval compute in T "studioCommand".
Definition t_type := Eval compute in T "type".
Definition t_note := Eval compute in T "note".
Definition t_text := Eval compute in T "text".
Definition op_REPLACE := Eval compute in T "REPLACE".
Definition op_DELETE := Eval compute in T "DELETE".
Definition op_INSERT := Eval compute in T "INSERT".
Definition op_SWAP := Eval compute in T "SWAP".
Definition op_MOVE := Eval compute in T "MOVE".
