(* Heap.v — object-identity model of ElementTree nodes, only for C13: a store of nodes
   (payload + list of child locations), the one mutation every ElementTree list edit reduces
   to (set the child list of one node), deep copy at fresh locations, and the tree a location
   denotes.  Definitions only. *)
From Coq Require Import List Arith Bool.
Import ListNotations.

Section Heap.
Variable D : Type.            (* tag, attributes, text, tail of a node *)

Definition loc := nat.
Record node := { dat : D; kids : list loc }.
Record heap := { cells : list (loc * node); next : loc }.

Fixpoint lookup_c (c : list (loc * node)) (l : loc) : option node :=
  match c with
  | [] => None
  | (k, n) :: r => if Nat.eqb k l then Some n else lookup_c r l
  end.
Definition lookup (h : heap) (l : loc) : option node := lookup_c (cells h) l.

Inductive tree := T (d : D) (ks : list tree).

Fixpoint all_some {X} (l : list (option X)) : option (list X) :=
  match l with
  | [] => Some []
  | Some x :: r => match all_some r with Some xs => Some (x :: xs) | None => None end
  | None :: _ => None
  end.

(* the tree a location denotes (fuel bounds the depth explored) *)
Fixpoint view (fuel : nat) (h : heap) (l : loc) : option tree :=
  match fuel with
  | O => None
  | S f =>
    match lookup h l with
    | None => None
    | Some n => option_map (T (dat n)) (all_some (map (view f h) (kids n)))
    end
  end.

(* parent.insert / remove / append: the child list of one node is replaced *)
Definition set_kids (h : heap) (p : loc) (ks : list loc) : heap :=
  match lookup h p with
  | Some n => {| cells := (p, {| dat := dat n; kids := ks |}) :: cells h; next := next h |}
  | None => h
  end.

(* copy.deepcopy of a tree value: every node at a fresh location *)
Fixpoint alloc (t : tree) (h : heap) : heap * loc :=
  match t with
  | T d ks =>
    let '(h1, roots) :=
      (fix go (ts : list tree) (h : heap) : heap * list loc :=
         match ts with
         | [] => (h, [])
         | t :: r => let '(h', root) := alloc t h in
                     let '(h'', roots) := go r h' in (h'', root :: roots)
         end) ks h in
    ({| cells := (next h1, {| dat := d; kids := roots |}) :: cells h1; next := S (next h1) |}, next h1)
  end.

Definition alloc_list : list tree -> heap -> heap * list loc :=
  fix go (ts : list tree) (h : heap) : heap * list loc :=
    match ts with
    | [] => (h, [])
    | t :: r => let '(h', root) := alloc t h in
                let '(h'', roots) := go r h' in (h'', root :: roots)
    end.

Definition deepcopy (fuel : nat) (h : heap) (l : loc) : option (heap * loc) :=
  match view fuel h l with
  | Some t => Some (alloc t h)
  | None => None
  end.

(* ---- the discipline of the merges: a primitive either mutates a node of the running
   order with children taken from the running order, or deep-copies something into the
   running order's region *)
Inductive op :=
| OSet (p : loc) (ks : list loc)        (* set_kids p ks *)
| OCopy (fuel : nat) (src : loc).       (* a fresh deep copy of src joins the region *)

(* the running order's region, as the list of its locations *)
Definition region := list loc.
Definition inb (l : loc) (r : region) : bool := existsb (Nat.eqb l) r.

Definition new_locs (lo hi : loc) : list loc := seq lo (hi - lo).

Definition step (hr : heap * region) (o : op) : heap * region :=
  let (h, r) := hr in
  match o with
  | OSet p ks => (set_kids h p ks, r)
  | OCopy f src =>
    match deepcopy f h src with
    | Some (h', _) => (h', new_locs (next h) (next h') ++ r)
    | None => (h, r)
    end
  end.

(* an OSet is disciplined when the mutated parent and all new children are in the region *)
Definition disciplined (r : region) (o : op) : bool :=
  match o with
  | OSet p ks => inb p r && forallb (fun k => inb k r) ks
  | OCopy _ _ => true
  end.

Fixpoint run (hr : heap * region) (ops : list op) : heap * region :=
  match ops with
  | [] => hr
  | o :: rest => run (step hr o) rest
  end.
Fixpoint all_disciplined (hr : heap * region) (ops : list op) : bool :=
  match ops with
  | [] => true
  | o :: rest => disciplined (snd hr) o && all_disciplined (step hr o) rest
  end.

End Heap.
