(* Outcome.v — Python exceptions and warnings as values.  Definitions only. *)
From Coq Require Import List Bool ZArith.
Import ListNotations.
From Mos Require Import Str Xml.

Inductive exn :=
| MosMergeError | MosCompletedMergeError | UnknownMosFileType | MosInvalidXML | InvalidMosCollection
| PyAttributeError | PyKeyError | PyValueError | PyTypeError | PyIndexError | PyNotImplementedError | PyOSError.

Definition exn_eqb (a b : exn) : bool :=
  match a, b with
  | MosMergeError, MosMergeError | MosCompletedMergeError, MosCompletedMergeError
  | UnknownMosFileType, UnknownMosFileType | MosInvalidXML, MosInvalidXML
  | InvalidMosCollection, InvalidMosCollection | PyAttributeError, PyAttributeError
  | PyKeyError, PyKeyError | PyValueError, PyValueError | PyTypeError, PyTypeError
  | PyIndexError, PyIndexError | PyNotImplementedError, PyNotImplementedError | PyOSError, PyOSError => true
  | _, _ => false
  end.

(* the library's own exceptions (MosRoMgrException subclasses) *)
Definition is_mos_exn (e : exn) : bool :=
  match e with
  | MosMergeError | MosCompletedMergeError | UnknownMosFileType | MosInvalidXML | InvalidMosCollection => true
  | _ => false
  end.
(* except MosMergeError: — MosCompletedMergeError is a subclass *)
Definition is_merge_error (e : exn) : bool :=
  match e with MosMergeError | MosCompletedMergeError => true | _ => false end.

Inductive warn := StoryNotFound | ItemNotFound | DuplicateStory | NonStrict.

(* result of a step over state S: the state after the attempt (also when it raised),
   the warnings emitted in order, the exception if any *)
Record res (S : Type) := R { r_st : S; r_ws : list warn; r_err : option exn }.
Arguments R {S}.
Arguments r_st {S}.
Arguments r_ws {S}.
Arguments r_err {S}.

Definition ok {S} (s : S) : res S := R s [] None.
Definition fail {S} (s : S) (e : exn) : res S := R s [] (Some e).
(* run g on the state f produced, unless f raised *)
Definition bind {S} (f : res S) (g : S -> res S) : res S :=
  match r_err f with
  | Some _ => f
  | None => let r := g (r_st f) in R (r_st r) (r_ws f ++ r_ws r) (r_err r)
  end.
Definition map_res {S T} (h : S -> T) (r : res S) : res T := R (h (r_st r)) (r_ws r) (r_err r).

(* what the oracles supply: float(text) in microseconds, dateutil parse(text) in microseconds *)
Record oracles := { parse_num : str -> option Z; parse_time : str -> option Z }.
