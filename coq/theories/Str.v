(* Str.v — Python str as a list of Unicode code points.
   Definitions only (no proofs): this file is extracted and run. *)
From Coq Require Import List NArith Bool Ascii String.
Import ListNotations.
Local Open Scope N_scope.

Definition str := list N.

Fixpoint str_eqb (a b : str) : bool :=
  match a, b with
  | [], [] => true
  | x :: a', y :: b' => (x =? y) && str_eqb a' b'
  | _, _ => false
  end.

Definition ostr_eqb (a b : option str) : bool :=
  match a, b with
  | None, None => true
  | Some x, Some y => str_eqb x y
  | _, _ => false
  end.

(* literals: written as Coq strings, computed to code-point lists at definition time *)
Fixpoint lit (s : string) : str :=
  match s with
  | EmptyString => []
  | String c r => N_of_ascii c :: lit r
  end.

Definition mem_str (x : str) (l : list str) : bool := existsb (str_eqb x) l.
Definition mem_ostr (x : option str) (l : list (option str)) : bool := existsb (ostr_eqb x) l.

(* ---- Python str.isspace() per character (Unicode 15, CPython 3.12):
   bidirectional class WS/B/S or category Zs *)
Definition is_space (c : N) : bool :=
  ((9 <=? c) && (c <=? 13)) || ((28 <=? c) && (c <=? 32)) || (c =? 133) || (c =? 160)
  || (c =? 5760) || ((8192 <=? c) && (c <=? 8202)) || (c =? 8232) || (c =? 8233)
  || (c =? 8239) || (c =? 8287) || (c =? 12288).

Fixpoint lstrip (s : str) : str :=
  match s with
  | [] => []
  | c :: r => if is_space c then lstrip r else s
  end.
Definition strip (s : str) : str := rev (lstrip (rev (lstrip s))).

Definition starts_with (c : N) (s : str) : bool :=
  match s with x :: _ => x =? c | [] => false end.
Definition ends_with (c : N) (s : str) : bool := starts_with c (rev s).

Fixpoint is_prefix (p s : str) : bool :=
  match p, s with
  | [], _ => true
  | x :: p', y :: s' => (x =? y) && is_prefix p' s'
  | _ :: _, [] => false
  end.
(* Python str.endswith(suffix) *)
Definition str_endswith (suffix s : str) : bool := is_prefix (rev suffix) (rev s).

(* ---- int() on ASCII digit strings, possibly surrounded by white space (the part of Python's int()
   that is modelled; signs, underscores and non-ASCII digits are not) *)
Definition is_digit (c : N) : bool := (48 <=? c) && (c <=? 57).
Fixpoint digits_val (acc : N) (s : str) : N :=
  match s with [] => acc | c :: r => digits_val (acc * 10 + (c - 48)) r end.
(* int() first strips white space (str.isspace characters) *)
Definition parse_nat (s0 : str) : option N :=
  let s := strip s0 in
  match s with
  | [] => None
  | _ => if forallb is_digit s then Some (digits_val 0 s) else None
  end.
