(* Proto.v — well-formedness predicates and, per message class, what the MOS protocol
   says the sequence of story IDs / item IDs must be after the merge.  Executable:
   extracted as the oracle that decides whether a disagreement is a violation. *)
From Coq Require Import List Bool.
Import ListNotations.
From Mos Require Import Str Xml Outcome Seq Spec Elements Classify Messages Merge.

(* ---- running orders *)
Definition rc_of (ro : xml) : option xml := find t_roCreate (kids_of ro).

(* every <story> child of roCreate has a <storyID>, every <item> of a story an <itemID> *)
Definition wf_story (s : xml) : bool :=
  if has_tag t_story s then no_bad ikey (kids_of s) else true.
Definition wf_rc (rc : xml) : bool :=
  no_bad skey (kids_of rc) && forallb wf_story (kids_of rc).
Definition wf_ro (ro : xml) : bool :=
  match rc_of ro with Some rc => wf_rc rc | None => false end.

(* story IDs of a running order, item IDs of a story: the observables of C01 / C02 *)
Definition story_ids_rc (rc : xml) : list (option str) := keys skey (kids_of rc).
Definition story_ids (ro : xml) : list (option str) :=
  match rc_of ro with Some rc => story_ids_rc rc | None => [] end.
Definition item_ids (s : xml) : list (option str) := keys ikey (kids_of s).

(* ---- messages: "schema-shaped" = required tags present; IDs may be anything *)
Definition msg_ok (m : xml) : bool :=
  match msg_id_exn m with None => true | Some _ => false end.
(* carried stories / items carry their ID tag *)
Definition has_id (tag idtag : str) (x : xml) : bool :=
  has_tag tag x && match find idtag (kids_of x) with Some _ => true | None => false end.
Definition carried_ok (tag idtag : str) (l : list xml) : bool :=
  forallb (has_id tag idtag) l.

Definition schema_ok (k : mclass) (m : xml) : bool :=
  msg_ok m &&
  match base_of k m with
  | None => false
  | Some b =>
    match k with
    | StorySend => match convert_story_send b with Some _ => true | None => false end
    | StoryAppend | StoryInsert | StoryReplace => carried_ok t_story t_storyID (carried t_story b)
    | EAStoryInsert | EAStoryReplace => carried_ok t_story t_storyID (ea_carried t_story b)
    | ItemInsert | ItemReplace => carried_ok t_item t_itemID (carried t_item b)
    | EAItemInsert | EAItemReplace => carried_ok t_item t_itemID (ea_carried t_item b)
    | ItemMoveMultiple => match id_tags t_itemID b with [] => false | _ => true end
    | RunningOrderReplace => wf_rc b
    | _ => true
    end
  end.

(* ---- the protocol on story IDs, per class.  None = the property makes no claim
   (a reference does not resolve, or the message is ambiguous) *)
Fixpoint all_some (l : list (option str)) : option (list str) :=
  match l with
  | [] => Some []
  | None :: _ => None
  | Some s :: r => match all_some r with Some r' => Some (s :: r') | None => None end
  end.
Fixpoint nodup_str (l : list str) : bool :=
  match l with [] => true | s :: r => negb (mem_str s r) && nodup_str r end.

Definition proto_move (tgt : option str) (srcs : list (option str)) (ids : list (option str))
  : option (list (option str)) :=
  match all_some srcs with
  | None => None
  | Some ss =>
    if nodup_str ss && forallb (fun s => sp_mem str_eqb s ids) ss &&
       (match tgt with Some t => sp_mem str_eqb t ids && negb (mem_str t ss) | None => true end)
    then sp_move str_eqb tgt ss ids else None
  end.
Definition proto_swap (l : list (option str)) (ids : list (option str)) : option (list (option str)) :=
  match l with
  | [Some a; Some b] =>
    if negb (str_eqb a b) && sp_mem str_eqb a ids && sp_mem str_eqb b ids
    then Some (sp_swap str_eqb a b ids) else None
  | _ => None
  end.
Definition proto_insert (tgt : option str) (new : list (option str)) (ids : list (option str)) :=
  sp_insert str_eqb tgt (sp_fresh ostr_eqb ids new) ids.
Definition proto_replace (tgt : option str) (new : list (option str)) (ids : list (option str)) :=
  match tgt with Some t => sp_replace str_eqb t new ids | None => None end.

Definition carried_ids (idf : xml -> option str) (l : list xml) : list (option str) := map idf l.

Definition proto_story (k : mclass) (b : xml) (ids : list (option str))
  : option (list (option str)) :=
  match k with
  | StorySend =>
    match convert_story_send b with
    | Some s => proto_replace (story_id s) [story_id s] ids
    | None => None
    end
  | StoryAppend => Some (ids ++ carried_ids story_id (carried t_story b))
  | StoryDelete => Some (sp_delete str_eqb (id_tags t_storyID b) ids)
  | EAStoryDelete => Some (sp_delete str_eqb (ea_source_ids t_storyID b) ids)
  | StoryInsert =>
    match first_story_id b with
    | None => None
    | tgt => proto_insert tgt (carried_ids story_id (carried t_story b)) ids
    end
  | EAStoryInsert =>
    proto_insert (ea_target_id t_storyID b) (carried_ids story_id (ea_carried t_story b)) ids
  | StoryReplace =>
    match carried t_story b with
    | [] => None
    | new => proto_replace (first_story_id b) (carried_ids story_id new) ids
    end
  | EAStoryReplace =>
    proto_replace (ea_target_id t_storyID b) (carried_ids story_id (ea_carried t_story b)) ids
  | StoryMove =>
    match story_move_source b with
    | Some src => proto_move (story_move_target b) [src] ids
    | None => None
    end
  | EAStoryMove => proto_move (ea_target_id t_storyID b) (ea_source_ids t_storyID b) ids
  | EAStorySwap => proto_swap (ea_first_source_ids t_storyID b) ids
  | _ => None
  end.

(* the story an item-level message addresses *)
Definition addressed_story (k : mclass) (b : xml) : option str :=
  match k with
  | ItemDelete | ItemInsert | ItemMoveMultiple | ItemReplace => first_story_id b
  | EAItemReplace | EAItemDelete | EAItemInsert | EAItemSwap | EAItemMove => ea_target_id t_storyID b
  | _ => None
  end.

(* the protocol on the item IDs of the addressed story *)
Definition proto_item (k : mclass) (b : xml) (ids : list (option str))
  : option (list (option str)) :=
  match k with
  | ItemDelete => Some (sp_delete str_eqb (id_tags t_itemID b) ids)
  | EAItemDelete => Some (sp_delete str_eqb (ea_source_ids t_itemID b) ids)
  | ItemInsert => sp_insert str_eqb (first_item_id b) (carried_ids item_id (carried t_item b)) ids
  | EAItemInsert =>
    sp_insert str_eqb (ea_target_id t_itemID b) (carried_ids item_id (ea_carried t_item b)) ids
  | ItemReplace => proto_replace (first_item_id b) (carried_ids item_id (carried t_item b)) ids
  | EAItemReplace =>
    proto_replace (ea_target_id t_itemID b) (carried_ids item_id (ea_carried t_item b)) ids
  | ItemMoveMultiple =>
    match imm_target b with
    | Some tgt => proto_move tgt (imm_sources b) ids
    | None => None
    end
  | EAItemMove => proto_move (ea_target_id t_itemID b) (ea_first_source_ids t_itemID b) ids
  | EAItemSwap => proto_swap (ea_first_source_ids t_itemID b) ids
  | _ => None
  end.

Definition is_story_class (k : mclass) : bool :=
  match k with
  | StorySend | StoryAppend | StoryDelete | StoryInsert | StoryMove | StoryReplace
  | EAStoryReplace | EAStoryDelete | EAStoryInsert | EAStorySwap | EAStoryMove => true
  | _ => false
  end.
Definition is_item_class (k : mclass) : bool :=
  match k with
  | ItemDelete | ItemInsert | ItemMoveMultiple | ItemReplace
  | EAItemReplace | EAItemDelete | EAItemInsert | EAItemSwap | EAItemMove => true
  | _ => false
  end.

(* ---- what a message carries is itself well formed (needed for the invariant
   "every reachable running order is well formed") *)
Definition story_elem_ok (c : xml) : bool :=
  (match skey c with KBad => false | _ => true end) && wf_story c.
Definition payload_wf (k : mclass) (m : xml) : bool :=
  match base_of k m with
  | None => false
  | Some b =>
    match k with
    | StorySend => match convert_story_send b with Some s => wf_story s | None => false end
    | StoryAppend | StoryInsert | StoryReplace => forallb wf_story (carried t_story b)
    | EAStoryInsert | EAStoryReplace => forallb wf_story (ea_carried t_story b)
    | MetaDataReplace => forallb story_elem_ok (kids_of b)
    | _ => true
    end
  end.

(* ---- C06: the IDs a story-level / item-level message names and that must be found
   (a blank entry is a name that cannot be found) *)
Definition opt_list {A} (o : option A) : list (option A) := match o with Some _ => [o] | None => [] end.
Definition named_story_ids (k : mclass) (b : xml) : list (option str) :=
  match k with
  | StorySend => match convert_story_send b with Some s => [story_id s] | None => [] end
  | StoryDelete => id_tags t_storyID b
  | EAStoryDelete => ea_source_ids t_storyID b
  | StoryInsert | StoryReplace => [first_story_id b]
  | EAStoryReplace => [ea_target_id t_storyID b]
  | EAStoryInsert => opt_list (ea_target_id t_storyID b)
  | StoryMove =>
    match story_move_source b with
    | Some src => src :: opt_list (story_move_target b)
    | None => []
    end
  | EAStoryMove => ea_source_ids t_storyID b ++ opt_list (ea_target_id t_storyID b)
  | EAStorySwap => ea_first_source_ids t_storyID b
  | _ => []
  end.
Definition named_item_ids (k : mclass) (b : xml) : list (option str) :=
  match k with
  | ItemDelete => id_tags t_itemID b
  | EAItemDelete => ea_source_ids t_itemID b
  | ItemInsert => opt_list (first_item_id b)
  | EAItemInsert => opt_list (ea_target_id t_itemID b)
  | ItemReplace => [first_item_id b]
  | EAItemReplace => [ea_target_id t_itemID b]
  | ItemMoveMultiple =>
    imm_sources b ++ match imm_target b with Some (Some t) => [Some t] | _ => [] end
  | EAItemMove => ea_first_source_ids t_itemID b ++ opt_list (ea_target_id t_itemID b)
  | EAItemSwap => ea_first_source_ids t_itemID b
  | _ => []
  end.
Definition present (ids : list (option str)) (id : option str) : bool :=
  match id with Some s => sp_mem str_eqb s ids | None => false end.

(* ---- C03: what a message names.  An element is "touched" when it is keyed and its ID is
   among the IDs the message names or carries *)
Definition touched (kof : xml -> kres str) (ids : list (option str)) (x : xml) : bool :=
  match kof x with KKey id => mem_ostr id ids | _ => false end.
Definition untouched (kof : xml -> kres str) (ids : list (option str)) (l : list xml) : list xml :=
  filter (fun x => negb (touched kof ids x)) l.
Definition story_payload (k : mclass) (b : xml) : list xml :=
  match k with
  | StorySend => match convert_story_send b with Some s => [s] | None => [] end
  | StoryAppend | StoryInsert | StoryReplace => carried t_story b
  | EAStoryInsert | EAStoryReplace => ea_carried t_story b
  | _ => []
  end.
Definition item_payload (k : mclass) (b : xml) : list xml :=
  match k with
  | ItemInsert | ItemReplace => carried t_item b
  | EAItemInsert | EAItemReplace => ea_carried t_item b
  | _ => []
  end.
Definition story_touch_ids (k : mclass) (b : xml) : list (option str) :=
  named_story_ids k b ++ map story_id (story_payload k b).
Definition item_touch_ids (k : mclass) (b : xml) : list (option str) :=
  named_item_ids k b ++ map item_id (item_payload k b).

(* roMetadataReplace: a child of roCreate is matched by a carried element with the same
   tag - for mosExternalMetadata, the same tag and mosSchema *)
Definition md_same (src c : xml) : bool :=
  if has_tag t_mosExternalMetadata src
  then has_tag t_mosExternalMetadata c &&
       ostr_eqb (findtext t_mosSchema (kids_of c)) (findtext t_mosSchema (kids_of src))
  else has_tag (tag_of src) c.
Definition md_matched (srcs : list xml) (c : xml) : bool := existsb (fun s => md_same s c) srcs.
