(* Spec.v — the MOS protocol on sequences of IDs, written without any index
   arithmetic.  An entry is the ID text of a story / item (None = blank ID).
   These functions are the right-hand sides of the order theorems (C01, C02) and,
   extracted, the oracle that decides whether a disagreement is a violation. *)
From Coq Require Import List Bool.
Import ListNotations.

Section Spec.
Context {K : Type}.
Variable keqb : K -> K -> bool.

Definition oeq (a : option K) (id : K) : bool :=
  match a with Some k => keqb k id | None => false end.
Definition sp_mem (id : K) (l : list (option K)) : bool := existsb (fun a => oeq a id) l.

(* delete: the first entry with that ID goes *)
Fixpoint sp_remove1 (id : K) (l : list (option K)) : list (option K) :=
  match l with
  | [] => []
  | a :: r => if oeq a id then r else a :: sp_remove1 id r
  end.
(* every named ID that is present is removed; blank and unknown names remove nothing *)
Fixpoint sp_delete (ids : list (option K)) (l : list (option K)) : list (option K) :=
  match ids with
  | [] => l
  | None :: r => sp_delete r l
  | Some id :: r => sp_delete r (sp_remove1 id l)
  end.
(* the named IDs that are not there at their turn (one warning each) *)
Fixpoint sp_missing (ids : list (option K)) (l : list (option K)) : nat :=
  match ids with
  | [] => 0
  | None :: r => S (sp_missing r l)
  | Some id :: r => if sp_mem id l then sp_missing r (sp_remove1 id l) else S (sp_missing r l)
  end.

(* new entries immediately before the first entry with ID t; None when t is not there *)
Fixpoint sp_insert_before (t : K) (new l : list (option K)) : option (list (option K)) :=
  match l with
  | [] => None
  | a :: r =>
    if oeq a t then Some (new ++ a :: r)
    else match sp_insert_before t new r with Some r' => Some (a :: r') | None => None end
  end.
(* a blank / absent target means the end *)
Definition sp_insert (tgt : option K) (new l : list (option K)) : option (list (option K)) :=
  match tgt with
  | None => Some (l ++ new)
  | Some t => sp_insert_before t new l
  end.

(* the first entry with ID t is replaced by the new entries *)
Fixpoint sp_replace (t : K) (new l : list (option K)) : option (list (option K)) :=
  match l with
  | [] => None
  | a :: r =>
    if oeq a t then Some (new ++ r)
    else match sp_replace t new r with Some r' => Some (a :: r') | None => None end
  end.

(* move: take the sources out, put them back, in message order, before the target *)
Definition sp_remove_all (srcs : list K) (l : list (option K)) : list (option K) :=
  filter (fun a => negb (existsb (oeq a) srcs)) l.
Definition sp_move (tgt : option K) (srcs : list K) (l : list (option K)) : option (list (option K)) :=
  sp_insert tgt (map Some srcs) (sp_remove_all srcs l).

(* swap: the two IDs exchange positions *)
Definition sp_swap (a b : K) (l : list (option K)) : list (option K) :=
  map (fun x => if oeq x a then Some b else if oeq x b then Some a else x) l.

(* insert with duplicates skipped: the carried IDs that are new, in message order *)
Variable okeqb : option K -> option K -> bool.
Fixpoint sp_fresh (seen : list (option K)) (new : list (option K)) : list (option K) :=
  match new with
  | [] => []
  | id :: r => if existsb (okeqb id) seen then sp_fresh seen r else id :: sp_fresh (id :: seen) r
  end.
Fixpoint sp_dups (seen : list (option K)) (new : list (option K)) : nat :=
  match new with
  | [] => 0
  | id :: r => if existsb (okeqb id) seen then S (sp_dups seen r) else sp_dups (id :: seen) r
  end.

End Spec.
