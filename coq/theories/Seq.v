(* Seq.v — keyed sequences: a child list in which some elements carry an ID
   (stories in roCreate, items in a story) and the rest are "others"; the generic
   edits every merge is an instance of.  Definitions only. *)
From Coq Require Import List Bool Arith.
Import ListNotations.
From Mos Require Import Str Xml Outcome.

(* what find_child sees in a child: another tag; the right tag without an ID tag
   (AttributeError); the right tag with its ID text (None = blank) *)
Inductive kres (K : Type) := KOther | KBad | KKey (k : option K).
Arguments KOther {K}.
Arguments KBad {K}.
Arguments KKey {K}.

Inductive fc := FFound (i : nat) | FNone | FAttr.

Section Seq.
Context {A K : Type}.
Variable kof : A -> kres K.
Variable keqb : K -> K -> bool.

Definition key_is (id : K) (x : A) : bool :=
  match kof x with KKey (Some k) => keqb k id | _ => false end.

(* find_child(parent, tag, id) for a non-blank id *)
Fixpoint find_from (id : K) (l : list A) (i : nat) : fc :=
  match l with
  | [] => FNone
  | c :: r =>
    match kof c with
    | KOther => find_from id r (S i)
    | KBad => FAttr
    | KKey k =>
      if (match k with Some k' => keqb k' id | None => false end) then FFound i
      else find_from id r (S i)
    end
  end.
(* _find_by_id: a blank id never matches *)
Definition lookup (id : option K) (l : list A) : fc :=
  match id with
  | None => FNone
  | Some s => find_from s l 0
  end.

(* the ID texts of the keyed children, in order *)
Definition keys (l : list A) : list (option K) :=
  flat_map (fun x => match kof x with KKey k => [k] | _ => [] end) l.
Definition is_keyed (x : A) : bool := match kof x with KKey _ => true | _ => false end.
Definition keyed (l : list A) : list A := filter is_keyed l.
Definition others (l : list A) : list A := filter (fun x => negb (is_keyed x)) l.
Definition no_bad (l : list A) : bool :=
  forallb (fun x => match kof x with KBad => false | _ => true end) l.

(* ---- node identity: every child is paired with its original index *)
Definition tagl (l : list A) : list (nat * A) := combine (seq 0 (length l)) l.
Definition memn (n : nat) (ps : list nat) : bool := existsb (Nat.eqb n) ps.
(* parent.remove(node) for every node in ps *)
Definition without (ps : list nat) (il : list (nat * A)) : list (nat * A) :=
  filter (fun p => negb (memn (fst p) ps)) il.
(* the nodes named by ps, in the order ps lists them *)
Definition pick (ps : list nat) (l : list A) : list (nat * A) :=
  flat_map (fun p => match nth_error l p with Some x => [(p, x)] | None => [] end) ps.
(* _index_of(parent, node): search by identity *)
Fixpoint pos_of (i : nat) (il : list (nat * A)) : option nat :=
  match il with
  | [] => None
  | p :: r => if Nat.eqb (fst p) i then Some O else option_map S (pos_of i r)
  end.

(* _move_before(parent, nodes, target): remove all nodes, locate the target in the
   remainder (None = end), insert the nodes there in the order given.
   Result None = ValueError from _index_of (the target was one of the nodes). *)
Definition move_before (ps : list nat) (tp : option nat) (l : list A) : option (list A) :=
  let rest := without ps (tagl l) in
  let moved := pick ps l in
  match tp with
  | None => Some (map snd (insert_loop (length rest) moved rest))
  | Some t =>
    match pos_of t rest with
    | Some i => Some (map snd (insert_loop i moved rest))
    | None => None
    end
  end.

(* _swap(parent, node1, node2): sort by index, remove hi, remove lo,
   insert the hi node at lo, insert the lo node at hi *)
Definition swap_nodes (i j : nat) (l : list A) : list A :=
  let lo := Nat.min i j in
  let hi := Nat.max i j in
  match nth_error l lo, nth_error l hi with
  | Some a, Some b => insert_at hi a (insert_at lo b (remove_at lo (remove_at hi l)))
  | _, _ => l
  end.

(* ---- raising and warning evaluate self.message_id inside the f-string:
   mex is the exception that evaluation raises, if any *)
Variable mex : option exn.
Definition merge_error : exn := match mex with Some e => e | None => MosMergeError end.
Definition raise_merge {S} (s : S) : res S := fail s merge_error.
(* a warning never raises (repair F29): its text names the message ID as None when evaluating it
   would raise, so emit does not depend on mex any more; the parameter stays so that the
   signatures of the generic edits are unchanged *)
Definition emit {S} (w : warn) (s : S) : res S :=
  let _ := mex in R s [w] None.

(* for each ID: remove the first match, or warn *)
Fixpoint delete_loop (w : warn) (ids : list (option K)) (l : list A) : res (list A) :=
  match ids with
  | [] => ok l
  | id :: r =>
    match lookup id l with
    | FAttr => fail l PyAttributeError
    | FFound i => delete_loop w r (remove_at i l)
    | FNone => bind (emit w l) (delete_loop w r)
    end
  end.

(* insert elements from index i, skipping (with a warning) those whose ID is already
   known; the index advances only on insertion *)
Variable id_of : A -> option K.        (* Story(x).id of a carried element *)
Variable okeqb : option K -> option K -> bool.
Fixpoint insert_dups (w : warn) (seen : list (option K)) (i : nat) (new : list A) (l : list A)
  : res (list A) :=
  match new with
  | [] => ok l
  | s :: r =>
    let id := id_of s in
    if existsb (okeqb id) seen then bind (emit w l) (insert_dups w seen i r)
    else insert_dups w (id :: seen) (S i) r (insert_at i s l)
  end.

(* locate every source, rejecting unknown ones, the target itself and repeats *)
Inductive vres := VOk (ps : list nat) | VMerge | VAttr.
Fixpoint validate_sources (tp : option nat) (acc : list nat) (ids : list (option K)) (l : list A)
  : vres :=
  match ids with
  | [] => VOk (rev acc)
  | id :: r =>
    match lookup id l with
    | FAttr => VAttr
    | FNone => VMerge
    | FFound p =>
      if (match tp with Some t => Nat.eqb p t | None => false end) || memn p acc then VMerge
      else validate_sources tp (p :: acc) r l
    end
  end.

(* target lookup for moves and inserts: a blank target means the end *)
Inductive tres := TEnd | TAt (i : nat) | TMerge | TAttr.
Definition locate_target (tgt : option K) (l : list A) : tres :=
  match tgt with
  | None => TEnd
  | Some _ =>
    match lookup tgt l with
    | FFound i => TAt i
    | FNone => TMerge
    | FAttr => TAttr
    end
  end.

Definition gen_move (tgt : option K) (srcs : list (option K)) (l : list A) : res (list A) :=
  match locate_target tgt l with
  | TAttr => fail l PyAttributeError
  | TMerge => raise_merge l
  | t =>
    let tp := match t with TAt i => Some i | _ => None end in
    match validate_sources tp [] srcs l with
    | VAttr => fail l PyAttributeError
    | VMerge => raise_merge l
    | VOk ps =>
      match move_before ps tp l with
      | Some l' => ok l'
      | None => fail l PyValueError
      end
    end
  end.

Definition gen_swap (ids : list (option K)) (l : list A) : res (list A) :=
  match ids with
  | [a; b] =>
    match lookup a l with
    | FAttr => fail l PyAttributeError
    | FNone => raise_merge l
    | FFound i =>
      match lookup b l with
      | FAttr => fail l PyAttributeError
      | FNone => raise_merge l
      | FFound j => if Nat.eqb i j then raise_merge l else ok (swap_nodes i j l)
      end
    end
  | _ => raise_merge l
  end.

(* remove the child at index i and insert the replacements from that index *)
Definition replace_with (i : nat) (new : list A) (l : list A) : list A :=
  insert_loop i new (remove_at i l).

(* replace the element with the given ID by the carried elements *)
Definition gen_replace (tgt : option K) (new : list A) (l : list A) : res (list A) :=
  match lookup tgt l with
  | FAttr => fail l PyAttributeError
  | FNone => raise_merge l
  | FFound i => ok (replace_with i new l)
  end.

(* insert before the target, or at the end when the reference is blank *)
Definition gen_insert (tgt : option K) (new : list A) (l : list A) : res (list A) :=
  match locate_target tgt l with
  | TAttr => fail l PyAttributeError
  | TMerge => raise_merge l
  | TEnd => ok (insert_loop (length l) new l)
  | TAt i => ok (insert_loop i new l)
  end.

End Seq.
