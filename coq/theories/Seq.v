(* Seq.v — keyed sequences: a child list in which some elements carry a key
   (stories in roCreate, items in a story) and the rest are "others".
   Generic edits used by every merge.  Definitions only. *)
From Coq Require Import List Bool Arith.
Import ListNotations.
From Mos Require Import Xml.

Section Seq.
Context {A K : Type}.
Variable key : A -> option K.
Variable keqb : K -> K -> bool.

Definition has_key (id : K) (x : A) : bool :=
  match key x with Some k => keqb k id | None => false end.

(* position of the first element with the key *)
Fixpoint find_pos (id : K) (l : list A) : option nat :=
  match l with
  | [] => None
  | x :: r => if has_key id x then Some O else option_map S (find_pos id r)
  end.

Definition keys (l : list A) : list K :=
  flat_map (fun x => match key x with Some k => [k] | None => [] end) l.
Definition keyed (l : list A) : list A :=
  filter (fun x => match key x with Some _ => true | None => false end) l.
Definition others (l : list A) : list A :=
  filter (fun x => match key x with Some _ => false | None => true end) l.

(* ---- node identity: every child is paired with its original index *)
Definition tagl (l : list A) : list (nat * A) := combine (seq 0 (length l)) l.
Definition memn (n : nat) (ps : list nat) : bool := existsb (Nat.eqb n) ps.
Fixpoint nodupn (ps : list nat) : bool :=
  match ps with [] => true | p :: r => negb (memn p r) && nodupn r end.
(* parent.remove(node) for every node in ps *)
Definition without (ps : list nat) (il : list (nat * A)) : list (nat * A) :=
  filter (fun p => negb (memn (fst p) ps)) il.
(* the nodes named by ps, in the order ps lists them *)
Definition pick (ps : list nat) (l : list A) : list (nat * A) :=
  flat_map (fun p => match nth_error l p with Some x => [(p, x)] | None => [] end) ps.
(* _index_of(parent, node): search by identity *)
Fixpoint pos_of (i : nat) (il : list (nat * A)) : option nat :=
  match il with
  | [] => None
  | p :: r => if Nat.eqb (fst p) i then Some O else option_map S (pos_of i r)
  end.

(* _move_before(parent, nodes, target): remove all nodes, locate the target in the
   remainder (None = end), insert the nodes there in the order given.
   Result None = ValueError from _index_of (target was one of the nodes). *)
Definition move_before (ps : list nat) (tp : option nat) (l : list A) : option (list A) :=
  let il := tagl l in
  let rest := without ps il in
  let moved := pick ps l in
  match tp with
  | None => Some (map snd (insert_loop (length rest) moved rest))
  | Some t =>
    match pos_of t rest with
    | Some i => Some (map snd (insert_loop i moved rest))
    | None => None
    end
  end.

(* _swap(parent, node1, node2): sort by index, remove hi, remove lo,
   insert hi-node at lo, insert lo-node at hi *)
Definition swap_nodes (i j : nat) (l : list A) : list A :=
  let lo := Nat.min i j in
  let hi := Nat.max i j in
  match nth_error l lo, nth_error l hi with
  | Some a, Some b => insert_at hi a (insert_at lo b (remove_at lo (remove_at hi l)))
  | _, _ => l
  end.

End Seq.
