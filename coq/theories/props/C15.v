(* C15 — Read accessors never raise and agree with the XML in every reachable state. *)
From Coq Require Import List Bool ZArith.
Import ListNotations.
From Mos Require Import Str Xml Outcome Seq Elements Classify Messages Merge Proto.
From Mos.proofs Require Import ElementsFacts WfFacts.

(* If every story has a storyID and the timing data that is present is numeric / parseable
   (stories without timing data are fine), listing the stories does not raise and lists
   exactly the <story> children in document order. *)
Theorem C15_stories_no_raise_and_agree :
  forall (o : oracles) (rc : xml),
  forallb has_story_id (findall t_story (kids_of rc)) = true ->
  forallb (dur_ok o) (findall t_story (kids_of rc)) = true -> start_ok o rc = true ->
  exists l, ro_stories o rc = AVal l /\ map so_xml l = findall t_story (kids_of rc).
Proof. exact stories_listing_no_raise. Qed.
Print Assumptions C15_stories_no_raise_and_agree.

(* IDs, slugs, object IDs ... are direct reads: the text of the first such child; None when absent *)
Theorem C15_absent_is_none :
  forall (idtag : str) (x : xml),
  (find idtag (kids_of x) = None -> elem_id idtag x = None) /\
  (forall e, find idtag (kids_of x) = Some e -> elem_id idtag x = text_of e).
Proof. exact accessor_absent_is_none. Qed.
Print Assumptions C15_absent_is_none.

Theorem C15_items_agree : forall x : xml, story_items x = filter (has_tag t_item) (kids_of x).
Proof. exact items_agree. Qed.
Print Assumptions C15_items_agree.

Theorem C15_duration_absent_is_none :
  forall (o : oracles) (story : xml), payload_of story = None -> story_duration o story = ANone.
Proof. exact duration_absent. Qed.
Print Assumptions C15_duration_absent_is_none.

(* well-formedness (every story has a storyID, every item an itemID) holds in every state
   reached by schema-shaped messages: the hypothesis above is reachable *)
Theorem C15_wf_reachable :
  forall (o : oracles) (ro : xml) (h : list (mclass * xml)),
  wf_ro ro = true -> forallb msg_wf h = true ->
  wf_ro (fold_left (fun s km => r_st (add o s (fst km) (snd km))) h ro) = true.
Proof. exact history_wf. Qed.
Print Assumptions C15_wf_reachable.
