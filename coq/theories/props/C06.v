(* C06 — Nothing named by a message is skipped silently. *)
From Coq Require Import List Bool.
Import ListNotations.
From Mos Require Import Str Xml Outcome Seq Spec Elements Classify Messages Merge Proto.
From Mos.proofs Require Import Warn StoryOrder ItemFacts.

(* Never silence: if a story-level merge neither raises nor warns, then every story ID the
   message names (targets, sources, every ID of a multi-ID message - named_story_ids is one
   entry per ID tag) is the ID of a story of the running order; a blank name counts as not found.
   Contrapositive: a named story that cannot be found yields MosMergeError or a warning. *)
Theorem C06_raise_or_warn :
  forall (o : oracles) (k : mclass) (m b rc : xml),
  is_story_class k = true -> msg_ok m = true -> no_bad skey (kids_of rc) = true ->
  let r := merge_kids o k m b rc in
  r_err r = None -> r_ws r = [] ->
  forall id, In id (named_story_ids k b) -> present (story_ids_rc rc) id = true.
Proof. exact story_silent_means_resolved. Qed.
Print Assumptions C06_raise_or_warn.

(* Deletes warn exactly once per named ID that is absent at its turn, and apply the rest
   (the resulting sequence is the protocol's: C01 / C02). *)
Theorem C06_delete_warnings :
  forall (o : oracles) (k : mclass) (m b rc : xml),
  (k = StoryDelete \/ k = EAStoryDelete) -> msg_ok m = true -> no_bad skey (kids_of rc) = true ->
  let ids := match k with StoryDelete => id_tags t_storyID b | _ => ea_source_ids t_storyID b end in
  let r := merge_kids o k m b rc in
  r_err r = None /\ r_ws r = repeat StoryNotFound (sp_missing str_eqb ids (story_ids_rc rc)).
Proof. exact story_delete_warnings. Qed.
Print Assumptions C06_delete_warnings.

(* Inserts warn exactly once per carried story that is skipped as a duplicate. *)
Theorem C06_insert_warnings :
  forall (o : oracles) (k : mclass) (m b rc : xml),
  (k = StoryInsert \/ k = EAStoryInsert) -> msg_ok m = true -> no_bad skey (kids_of rc) = true ->
  let new := match k with StoryInsert => carried t_story b | _ => ea_carried t_story b end in
  let r := merge_kids o k m b rc in
  r_err r = None ->
  r_ws r = repeat DuplicateStory (sp_dups ostr_eqb (story_ids_rc rc) (map story_id new)).
Proof. exact story_insert_warnings. Qed.
Print Assumptions C06_insert_warnings.

(* The same counting for any keyed sequence (items of a story): one warning per absent ID. *)
Theorem C06_item_delete_warnings :
  forall (w : warn) (ids : list (option str)) (l : list xml),
  no_bad ikey l = true ->
  let r := delete_loop ikey str_eqb None w ids l in
  r_err r = None /\ keys ikey (r_st r) = sp_delete str_eqb ids (keys ikey l) /\
  others ikey (r_st r) = others ikey l /\ r_ws r = repeat w (sp_missing str_eqb ids (keys ikey l)).
Proof. intros w ids l Hb. exact (proto_delete_sound t_item t_itemID None w ids l eq_refl Hb). Qed.
Print Assumptions C06_item_delete_warnings.

(* A move or swap that is fully applied (references resolve, unique IDs) emits no warning. *)
Theorem C06_fully_applied_is_silent :
  forall (tag idtag : str) (tgt : option str) (srcs ids : list (option str)) (l : list xml)
         (ks : list (option str)),
  no_bad (ckey tag idtag) l = true -> NoDup (keys (ckey tag idtag) l) ->
  (proto_move tgt srcs (keys (ckey tag idtag) l) = Some ks ->
   r_ws (gen_move (ckey tag idtag) str_eqb None tgt srcs l) = []) /\
  (proto_swap ids (keys (ckey tag idtag) l) = Some ks ->
   r_ws (gen_swap (ckey tag idtag) str_eqb None ids l) = []).
Proof. exact resolved_move_swap_silent. Qed.
Print Assumptions C06_fully_applied_is_silent.

(* item level: a merge that neither raises nor warns found the addressed story and, in it,
   every item the message names (all 9 item-level classes) *)
Theorem C06_raise_or_warn_items :
  forall (o : oracles) (k : mclass) (m b rc : xml),
  is_item_class k = true -> msg_ok m = true -> wf_rc rc = true ->
  let r := merge_kids o k m b rc in
  r_err r = None -> r_ws r = [] ->
  exists i s, find_story (addressed_story k b) (kids_of rc) = FFound i /\ nth_error (kids_of rc) i = Some s /\
    forall id, In id (named_item_ids k b) -> present (item_ids s) id = true.
Proof. exact item_silent_means_resolved. Qed.
Print Assumptions C06_raise_or_warn_items.
