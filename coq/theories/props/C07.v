(* C07 — Completion by roDelete is faithful, terminal and survives a round trip. *)
From Coq Require Import List Bool.
Import ListNotations.
From Mos Require Import Str Xml Outcome Seq Elements Classify Messages Merge Collection Proto.
From Mos Require Import Codec.
From Mos.proofs Require Import ClassifyFacts CodecFacts.

Theorem C07_rodelete_marks :
  forall (o : oracles) (ro d b : xml),
  ro_completed ro = false -> base_of RunningOrderEnd d = Some b ->
  let r := add o ro RunningOrderEnd d in
  r_err r = None /\ r_ws r = [] /\
  r_st r = set_kids ro (kids_of ro ++ [Elem t_mosromgrmeta [] None None [b]]) /\
  ro_completed (r_st r) = true /\
  (forall rc, rc_of ro = Some rc -> rc_of (r_st r) = Some rc).
Proof. exact rodelete_marks. Qed.
Print Assumptions C07_rodelete_marks.

(* from then on every message of every class raises MosCompletedMergeError, changes nothing *)
Theorem C07_terminal :
  forall (o : oracles) (ro : xml) (h : list (mclass * xml)),
  ro_completed ro = true ->
  fold_left (fun s km => r_st (add o s (fst km) (snd km))) h ro = ro /\
  Forall (fun km => r_err (add o ro (fst km) (snd km)) = Some MosCompletedMergeError) h.
Proof. exact completed_terminal_history. Qed.
Print Assumptions C07_terminal.

(* a running order that never received a roDelete is never reported completed *)
Theorem C07_never_spurious :
  forall (o : oracles) (ro : xml) (h : list (mclass * xml)),
  ro_completed ro = false -> Forall (fun km => fst km <> RunningOrderEnd) h ->
  ro_completed (fold_left (fun s km => r_st (add o s (fst km) (snd km))) h ro) = false.
Proof. exact never_spurious. Qed.
Print Assumptions C07_never_spurious.

(* a (completed) running order written out and read back is the same document: still a
   RunningOrder, still (not) completed *)
Theorem C07_roundtrip :
  forall ro : xml, wf_xml ro = true ->
  exists ro', parse (ser ro) = Some ro' /\ classify ro' = classify ro /\ ro_completed ro' = ro_completed ro.
Proof. intros ro H. exists ro. split; [now apply codec_roundtrip | now split]. Qed.
Print Assumptions C07_roundtrip.
