(* C16 — Durations, offsets, start and end times are arithmetically consistent.
   Durations, offsets and instants are whole microseconds (Z): float(text) is an oracle that
   supplies the value in microseconds, so the theorems are exact for decimal texts with at
   most six fractional digits; binary64 rounding below that is not modelled (DESIGN.md
   section 10). *)
From Coq Require Import List Bool ZArith.
Import ListNotations.
From Mos Require Import Str Xml Outcome Elements.
From Mos.proofs Require Import ElementsFacts.
Local Open Scope Z_scope.

(* StoryDuration if present, otherwise TextTime + MediaTime with a missing one counting as 0 *)
Theorem C16_duration :
  forall (o : oracles) (story pl : xml),
  payload_of story = Some pl ->
  story_duration o story =
  match find t_StoryDuration (kids_of pl) with
  | Some d => float_of o d
  | None =>
    match find t_TextTime (kids_of pl), find t_MediaTime (kids_of pl) with
    | None, None => ANone
    | te, me =>
      match float_or_zero o te, float_or_zero o me with
      | AVal a, AVal b => AVal (a + b)
      | AErr e, _ => AErr e
      | AVal _, AErr e => AErr e
      | _, _ => ANone
      end
    end
  end.
Proof. exact duration_precedence. Qed.
Print Assumptions C16_duration.

(* when every story has a duration and the story IDs are unique, the offset of the k-th
   story is the sum of the durations of the stories before it (any number of stories) *)
Theorem C16_offsets :
  forall (o : oracles) (rc : xml) (stories : list xml) (ds : list Z) (k : nat) (s : xml),
  findall t_story (kids_of rc) = stories -> stories <> [] ->
  forallb has_story_id stories = true -> NoDup (map story_id stories) ->
  Forall2 (fun s d => story_duration o s = AVal d) stories ds ->
  nth_error stories k = Some s ->
  forall start, so_offset {| so_xml := s;
                   so_offsets := Some (combine (map story_id stories) (map Some (prefix_sums 0 ds)));
                   so_start := start |}
  = Some (sumz (firstn k ds)).
Proof. exact offsets_are_prefix_sums. Qed.
Print Assumptions C16_offsets.

(* ... and that table is the one RunningOrder.stories builds *)
Theorem C16_stories_table :
  forall (o : oracles) (rc : xml) (stories : list xml) (ds : list Z),
  findall t_story (kids_of rc) = stories -> stories <> [] ->
  ro_start_time o rc <> AErr PyValueError ->
  forallb has_story_id stories = true ->
  Forall2 (fun s d => story_duration o s = AVal d) stories ds ->
  ro_stories o rc =
  AVal (map (fun x => {| so_xml := x;
                         so_offsets := Some (combine (map story_id stories) (map Some (prefix_sums 0 ds)));
                         so_start := match ro_start_time o rc with AVal z => Some z | _ => None end |})
            stories).
Proof. exact ro_stories_table. Qed.
Print Assumptions C16_stories_table.

Theorem C16_ro_duration :
  forall (o : oracles) (rc : xml) (stories : list xml) (ds : list Z),
  findall t_story (kids_of rc) = stories ->
  ro_start_time o rc <> AErr PyValueError ->
  forallb has_story_id stories = true ->
  Forall2 (fun s d => story_duration o s = AVal d) stories ds ->
  ro_duration o rc = AVal (sumz ds).
Proof. exact ro_duration_is_sum. Qed.
Print Assumptions C16_ro_duration.

(* explicit StoryStarted / StoryEnded win; otherwise start = programme start + offset and
   end = start + duration; the running order ends when its last story ends *)
Theorem C16_start :
  forall (o : oracles) (s : story_obj),
  so_start_time o s =
  match (match payload_of (so_xml s) with Some pl => find t_StoryStarted (kids_of pl) | None => None end) with
  | Some e => time_of o e
  | None => match so_start s, so_offset s with
            | Some p, Some off => AVal (p + off)
            | _, _ => ANone
            end
  end.
Proof. exact start_time_rule. Qed.
Print Assumptions C16_start.

Theorem C16_end :
  forall (o : oracles) (s : story_obj),
  so_end_time o s =
  match (match payload_of (so_xml s) with Some pl => find t_StoryEnded (kids_of pl) | None => None end) with
  | Some e => time_of o e
  | None => match so_start_time o s, story_duration o (so_xml s) with
            | AVal st, AVal d => AVal (st + d)
            | AErr e, _ => AErr e
            | AVal _, AErr e => AErr e
            | _, _ => ANone
            end
  end.
Proof. exact end_time_rule. Qed.
Print Assumptions C16_end.

Theorem C16_ro_end :
  forall (o : oracles) (rc : xml) (l : list story_obj) (s : story_obj) (r : list story_obj),
  ro_stories o rc = AVal l -> rev l = s :: r -> ro_end_time o rc = so_end_time o s.
Proof. exact ro_end_is_last_story_end. Qed.
Print Assumptions C16_ro_end.
