(* C04 — Stories, items and metadata carried by a message arrive intact. *)
From Coq Require Import List Bool.
Import ListNotations.
From Mos Require Import Str Xml Outcome Seq Spec Elements Classify Messages Merge Proto.
From Mos.proofs Require Import Frame SeqFacts.

(* A roStorySend becomes the sent story: same attributes, text and tail, tag story, the
   children of its first storyBody spliced in its place in their original order, direct
   storyItem children of that body renamed item - for any children before and after. *)
Theorem C04_story_send_shape :
  forall tg atr tx tl (pre : list xml) (body : xml) (post : list xml),
  (forall y, In y pre -> has_tag t_storyBody y = false) -> has_tag t_storyBody body = true ->
  convert_story_send (Elem tg atr tx tl (pre ++ body :: post))
  = Some (Elem t_story atr tx tl (pre ++ map rename_story_item (kids_of body) ++ post)).
Proof. exact story_send_shape. Qed.
Print Assumptions C04_story_send_shape.

(* Insert and replace (stories or items, both message families): the carried elements are
   spliced into the child list as the identical values - all children, attributes, text,
   tail - contiguous and in message order, at the target's position. *)
Theorem C04_payload_present :
  forall (tag idtag : str) (tgt : option str) (new l : list xml),
  no_bad (ckey tag idtag) l = true ->
  (r_err (gen_insert (ckey tag idtag) str_eqb None tgt new l) = None ->
   exists pre post, l = pre ++ post /\ r_st (gen_insert (ckey tag idtag) str_eqb None tgt new l) = pre ++ new ++ post) /\
  (r_err (gen_replace (ckey tag idtag) str_eqb None tgt new l) = None ->
   exists pre x post, l = pre ++ x :: post /\ ckey tag idtag x = KKey tgt /\
     r_st (gen_replace (ckey tag idtag) str_eqb None tgt new l) = pre ++ new ++ post).
Proof. exact payload_spliced. Qed.
Print Assumptions C04_payload_present.

(* Story inserts with duplicates skipped: the result is the old list with the non-duplicate
   carried stories (as sent) spliced in at the target index. *)
Theorem C04_insert_dups_present :
  forall (w : warn) (seen : list (option str)) (i : nat) (new l : list xml),
  i <= length l ->
  let r := insert_dups None story_id ostr_eqb w seen i new l in
  r_err r = None /\ r_st r = insert_many i (fresh_elems story_id ostr_eqb seen new) l /\
  r_ws r = repeat w (sp_dups ostr_eqb seen (map story_id new)).
Proof. exact (insert_dups_spec story_id ostr_eqb). Qed.
Print Assumptions C04_insert_dups_present.

(* After roReplace the running-order element is the sent roReplace element, retagged. *)
Theorem C04_roreplace :
  forall (o : oracles) (ro m b : xml) (i : nat),
  ro_completed ro = false -> base_of RunningOrderReplace m = Some b ->
  find_index t_roCreate (kids_of ro) = Some i ->
  rc_of (r_st (add o ro RunningOrderReplace m)) = Some (set_tag b t_roCreate).
Proof. exact roreplace_content. Qed.
Print Assumptions C04_roreplace.

(* After roMetadataReplace every carried element (that a later carried element does not
   itself replace) is a child of roCreate with the sent content. *)
Theorem C04_metadata :
  forall (srcs kids : list xml) (s : xml),
  In s srcs ->
  (forall pre post, srcs = pre ++ s :: post -> forall s', In s' post -> md_same s' s = false) ->
  NoDup srcs -> In s (md_loop srcs kids).
Proof. exact metadata_carried_present. Qed.
Print Assumptions C04_metadata.
