(* C13 — Merging depends only on content; message objects stay independent.
   The one property about object identity: proved for a store model of ElementTree nodes.
   PARTIAL: the discipline is proved sufficient here; that the 24 merges follow it is checked
   statically (every inserted node is a deep copy or a node of the running order) and by
   histories on the real code - the merges are not re-modelled over the store. *)
From Coq Require Import List Arith Bool.
Import ListNotations.
From Mos Require Import Heap.
From Mos.proofs Require Import HeapFacts HeapCopy.

(* FRAME: mutating a node outside a set of locations closed under "child of" changes no tree
   denoted by a location of the set *)
Theorem C13_frame :
  forall (D : Type) (S : loc -> Prop) (h : heap D) (p : loc) (ks : list loc),
  closed D h S -> ~ S p -> forall f m, S m -> view D f (set_kids D h p ks) m = view D f h m.
Proof. exact frame. Qed.
Print Assumptions C13_frame.

(* deep copy touches nothing that exists and lives at locations that did not exist *)
Theorem C13_copy_fresh :
  forall (D : Type) (t : tree D) (h : heap D),
  fresh_spec D h (fst (alloc D t h)) /\ next D h <= snd (alloc D t h) < next D (fst (alloc D t h)).
Proof. exact alloc_fresh. Qed.
Print Assumptions C13_copy_fresh.

(* DISCIPLINE: for any sequence of primitives in which every mutated parent and every new
   child lies in the running order's region and everything else enters that region only as a
   fresh deep copy, the message's locations stay closed and disjoint from the region, and
   every message location denotes the same tree as before - for this merge and for every
   later sequence of edits, into this or another running order *)
Theorem C13_discipline :
  forall (D : Type) (M : loc -> Prop) (ops : list op) (hr : heap D * region),
  Inv D M hr -> all_disciplined D hr ops = true ->
  Inv D M (run D hr ops) /\ forall f m, M m -> view D f (fst (run D hr ops)) m = view D f (fst hr) m.
Proof. exact discipline. Qed.
Print Assumptions C13_discipline.

(* without the copy a 2-step history changes the message (the unrepaired behaviour, F17) ... *)
Theorem C13_sharing_refuted :
  view nat 5 (fst (run nat (h0, [3]) by_reference)) 0 <> view nat 5 h0 0 /\
  all_disciplined nat (h0, [3]) by_reference = false.
Proof. exact sharing_refuted. Qed.
Print Assumptions C13_sharing_refuted.

(* ... with the copy the same history is disciplined and leaves it intact *)
Theorem C13_copy_example :
  all_disciplined nat (h0, [3]) by_copy = true /\
  view nat 5 (fst (run nat (h0, [3]) by_copy)) 0 = view nat 5 h0 0.
Proof. exact copy_example. Qed.
Print Assumptions C13_copy_example.

(* CONTENT: a deep copy denotes exactly the tree it copies, and its source keeps denoting that
   tree - so inserting a deep copy is inserting the value: what a merge puts into the running
   order depends on the content of the message only.  (scoped: every cell and every child it
   names lies below the allocation pointer; preserved by allocation.) *)
Theorem C13_copy_same_content :
  forall (D : Type) (fu : nat) (h : heap D) (src : loc) (t : tree D),
  scoped D h -> view D fu h src = Some t ->
  view D (depth D t) (fst (alloc D t h)) (snd (alloc D t h)) = Some t /\
  view D fu (fst (alloc D t h)) src = Some t.
Proof. exact deepcopy_same_content. Qed.
Print Assumptions C13_copy_same_content.
