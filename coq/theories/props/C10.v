(* C10 — Merge result is independent of the order in which inputs are supplied. *)
From Coq Require Import List Bool NArith Permutation Sorted String.
Import ListNotations.
From Mos Require Import Str Xml Outcome Classify Messages Collection.
From Mos.proofs Require Import CollFacts.

(* Every permutation of a list of readers with distinct message IDs sorts to the same list
   (hence the same merge). *)
Theorem C10_perm_invariant :
  forall l l' : list reader,
  Permutation l l' -> NoDup (map rd_mid l) -> sort_readers l = sort_readers l'.
Proof. exact sort_readers_perm_invariant. Qed.
Print Assumptions C10_perm_invariant.

(* The sorted list is ascending in the numeric value of the message ID. *)
Theorem C10_numeric :
  forall l : list reader, StronglySorted (fun a b => (rd_mid a <= rd_mid b)%N) (sort_readers l).
Proof. exact sort_readers_sorted. Qed.
Print Assumptions C10_numeric.

(* message IDs are read as numbers: 9 < 10 < 100 *)
Theorem C10_numeric_example :
  map parse_nat [lit "9"%string; lit "10"%string; lit "100"%string] = [Some 9%N; Some 10%N; Some 100%N].
Proof. vm_compute. reflexivity. Qed.
Print Assumptions C10_numeric_example.
