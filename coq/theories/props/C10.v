(* C10 — Merge result is independent of the order in which inputs are supplied. *)
From Coq Require Import List Bool NArith Permutation Sorted String.
Import ListNotations.
From Mos Require Import Str Xml Outcome Elements Classify Messages Merge Collection.
From Mos.proofs Require Import CollFacts CollOrder.

(* Every permutation of a list of readers with distinct message IDs sorts to the same list
   (hence the same merge). *)
Theorem C10_perm_invariant :
  forall l l' : list reader,
  Permutation l l' -> NoDup (map rd_mid l) -> sort_readers l = sort_readers l'.
Proof. exact sort_readers_perm_invariant. Qed.
Print Assumptions C10_perm_invariant.

(* The sorted list is ascending in the numeric value of the message ID. *)
Theorem C10_numeric :
  forall l : list reader, StronglySorted (fun a b => (rd_mid a <= rd_mid b)%N) (sort_readers l).
Proof. exact sort_readers_sorted. Qed.
Print Assumptions C10_numeric.

(* message IDs are read as numbers: 9 < 10 < 100 *)
Theorem C10_numeric_example :
  map parse_nat [lit "9"%string; lit "10"%string; lit "100"%string] = [Some 9%N; Some 10%N; Some 100%N].
Proof. vm_compute. reflexivity. Qed.
Print Assumptions C10_numeric_example.

(* End to end (readers, sorting, validation, merge loop): for documents whose readers can all
   be built and carry distinct message IDs, every ordering of the supplied documents gives the
   same outcome of the whole pipeline - the same InvalidMosCollection, or the same merged
   running order with the same warnings and the same error - for either value of
   allow_incomplete and of strict, and whatever the oracles answer. *)
Theorem C10_collection_merge_perm_invariant :
  forall (o : oracles) (ds ds' : list xml) (rs : list reader) (inc strict : bool),
  Permutation ds ds' -> make_readers ds = inr rs -> NoDup (map rd_mid rs) ->
  collection_merge o ds' inc strict = collection_merge o ds inc strict.
Proof. exact collection_merge_perm. Qed.
Print Assumptions C10_collection_merge_perm_invariant.
(* Beyond the property's quantifier (distinct IDs): the sort is stable like Python's sorted(),
   so readers with equal message IDs keep the order in which they were supplied - with the
   two theorems above this determines the sorted list for every input. *)
Theorem C10_sort_stable :
  forall (k : N) (l : list reader),
  filter (has_mid k) (sort_readers l) = filter (has_mid k) l.
Proof. exact sort_readers_stable. Qed.
Print Assumptions C10_sort_stable.
