(* C11 — A collection is accepted exactly when it describes one running order. *)
From Coq Require Import List Bool Permutation.
Import ListNotations.
From Mos Require Import Str Xml Outcome Classify Messages Collection.
From Mos.proofs Require Import CollFacts CollOrder.

Theorem C11_accept_iff :
  forall (rs : list reader) (inc : bool),
  accepts rs inc = true <->
  rs <> [] /\
  (forall r0 r, hd_error rs = Some r0 -> In r rs -> rd_roid r = rd_roid r0) /\
  count_class RunningOrder rs = 1 /\ count_class RunningOrderEnd rs <= 1 /\
  (inc = false -> count_class RunningOrderEnd rs = 1).
Proof. exact accepts_iff. Qed.
Print Assumptions C11_accept_iff.

(* Every rejection is InvalidMosCollection; after acceptance the running order is the one
   roCreate and the remaining readers are exactly the others, in order. *)
Theorem C11_selected :
  forall (rs : list reader) (inc : bool),
  match validate rs inc with
  | inl e => e = InvalidMosCollection
  | inr (rc, others) =>
    filter (is_class RunningOrder) rs = [rc] /\
    others = filter (fun r => negb (is_class RunningOrder r)) rs
  end.
Proof. exact validate_outcome. Qed.
Print Assumptions C11_selected.

(* Acceptance is a property of the multiset of messages: no ordering of the same readers is
   treated differently (the first reader, against which the running-order IDs are compared,
   plays no special part). *)
Theorem C11_accept_multiset :
  forall (rs rs' : list reader) (inc : bool),
  Permutation rs rs' -> accepts rs inc = accepts rs' inc.
Proof. exact accepts_perm. Qed.
Print Assumptions C11_accept_multiset.
(* Acceptance loses and invents no message: the supplied readers are exactly the selected
   roCreate plus the remaining readers, and none of the remaining readers is a roCreate. *)
Theorem C11_partition :
  forall (rs : list reader) (inc : bool) (rc : reader) (others : list reader),
  validate rs inc = inr (rc, others) ->
  Permutation rs (rc :: others) /\ is_class RunningOrder rc = true /\
  (forall r, In r others -> is_class RunningOrder r = false).
Proof. exact validate_partition. Qed.
Print Assumptions C11_partition.
