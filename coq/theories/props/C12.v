(* C12 — Well-formed input fails only with the library's own exceptions. *)
From Coq Require Import List Bool.
Import ListNotations.
From Mos Require Import Str Xml Outcome Seq Spec Elements Classify Messages Merge Collection Proto.
From Mos.proofs Require Import XmlFacts Clean CollFacts ClassifyFacts Examples Timing NoDupExample.

(* Classifying any document either yields a class or raises UnknownMosFileType. *)
Theorem C12_classify :
  forall (d : xml) (e : exn), classify d = inl e -> e = UnknownMosFileType.
Proof. exact classify_total. Qed.
Print Assumptions C12_classify.

(* Adding any schema-shaped message (required tags present; IDs blank, unknown, repeated or
   self-referential) of any of the 25 classes to any well-formed running order either
   succeeds or raises MosMergeError / MosCompletedMergeError.  The model contains the
   built-in exception paths (AttributeError for a message without a required tag, IndexError,
   ValueError from _index_of, TypeError / ValueError from float()), so this is not true by
   omission.  timing_ok: evaluating ro.stories does not raise, i.e. the durations and
   roEdStart that are present are numeric / parseable (stories without timing are fine). *)
Theorem C12_merge :
  forall (o : oracles) (ro : xml) (k : mclass) (m : xml),
  wf_ro ro = true -> schema_ok k m = true -> timing_ok o ro ->
  lib_outcome (r_err (add o ro k m)).
Proof. exact add_clean. Qed.
Print Assumptions C12_merge.

(* wf_ro holds of every document with a roCreate element (find_child passes over children
   without an ID tag, repair F28): the running order is unrestricted. *)
Theorem C12_any_running_order :
  forall (o : oracles) (ro : xml) (k : mclass) (m : xml),
  rc_of ro <> None -> schema_ok k m = true -> timing_ok o ro ->
  lib_outcome (r_err (add o ro k m)).
Proof. intros o ro k m Hrc. apply add_clean. now apply wf_ro_iff. Qed.
Print Assumptions C12_any_running_order.

(* Consequently a non-strict collection merge of schema-shaped messages runs to the end. *)
Theorem C12_nonstrict_terminates :
  forall (o : oracles) (rs : list reader) (s : xml),
  wf_ro s = true -> forallb reader_ok rs = true -> timing_along o rs s ->
  r_err (merge_loop o false rs s) = None.
Proof.
  intros o rs s Hwf Hok Ht.
  exact (proj1 (nonstrict_loop o rs s (nonstrict_terminates o rs s Hwf Hok Ht))).
Qed.
Print Assumptions C12_nonstrict_terminates.

(* The timing guard is an invariant: ro_timing (a boolean: the roEdStart and the durations
   present parse, every story has its storyID tag) in the state before, and msg_timing (the same
   of the stories / roEdStart the message carries), give ro_timing afterwards - whatever the
   merge did.  ro_timing implies timing_ok. *)
Theorem C12_timing_preserved :
  forall (o : oracles) (ro : xml) (k : mclass) (m : xml),
  ro_timing o ro = true -> msg_timing o k m = true ->
  ro_timing o (r_st (add o ro k m)) = true /\ timing_ok o (r_st (add o ro k m)).
Proof.
  intros o ro k m H1 H2. pose proof (add_timing o ro k m H1 H2) as H.
  split; [exact H | now apply ro_timing_sound].
Qed.
Print Assumptions C12_timing_preserved.

(* So the non-strict collection merge runs to the end under conditions on its inputs only:
   the first running order and what each message carries - no hypothesis on intermediate
   states. *)
Theorem C12_nonstrict_terminates_on_inputs :
  forall (o : oracles) (rs : list reader) (s : xml),
  rc_of s <> None -> forallb reader_ok rs = true ->
  ro_timing o s = true -> forallb (reader_timing o) rs = true ->
  r_err (merge_loop o false rs s) = None.
Proof.
  intros o rs s Hrc Hok Ht Hrt.
  assert (Hwf : wf_ro s = true) by now apply wf_ro_iff.
  exact (proj1 (nonstrict_loop o rs s (nonstrict_terminates o rs s Hwf Hok (timing_along_from_start o rs s Ht Hrt)))).
Qed.
Print Assumptions C12_nonstrict_terminates_on_inputs.

Theorem C12_timing_example :
  ro_timing no_oracles ex_ro = true /\ forallb (reader_timing no_oracles) ex_readers = true /\ ex_readers <> [].
Proof. exact ex_timing. Qed.
Print Assumptions C12_timing_example.

(* outside the guards the built-in exceptions are reachable in the model *)
Theorem C12_guards_matter :
  exists (o : oracles) ro k m, wf_ro ro = true /\ r_err (add o ro k m) = Some PyAttributeError.
Proof. exact ex_attribute_error. Qed.
Print Assumptions C12_guards_matter.
