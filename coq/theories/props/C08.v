(* C08 — Classification is total, and decided only by the message element. *)
From Coq Require Import List Bool.
Import ListNotations.
From Mos Require Import Str Xml Outcome Classify Messages.
From Mos.proofs Require Import ClassifyFacts Examples.

(* classify is a function of the features of the document: which of the 16 message tags
   occur as direct children of the root and, for roElementAction, the operation attribute,
   whether element_target has an itemID and whether element_source exists / has an itemID *)
Theorem C08_factor : forall d : xml, classify d = classify_spec (features d).
Proof. exact classify_factor. Qed.
Print Assumptions C08_factor.

(* other content, the order of other siblings, whitespace text: not features *)
Theorem C08_noninterference :
  forall d1 d2 : xml, features d1 = features d2 -> classify d1 = classify d2.
Proof. exact classify_noninterference. Qed.
Print Assumptions C08_noninterference.

(* total: a class, or UnknownMosFileType - never a built-in exception *)
Theorem C08_total : forall (d : xml) (e : exn), classify d = inl e -> e = UnknownMosFileType.
Proof. exact classify_total. Qed.
Print Assumptions C08_total.

(* the 15 + 10 rows of the two tables, and the rejected shapes (finite: by computation) *)
Theorem C08_table : class_table_ok = true.
Proof. vm_compute. reflexivity. Qed.
Print Assumptions C08_table.
