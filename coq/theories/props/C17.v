(* C17 — Script and body list the story text and items faithfully and in order. *)
From Coq Require Import List Bool.
Import ListNotations.
From Mos Require Import Str Xml Outcome Elements.
From Mos.proofs Require Import ElementsFacts.

(* body: every paragraph (its text, the empty string when it has none) and every item, in
   document order; nothing else *)
Theorem C17_body :
  forall x : xml,
  story_body x
  = map (fun c => if has_tag t_item c then BItem c
                  else BText (match text_of c with Some s => s | None => [] end))
        (filter (fun c => has_tag t_item c || has_tag t_p c) (kids_of x)).
Proof. exact body_is_paragraphs_and_items. Qed.
Print Assumptions C17_body.

(* script: exactly the paragraphs whose stripped text is non-empty and is not wrapped in
   round or angle brackets, stripped, in document order *)
Theorem C17_script :
  forall x : xml,
  story_script x
  = map (fun p => strip (match text_of p with Some s => s | None => [] end))
        (filter spoken (findall t_p (kids_of x))).
Proof. exact script_is_spoken_paragraphs. Qed.
Print Assumptions C17_script.

(* stripping leaves no white space at either end *)
Theorem C17_strip :
  forall s : str,
  (match strip s with c :: _ => is_space c = false | [] => True end) /\
  (match rev (strip s) with c :: _ => is_space c = false | [] => True end).
Proof. intros s. split; [apply strip_no_leading_space | apply strip_no_trailing_space]. Qed.
Print Assumptions C17_strip.

(* the running order's script and body are the concatenation of its stories', in order *)
Theorem C17_ro_concat :
  forall rc : xml,
  ro_script rc = flat_map story_script (filter (has_tag t_story) (kids_of rc)) /\
  ro_body rc = flat_map story_body (filter (has_tag t_story) (kids_of rc)).
Proof. exact ro_script_is_concat. Qed.
Print Assumptions C17_ro_concat.
