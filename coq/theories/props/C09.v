(* C09 — Collection merge equals adding the messages one by one; strict / non-strict. *)
From Coq Require Import List Bool.
Import ListNotations.
From Mos Require Import Str Xml Outcome Seq Spec Elements Classify Messages Merge Collection Proto.
From Mos.proofs Require Import CollFacts CollOrder.

(* Strict mode: there is a split of the (sorted) message list into the prefix that merged
   without error and the rest; with an empty rest the result is the sequential application of
   every message; otherwise the first message of the rest failed, its error is the error of
   the merge, and the running order holds the result of all earlier messages (followed by
   the failing step's own post-state, which C05 shows is the state before it). *)
Theorem C09_strict :
  forall (o : oracles) (rs : list reader) (s : xml),
  let r := merge_loop o true rs s in
  exists p q, rs = p ++ q /\ ok_prefix o p s /\
    match q with
    | [] => r_err r = None /\ r_st r = fold_left (fun st rd => r_st (step o st rd)) rs s
    | rd :: _ =>
      let s1 := fold_left (fun st rd => r_st (step o st rd)) p s in
      r_err r = r_err (step o s1 rd) /\ r_err r <> None /\ r_st r = r_st (step o s1 rd)
    end.
Proof. exact strict_loop. Qed.
Print Assumptions C09_strict.

(* Non-strict mode: provided no built-in exception escapes (C12), the merge never stops, the
   running order is the sequential application of all messages, and the warnings are those of
   the steps plus exactly one MosMergeNonStrictWarning after each failing message. *)
Theorem C09_nonstrict :
  forall (o : oracles) (rs : list reader) (s : xml),
  all_lib o rs s = true ->
  let r := merge_loop o false rs s in
  r_err r = None /\
  r_st r = fold_left (fun st rd => r_st (step o st rd)) rs s /\
  r_ws r = loop_ws o rs s.
Proof. exact nonstrict_loop. Qed.
Print Assumptions C09_nonstrict.
(* End to end, from the supplied documents: when the readers can be built and the sorted
   collection is accepted, a non-strict merge in which no built-in exception escapes (C12) is
   the sequential addition, in ascending message-ID order, of every message other than the
   roCreate to the roCreate document, with the warnings of the steps. *)
Theorem C09_collection_is_sequential_addition :
  forall (o : oracles) (ds : list xml) (inc : bool) (rs : list reader) (rc : reader)
         (others : list reader),
  make_readers ds = inr rs -> validate (sort_readers rs) inc = inr (rc, others) ->
  all_lib o others (rd_doc rc) = true ->
  exists r, collection_merge o ds inc false = inr r /\
    r_err r = None /\
    r_st r = fold_left (fun st rd => r_st (step o st rd)) others (rd_doc rc) /\
    r_ws r = loop_ws o others (rd_doc rc).
Proof. exact collection_merge_is_fold. Qed.
Print Assumptions C09_collection_is_sequential_addition.
