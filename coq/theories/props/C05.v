(* C05 — A merge that raises leaves the running order exactly as it was. *)
From Coq Require Import List Bool.
Import ListNotations.
From Mos Require Import Str Xml Outcome Seq Spec Elements Classify Messages Merge Collection Proto.
From Mos.proofs Require Import XmlFacts Atomic CollFacts Examples.

(* For every well-formed running order (every story has a storyID, every item an itemID),
   every class and every message whose messageID is an integer - whatever its IDs: unknown,
   blank, repeated, the k-th of n unresolvable, identical swap operands - if ro + m raises,
   the document afterwards is the document before.  The model's outcome carries the state
   at the point of failure, so this is a statement about the order of checks and edits. *)
Theorem C05_failed_merge_is_identity :
  forall (o : oracles) (ro : xml) (k : mclass) (m : xml),
  wf_ro ro = true -> msg_ok m = true ->
  r_err (add o ro k m) <> None -> r_st (add o ro k m) = ro.
Proof. exact failed_merge_is_identity. Qed.
Print Assumptions C05_failed_merge_is_identity.

(* Since find_child passes over children without an ID tag (repair F28), "well formed" is no
   restriction: it holds of every document that has a roCreate element at all.  So the
   statement above is about all running orders, including ones whose stories or items lack
   their ID tags. *)
Theorem C05_any_running_order :
  forall (o : oracles) (ro : xml) (k : mclass) (m : xml),
  rc_of ro <> None -> msg_ok m = true ->
  r_err (add o ro k m) <> None -> r_st (add o ro k m) = ro.
Proof.
  intros o ro k m Hrc. apply failed_merge_is_identity. now apply wf_ro_iff.
Qed.
Print Assumptions C05_any_running_order.

(* ... and for every message: the integer-messageID premise is not needed any more.  The only
   places that evaluate self.message_id after an edit were the texts of warnings (a delete loop or an
   insert that has already applied earlier elements); since repair F29 a warning text never raises, and
   every MosMergeError is built before anything is changed.  So: any document with a roCreate, any
   class, any parsed message whatsoever - if ro + m raises, ro is what it was. *)
Theorem C05_any_running_order_any_message :
  forall (o : oracles) (ro : xml) (k : mclass) (m : xml),
  rc_of ro <> None ->
  r_err (add o ro k m) <> None -> r_st (add o ro k m) = ro.
Proof.
  intros o ro k m Hrc. apply failed_merge_is_identity_all. now apply wf_ro_iff.
Qed.
Print Assumptions C05_any_running_order_any_message.
(* it has instances among the messages the earlier premise excluded: a roItemMoveMultiple without
   messageID whose second source is unknown raises AttributeError (from the text of the MosMergeError) *)
Theorem C05_any_message_nonvacuous :
  exists (o : oracles) ro k m,
  rc_of ro <> None /\ msg_ok m = false /\ r_err (add o ro k m) = Some PyAttributeError.
Proof. exact ex_failing_move_noid. Qed.
Print Assumptions C05_any_message_nonvacuous.
(* In a non-strict collection merge over any sequence of schema-shaped messages, the final
   running order is the result of applying exactly the messages that did not fail: every
   failing message, wherever it is placed, contributes nothing. *)
Theorem C05_nonstrict_sequences :
  forall (o : oracles) (rs : list reader) (s : xml),
  wf_ro s = true -> forallb (reader_ok) rs = true ->
  fold_left (fun st rd => r_st (step o st rd)) rs s = run_ok o rs s.
Proof. exact nonstrict_skips_failures. Qed.
Print Assumptions C05_nonstrict_sequences.

(* the premises are met by a merge that does fail: roItemMoveMultiple whose second source is unknown *)
Theorem C05_nonvacuous :
  exists (o : oracles) ro k m,
  wf_ro ro = true /\ msg_ok m = true /\ r_err (add o ro k m) = Some MosMergeError.
Proof. exact ex_failing_move. Qed.
Print Assumptions C05_nonvacuous.
