(* C02 — Item order inside the addressed story follows the MOS protocol.
   Property theorems only; proofs live in proofs/. *)
From Coq Require Import List Bool Permutation.
Import ListNotations.
From Mos Require Import Str Xml Outcome Seq Spec Elements Classify Messages Merge Proto.
From Mos.proofs Require Import Lift Examples.

(* For every running order, every item-level class k and every schema-shaped message m of
   that class that addresses an existing story s (found at child index i of roCreate)
   whose item IDs are unique (IDs may repeat in other stories), and whose item references
   resolve (proto_item is None otherwise): the merge succeeds, the item IDs of the
   addressed story afterwards are the protocol's, and every other child of roCreate - in
   particular every other story, with its same-ID items - is exactly what it was
   (the result is the old document with the children of child i replaced). *)
Theorem C02_item_order :
  forall (o : oracles) (ro : xml) (k : mclass) (m b rc : xml) (i : nat) (s : xml)
         (ids' : list (option str)),
  rc_of ro = Some rc -> ro_completed ro = false ->
  is_item_class k = true -> schema_ok k m = true -> base_of k m = Some b ->
  find_story (addressed_story k b) (kids_of rc) = FFound i -> nth_error (kids_of rc) i = Some s ->
  no_bad ikey (kids_of s) = true -> NoDup (item_ids s) ->
  proto_item k b (item_ids s) = Some ids' ->
  let r := add o ro k m in
  r_err r = None /\
  exists ik', r_st r = put_kids ro (update_nth i (fun s' => set_kids s' ik') (kids_of rc)) /\
              keys ikey ik' = ids'.
Proof. exact item_order. Qed.
Print Assumptions C02_item_order.

(* Item moves and swaps never add or lose an item (or any other child of the story),
   whatever the IDs: success permutes the children, failure leaves them untouched. *)
Theorem C02_moves_swaps_conserve :
  forall (mex : option exn) (tgt : option str) (srcs ids : list (option str)) (ik : list xml),
  (let r := gen_move ikey str_eqb mex tgt srcs ik in
   match r_err r with None => Permutation (r_st r) ik | Some _ => r_st r = ik end) /\
  (let r := gen_swap ikey str_eqb mex ids ik in
   match r_err r with None => Permutation (r_st r) ik | Some _ => r_st r = ik end).
Proof. exact item_moves_conserve. Qed.
Print Assumptions C02_moves_swaps_conserve.

Theorem C02_nonvacuous :
  exists (o : oracles) ro k m b rc i s ids',
  rc_of ro = Some rc /\ ro_completed ro = false /\
  is_item_class k = true /\ schema_ok k m = true /\ base_of k m = Some b /\
  find_story (addressed_story k b) (kids_of rc) = FFound i /\ nth_error (kids_of rc) i = Some s /\
  no_bad ikey (kids_of s) = true /\ NoDup (item_ids s) /\
  proto_item k b (item_ids s) = Some ids' /\ ids' <> item_ids s.
Proof. exact ex_item_move. Qed.
Print Assumptions C02_nonvacuous.
