(* C02 — Item order inside the addressed story follows the MOS protocol.
   Property theorems only; proofs live in proofs/. *)
From Coq Require Import List Bool Permutation.
Import ListNotations.
From Mos Require Import Str Xml Outcome Seq Spec Elements Classify Messages Merge Proto.
From Mos.proofs Require Import Lift Examples ItemFacts ItemNoDup.

(* For every running order, every item-level class k and every schema-shaped message m of
   that class that addresses an existing story s (found at child index i of roCreate)
   whose item IDs are unique (IDs may repeat in other stories), and whose item references
   resolve (proto_item is None otherwise): the merge succeeds, the item IDs of the
   addressed story afterwards are the protocol's, and every other child of roCreate - in
   particular every other story, with its same-ID items - is exactly what it was
   (the result is the old document with the children of child i replaced). *)
Theorem C02_item_order :
  forall (o : oracles) (ro : xml) (k : mclass) (m b rc : xml) (i : nat) (s : xml)
         (ids' : list (option str)),
  rc_of ro = Some rc -> ro_completed ro = false ->
  is_item_class k = true -> schema_ok k m = true -> base_of k m = Some b ->
  find_story (addressed_story k b) (kids_of rc) = FFound i -> nth_error (kids_of rc) i = Some s ->
  no_bad ikey (kids_of s) = true -> NoDup (item_ids s) ->
  proto_item k b (item_ids s) = Some ids' ->
  let r := add o ro k m in
  r_err r = None /\
  exists ik', r_st r = put_kids ro (update_nth i (fun s' => set_kids s' ik') (kids_of rc)) /\
              keys ikey ik' = ids'.
Proof. exact item_order. Qed.
Print Assumptions C02_item_order.

(* Item moves and swaps never add or lose an item (or any other child of the story),
   whatever the IDs: success permutes the children, failure leaves them untouched. *)
Theorem C02_moves_swaps_conserve :
  forall (mex : option exn) (tgt : option str) (srcs ids : list (option str)) (ik : list xml),
  (let r := gen_move ikey str_eqb mex tgt srcs ik in
   match r_err r with None => Permutation (r_st r) ik | Some _ => r_st r = ik end) /\
  (let r := gen_swap ikey str_eqb mex ids ik in
   match r_err r with None => Permutation (r_st r) ik | Some _ => r_st r = ik end).
Proof. exact item_moves_conserve. Qed.
Print Assumptions C02_moves_swaps_conserve.

Theorem C02_nonvacuous :
  exists (o : oracles) ro k m b rc i s ids',
  rc_of ro = Some rc /\ ro_completed ro = false /\
  is_item_class k = true /\ schema_ok k m = true /\ base_of k m = Some b /\
  find_story (addressed_story k b) (kids_of rc) = FFound i /\ nth_error (kids_of rc) i = Some s /\
  no_bad ikey (kids_of s) = true /\ NoDup (item_ids s) /\
  proto_item k b (item_ids s) = Some ids' /\ ids' <> item_ids s.
Proof. exact ex_item_move. Qed.
Print Assumptions C02_nonvacuous.

(* The hypothesis "unique item IDs in the addressed story" of C02_item_order is an invariant.
   One item-level edit (f = the edit of the message's class, item_edit) applied to the children
   of a story keeps the item IDs pairwise distinct - whether it succeeds, warns or raises -
   provided the items the message carries are fresh there (item_fresh: inserts and replaces
   only; deletes, moves and swaps need nothing). *)
Theorem C02_unique_item_ids_preserved :
  forall (k : mclass) (m b : xml) (f : list xml -> res (list xml)) (ik : list xml),
  item_edit k m b = Some f -> msg_ok m = true ->
  NoDup (keys ikey ik) -> item_fresh k b (keys ikey ik) = true ->
  NoDup (keys ikey (r_st (f ik))).
Proof. exact item_edit_nodup. Qed.
Print Assumptions C02_unique_item_ids_preserved.

(* ... and for the whole running order, every class: if every story has pairwise distinct item
   IDs and what the message carries is fresh (items_fresh_in: carried stories have distinct
   item IDs; carried items are fresh in the story they go to), every story has pairwise
   distinct item IDs afterwards. *)
Theorem C02_unique_item_ids_everywhere :
  forall (o : oracles) (k : mclass) (m b rc : xml),
  msg_ok m = true -> forallb uniq_items (kids_of rc) = true -> items_fresh_in k b (kids_of rc) = true ->
  forallb uniq_items (r_st (merge_kids o k m b rc)) = true.
Proof. exact merge_kids_uniq_items. Qed.
Print Assumptions C02_unique_item_ids_everywhere.
