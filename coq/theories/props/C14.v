(* C14 — Every reachable running order serialises to XML that reads back identically.
   PARTIAL: the parser is a model of expat on the serialiser's image (namespace-free element
   trees; comments and processing instructions are outside the claim); the real parser on
   arbitrary documents is trusted and covered by the differential run. *)
From Coq Require Import List Bool NArith.
Import ListNotations.
From Mos Require Import Str Xml Outcome Elements Classify Messages Merge Proto Codec.
From Mos.proofs Require Import CodecFacts Inv.

(* the serialiser (ElementTree.tostring: escaping of text and attribute values, <t /> for
   empty elements, tails) followed by the parser is the identity on every well-formed tree:
   any depth, any number of children and attributes, any text with markup-significant
   characters (wf_xml: non-empty names free of delimiters, no empty-string text, no U+000D) *)
Theorem C14_codec_roundtrip : forall e : xml, wf_xml e = true -> parse (ser e) = Some e.
Proof. exact codec_roundtrip. Qed.
Print Assumptions C14_codec_roundtrip.

(* the fragment is closed under every merge, hence under every history of messages ... *)
Theorem C14_wf_reachable :
  forall (o : oracles) (ro : xml) (h : list (mclass * xml)),
  wf_xml ro = true -> forallb (fun km => wf_xml (snd km)) h = true ->
  wf_xml (fold_left (fun s km => r_st (add o s (fst km) (snd km))) h ro) = true.
Proof. exact history_wf_xml. Qed.
Print Assumptions C14_wf_reachable.

(* ... so every reachable state reads back identically (same stories, items, completed flag:
   it is the same tree) *)
Theorem C14_reachable_roundtrip :
  forall (o : oracles) (ro : xml) (h : list (mclass * xml)),
  wf_xml ro = true -> forallb (fun km => wf_xml (snd km)) h = true ->
  let s := fold_left (fun s km => r_st (add o s (fst km) (snd km))) h ro in
  parse (ser s) = Some s.
Proof. exact reachable_roundtrip. Qed.
Print Assumptions C14_reachable_roundtrip.

(* the envelope: a merge never changes which children the root has (so: exactly one
   running-order element, the original messageID and every other envelope element untouched),
   except that a roDelete merged into a not yet completed running order appends the one
   completion record - and once completed nothing is appended any more (C07_terminal) *)
Theorem C14_envelope :
  forall (o : oracles) (ro : xml) (k : mclass) (m : xml),
  let r := add o ro k m in
  (map tag_of (kids_of (r_st r)) = map tag_of (kids_of ro) /\
   filter not_rc (kids_of (r_st r)) = filter not_rc (kids_of ro))
  \/ (k = RunningOrderEnd /\ ro_completed ro = false /\
      exists b, kids_of (r_st r) = kids_of ro ++ [Elem t_mosromgrmeta [] None None [b]]).
Proof. exact envelope_step. Qed.
Print Assumptions C14_envelope.

(* U+000D in text does not survive (known finding F18: CPython's serialiser writes it raw) *)
Theorem C14_cr_refuted : exists e e', parse (ser e) = Some e' /\ e' <> e.
Proof. exact cr_refuted. Qed.
Print Assumptions C14_cr_refuted.
