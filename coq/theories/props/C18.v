(* C18 — File, string, bytes and S3 sources are interchangeable; readers are faithful;
   listing is complete.  PARTIAL: file I/O, byte decoding and boto3 are not modelled; the
   equivalence of sources is checked by differential runs only (DESIGN.md section 10). *)
From Coq Require Import List Bool NArith.
Import ListNotations.
From Mos Require Import Str Xml Outcome Classify Messages Collection S3.
From Mos.proofs Require Import GlueFacts.

(* the listing returns every key with the suffix, in order, across any number of pages *)
Theorem C18_listing :
  forall (pages : list page) (suffix : str),
  get_mos_files pages suffix = filter (str_endswith suffix) (flat_map page_keys pages).
Proof. exact listing_complete. Qed.
Print Assumptions C18_listing.

(* a page without Contents, at any position, hides none of the later keys *)
Theorem C18_empty_page_hides_nothing :
  forall (pre post : list page) (suffix : str),
  get_mos_files (pre ++ None :: post) suffix = get_mos_files (pre ++ post) suffix.
Proof. exact listing_ignores_empty_pages. Qed.
Print Assumptions C18_empty_page_hides_nothing.

(* a reader reports the message ID, running-order ID and class of the document it restores *)
Theorem C18_reader :
  forall (d : xml) (r : reader),
  make_reader d = inr r ->
  classify d = inr (rd_class r) /\ message_id d = Some (rd_mid r) /\
  ro_id_of (rd_class r) d = inr (rd_roid r) /\ rd_doc r = d.
Proof. exact reader_faithful. Qed.
Print Assumptions C18_reader.
