(* C20 — Message objects expose exactly the targets and sources the message names. *)
From Coq Require Import List Bool.
Import ListNotations.
From Mos Require Import Str Xml Outcome Elements Classify Messages Merge Proto Inspect.
From Mos.proofs Require Import InspectFacts.

(* inspect() prints without raising for every schema-shaped message of every class *)
Theorem C20_inspect_no_raise :
  forall (k : mclass) (b : xml), inspect_ok k b = true -> exists ls, inspect k b = inr ls.
Proof. exact inspect_no_raise. Qed.
Print Assumptions C20_inspect_no_raise.

(* ... including the evaluation of self.stories that RunningOrder.inspect() performs: with the
   timing data of the roCreate's own stories parseable (ro_stories_err = None) it does not raise
   either; inspect_o is what the command-line model uses *)
Theorem C20_inspect_no_raise_with_stories :
  forall (o : oracles) (k : mclass) (b : xml),
  inspect_ok k b = true -> (k = RunningOrder -> ro_stories_err o b = None) ->
  exists ls, inspect_o o k b = inr ls.
Proof. exact inspect_o_no_raise. Qed.
Print Assumptions C20_inspect_no_raise_with_stories.

(* ... and mentions every source the message names (each printed line for a source ends with
   that source's ID; a blank ID is printed as None) *)
Theorem C20_inspect_mentions_sources :
  forall (k : mclass) (b : xml) (ls : list str) (id : option str),
  inspect k b = inr ls -> In id (inspect_sources k b) ->
  exists l, In l ls /\ ends_with_str (show id) l.
Proof. exact inspect_mentions. Qed.
Print Assumptions C20_inspect_mentions_sources.

(* the exposed target of roStoryMove is the text of the second storyID tag; absent exactly
   when there is no second tag or it is blank - never some other ID *)
Theorem C20_story_move_target :
  forall b : xml,
  match story_move_target b with
  | Some t => exists s rest, id_tags t_storyID b = s :: Some t :: rest
  | None => match id_tags t_storyID b with _ :: Some _ :: _ => False | _ => True end
  end.
Proof. exact story_move_target_spec. Qed.
Print Assumptions C20_story_move_target.

(* exposed source lists: one entry per ID tag, in message order (direct ID tags; for
   roElementAction every ID tag of every element_source) *)
Theorem C20_sources_are_id_tags :
  forall (idtag : str) (b : xml),
  id_tags idtag b = map text_of (filter (has_tag idtag) (kids_of b)) /\
  ea_source_ids idtag b
  = flat_map (fun s => map text_of (filter (has_tag idtag) (kids_of s)))
             (filter (has_tag t_element_source) (kids_of b)).
Proof. exact sources_are_id_tags. Qed.
Print Assumptions C20_sources_are_id_tags.

(* carried stories / items are exposed with their content: the message's own elements *)
Theorem C20_carried_exposed :
  forall (tag : str) (b x : xml), In x (carried tag b) <-> In x (kids_of b) /\ has_tag tag x = true.
Proof. exact carried_exposed. Qed.
Print Assumptions C20_carried_exposed.
