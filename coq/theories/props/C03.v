(* C03 — A merge changes only what the message names (no collateral edits). *)
From Coq Require Import List Bool.
Import ListNotations.
From Mos Require Import Str Xml Outcome Seq Spec Elements Classify Messages Merge Proto.
From Mos.proofs Require Import Frame ItemFacts StoryStable.

(* Story-level merges: every child of roCreate that is not a story whose ID the message
   names or carries - metadata, other stories with everything inside them - keeps identical
   content and its place relative to the others (untouched = the children with the touched
   stories filtered out; equal lists = equal content in equal order).  For the 8 classes that
   are not moves or swaps there is no hypothesis on the IDs: unknown, blank and repeated
   references included.  For moves and swaps it is stated where the order theorem applies. *)
Theorem C03_frame_story_ops :
  forall (o : oracles) (k : mclass) (m b rc : xml),
  is_story_class k = true -> schema_ok k m = true -> base_of k m = Some b ->
  no_bad skey (kids_of rc) = true ->
  (forall ks,
     (k = StoryMove \/ k = EAStoryMove \/ k = EAStorySwap) ->
     NoDup (story_ids_rc rc) /\ proto_story k b (story_ids_rc rc) = Some ks) ->
  untouched skey (story_touch_ids k b) (r_st (merge_kids o k m b rc))
  = untouched skey (story_touch_ids k b) (kids_of rc).
Proof. exact story_frame. Qed.
Print Assumptions C03_frame_story_ops.

(* Item-level merges, whatever the message: the result is the old child list of roCreate,
   or that list with the children of the one addressed story replaced - never a same-ID item
   of another story, never another child of roCreate. *)
Theorem C03_frame_item_ops :
  forall (o : oracles) (k : mclass) (m b rc : xml),
  is_item_class k = true ->
  let kids := kids_of rc in
  let r := merge_kids o k m b rc in
  r_st r = kids \/
  exists i s ik', find_story (addressed_story k b) kids = FFound i /\ nth_error kids i = Some s /\
                 r_st r = update_nth i (fun s' => set_kids s' ik') kids.
Proof. exact item_ops_touch_one_story. Qed.
Print Assumptions C03_frame_item_ops.

(* roMetadataReplace: the children of roCreate that no carried element matches (same tag;
   for mosExternalMetadata same tag and mosSchema) are unchanged, in the same order. *)
Theorem C03_frame_metadata :
  forall (srcs kids : list xml),
  filter (fun c => negb (md_matched srcs c)) (md_loop srcs kids)
  = filter (fun c => negb (md_matched srcs c)) kids.
Proof. exact metadata_frame. Qed.
Print Assumptions C03_frame_metadata.

(* ... and inside the addressed story: every child that is not an item the message names or
   carries - paragraphs, metadata, the other items - keeps identical content and relative
   order (moves and swaps: where the order theorem applies) *)
Theorem C03_frame_inside_story :
  forall (o : oracles) (k : mclass) (m b rc : xml) (i : nat) (s : xml),
  is_item_class k = true -> schema_ok k m = true -> base_of k m = Some b ->
  find_story (addressed_story k b) (kids_of rc) = FFound i -> nth_error (kids_of rc) i = Some s ->
  no_bad ikey (kids_of s) = true ->
  (forall ks,
     (k = ItemMoveMultiple \/ k = EAItemMove \/ k = EAItemSwap) ->
     NoDup (item_ids s) /\ proto_item k b (item_ids s) = Some ks) ->
  exists ik', r_st (merge_kids o k m b rc) = update_nth i (fun s' => set_kids s' ik') (kids_of rc) /\
    untouched ikey (item_touch_ids k b) ik' = untouched ikey (item_touch_ids k b) (kids_of s).
Proof. exact item_frame. Qed.
Print Assumptions C03_frame_inside_story.

(* Without any hypothesis on the message, the IDs or the outcome (success, warning, any
   exception, at whatever point): an item-level merge leaves the child list of roCreate as it
   was, or replaces the child list of one <story> by a list with the same non-item children
   (storyID, storySlug, paragraphs, mosExternalMetadata ...) in the same order. *)
Theorem C03_item_ops_keep_non_items :
  forall (o : oracles) (k : mclass) (m b rc : xml),
  is_item_class k = true ->
  r_st (merge_kids o k m b rc) = kids_of rc \/
  exists i s ik', nth_error (kids_of rc) i = Some s /\ has_tag t_story s = true /\
    others ikey ik' = others ikey (kids_of s) /\
    r_st (merge_kids o k m b rc) = update_nth i (fun s' => set_kids s' ik') (kids_of rc).
Proof. exact item_merge_shape. Qed.
Print Assumptions C03_item_ops_keep_non_items.

(* Likewise the children of roCreate that are not stories (roID, roSlug, roEdStart, metadata,
   triggers) are untouched, in the same order, by all 11 story-level and all 9 item-level
   classes - moves and swaps with unresolvable, repeated or self-referential IDs included. *)
Theorem C03_story_and_item_ops_keep_non_stories :
  forall (o : oracles) (k : mclass) (m b rc : xml),
  is_story_class k = true \/ is_item_class k = true ->
  others skey (r_st (merge_kids o k m b rc)) = others skey (kids_of rc).
Proof.
  intros o k m b rc [H|H]; [now apply story_merge_others | now apply item_merge_others].
Qed.
Print Assumptions C03_story_and_item_ops_keep_non_stories.
