(* C01 — Story order after any story-level merge follows the MOS protocol.
   Property theorems only; proofs live in proofs/. *)
From Coq Require Import List Bool Permutation.
Import ListNotations.
From Mos Require Import Str Xml Outcome Seq Spec Elements Classify Messages Merge Proto.
From Mos.proofs Require Import Lift Examples.

(* For every running order with unique story IDs (any number of stories, any other
   children of roCreate anywhere), every story-level class k and every schema-shaped
   message m of that class whose references resolve (proto_story says what the protocol
   demands and is None exactly when a reference does not resolve or the message is
   ambiguous): the merge succeeds and the story IDs afterwards are the protocol's. *)
Theorem C01_story_order :
  forall (o : oracles) (ro : xml) (k : mclass) (m b rc : xml) (ids' : list (option str)),
  rc_of ro = Some rc -> ro_completed ro = false ->
  is_story_class k = true -> schema_ok k m = true -> base_of k m = Some b ->
  no_bad skey (kids_of rc) = true -> NoDup (story_ids ro) -> ro_stories_err o rc = None ->
  proto_story k b (story_ids ro) = Some ids' ->
  let r := add o ro k m in
  r_err r = None /\ story_ids (r_st r) = ids'.
Proof. exact story_order. Qed.
Print Assumptions C01_story_order.

(* Moves and swaps never add or lose a story (or any other child of roCreate), whatever
   the message: a merge that succeeds permutes the children, one that raises leaves them
   exactly as they were. No hypothesis on the message or on the running order. *)
Theorem C01_moves_swaps_conserve :
  forall (o : oracles) (k : mclass) (m b rc : xml),
  (k = StoryMove \/ k = EAStoryMove \/ k = EAStorySwap) ->
  let r := merge_kids o k m b rc in
  match r_err r with
  | None => Permutation (r_st r) (kids_of rc)
  | Some _ => r_st r = kids_of rc
  end.
Proof. exact story_moves_conserve. Qed.
Print Assumptions C01_moves_swaps_conserve.

(* The hypotheses are satisfiable: a concrete running order and a forward move. *)
Theorem C01_nonvacuous :
  exists o ro k m b rc ids',
  rc_of ro = Some rc /\ ro_completed ro = false /\
  is_story_class k = true /\ schema_ok k m = true /\ base_of k m = Some b /\
  no_bad skey (kids_of rc) = true /\ NoDup (story_ids ro) /\ ro_stories_err o rc = None /\
  proto_story k b (story_ids ro) = Some ids' /\ ids' <> story_ids ro.
Proof. exact ex_story_move. Qed.
Print Assumptions C01_nonvacuous.
