(* C01 — Story order after any story-level merge follows the MOS protocol.
   Property theorems only; proofs live in proofs/. *)
From Coq Require Import List Bool Permutation.
Import ListNotations.
From Mos Require Import Str Xml Outcome Seq Spec Elements Classify Messages Merge Proto.
From Mos.proofs Require Import XmlFacts Lift Examples StoryStable NoDupFacts NoDupExample.

(* For every running order with unique story IDs (any number of stories, any other
   children of roCreate anywhere), every story-level class k and every schema-shaped
   message m of that class whose references resolve (proto_story says what the protocol
   demands and is None exactly when a reference does not resolve or the message is
   ambiguous): the merge succeeds and the story IDs afterwards are the protocol's. *)
Theorem C01_story_order :
  forall (o : oracles) (ro : xml) (k : mclass) (m b rc : xml) (ids' : list (option str)),
  rc_of ro = Some rc -> ro_completed ro = false ->
  is_story_class k = true -> schema_ok k m = true -> base_of k m = Some b ->
  no_bad skey (kids_of rc) = true -> NoDup (story_ids ro) -> ro_stories_err o rc = None ->
  proto_story k b (story_ids ro) = Some ids' ->
  let r := add o ro k m in
  r_err r = None /\ story_ids (r_st r) = ids'.
Proof. exact story_order. Qed.
Print Assumptions C01_story_order.

(* Moves and swaps never add or lose a story (or any other child of roCreate), whatever
   the message: a merge that succeeds permutes the children, one that raises leaves them
   exactly as they were. No hypothesis on the message or on the running order. *)
Theorem C01_moves_swaps_conserve :
  forall (o : oracles) (k : mclass) (m b rc : xml),
  (k = StoryMove \/ k = EAStoryMove \/ k = EAStorySwap) ->
  let r := merge_kids o k m b rc in
  match r_err r with
  | None => Permutation (r_st r) (kids_of rc)
  | Some _ => r_st r = kids_of rc
  end.
Proof. exact story_moves_conserve. Qed.
Print Assumptions C01_moves_swaps_conserve.

(* The hypotheses are satisfiable: a concrete running order and a forward move. *)
Theorem C01_nonvacuous :
  exists o ro k m b rc ids',
  rc_of ro = Some rc /\ ro_completed ro = false /\
  is_story_class k = true /\ schema_ok k m = true /\ base_of k m = Some b /\
  no_bad skey (kids_of rc) = true /\ NoDup (story_ids ro) /\ ro_stories_err o rc = None /\
  proto_story k b (story_ids ro) = Some ids' /\ ids' <> story_ids ro.
Proof. exact ex_story_move. Qed.
Print Assumptions C01_nonvacuous.

(* The hypothesis "unique story IDs" of C01_story_order is an invariant: it survives every
   merge - successful, warned or raised - of a message with an integer messageID whose carried
   stories do not clash with the IDs present (fresh_in: the appended / replacing stories are
   new and distinct; inserts need nothing, duplicates are skipped by the code; roReplace must
   itself carry distinct IDs; roMetadataReplace must not carry <story> elements). *)
Theorem C01_unique_ids_preserved :
  forall (o : oracles) (ro : xml) (k : mclass) (m : xml),
  rc_of ro <> None -> msg_ok m = true -> NoDup (story_ids ro) -> fresh_in ro k m ->
  rc_of (r_st (add o ro k m)) <> None /\ NoDup (story_ids (r_st (add o ro k m))).
Proof. exact add_nodup. Qed.
Print Assumptions C01_unique_ids_preserved.

(* ... hence in every state reached by a history of such messages: C01_story_order applies
   after any prior history, not only to the first merge. *)
Theorem C01_unique_ids_along_histories :
  forall (o : oracles) (h : list (mclass * xml)) (ro : xml),
  rc_of ro <> None -> NoDup (story_ids ro) -> fresh_along o ro h ->
  NoDup (story_ids (fold_left (fun s km => r_st (add o s (fst km) (snd km))) h ro)).
Proof. exact history_nodup. Qed.
Print Assumptions C01_unique_ids_along_histories.

(* Item-level merges never change the sequence of story IDs, whatever the message and its
   outcome. *)
Theorem C01_item_ops_keep_story_ids :
  forall (o : oracles) (k : mclass) (m b rc : xml),
  is_item_class k = true ->
  keys skey (r_st (merge_kids o k m b rc)) = keys skey (kids_of rc).
Proof. exact item_merge_story_keys. Qed.
Print Assumptions C01_item_ops_keep_story_ids.

(* non-vacuity of the invariant: append a new story, move it to the top, replace it by two *)
Theorem C01_unique_ids_example :
  rc_of ex_ro <> None /\ NoDup (story_ids ex_ro) /\ fresh_along no_oracles ex_ro ex_history /\
  story_ids (fold_left (fun s km => r_st (add no_oracles s (fst km) (snd km))) ex_history ex_ro)
  = ex_history_ids.
Proof. exact ex_fresh_history. Qed.
Print Assumptions C01_unique_ids_example.

(* The hypotheses `no_bad skey / ikey ... = true`, `wf_rc`, `wf_ro` that appear in the theorems of
   C01-C06, C12 and C15 (they used to exclude children without their ID tag, on which the
   unrepaired find_child raised AttributeError) are no restriction since repair F28: they hold
   of every list / element, and wf_ro of every document that has a roCreate. *)
Theorem C01_well_formedness_is_no_restriction :
  (forall tag idtag l, no_bad (ckey tag idtag) l = true) /\
  (forall rc, wf_rc rc = true) /\
  (forall ro, wf_ro ro = true <-> rc_of ro <> None).
Proof. split; [exact no_bad_ckey | split; [exact wf_rc_true | exact wf_ro_iff]]. Qed.
Print Assumptions C01_well_formedness_is_no_restriction.
