(* C19 — The command line reports and writes exactly what the library computes.
   PARTIAL: argparse, the file system and the process exit status are glue covered by the
   differential run; the theorems are about the command functions. *)
From Coq Require Import List Bool String.
Import ListNotations.
From Mos Require Import Str Xml Outcome Classify Messages Collection Cli.
From Mos.proofs Require Import GlueFacts.
Local Open Scope string_scope.
Local Open Scope list_scope.

(* detect: exactly one line per file, in order: the class the library assigns (with
   "(completed)") on stdout, or the file marked invalid on stderr *)
Theorem C19_detect_line :
  forall (o : oracles) (name : str) (f : file_res),
  detect_one o false (name, f) =
  match load f with
  | inl _ => [Err (name ++ lit ": Invalid")]
  | inr (k, d) => [Out (name ++ lit ": " ++ class_name k ++ (if completed k d then lit " (completed)" else []))]
  end.
Proof. exact detect_one_line. Qed.
Print Assumptions C19_detect_line.

(* one bad or unreadable file never prevents the others from being processed: the output for
   a list is the concatenation of the outputs for its parts (detect and inspect), status 0 *)
Theorem C19_detect_compositional :
  forall (o : oracles) (b : bool) (fs1 fs2 : list (str * file_res)),
  fs1 <> [] -> fs2 <> [] ->
  fst (detect_cmd o b (fs1 ++ fs2)) = fst (detect_cmd o b fs1) ++ fst (detect_cmd o b fs2).
Proof. exact detect_compositional. Qed.
Print Assumptions C19_detect_compositional.

Theorem C19_detect_status :
  forall (o : oracles) (b : bool) (fs : list (str * file_res)), fs <> [] -> snd (detect_cmd o b fs) = 0.
Proof. exact detect_status. Qed.
Print Assumptions C19_detect_status.

(* merge: status 0 with the library's merged running order (allow_incomplete = --incomplete,
   strict = not --non-strict), or status 2 and no output *)
Theorem C19_merge_output :
  forall (o : oracles) (files : list file_res) (inc nonstrict : bool),
  match merge_cmd o files inc nonstrict with
  | (0, Some out) =>
    exists ds r, load_docs files = inr ds /\ collection_merge o ds inc (negb nonstrict) = inr r /\
                 r_err r = None /\ out = r_st r
  | (2, None) => True
  | _ => False
  end.
Proof. exact merge_cmd_spec. Qed.
Print Assumptions C19_merge_output.
