(* Extract.v — extraction of the executable definitions to OCaml.
   ExtrOcamlBasic only (bool, option, unit, list, prod, sumbool, sum mappings);
   N, Z, positive and nat stay the extracted inductive types; no Extract Constant. *)
From Coq Require Import Extraction ExtrOcamlBasic.
From Mos Require Import Str Xml Seq Spec Outcome Elements Classify Messages Merge Collection Proto Inspect S3 Cli Codec.
Extraction Language OCaml.
Separate Extraction
  Str Xml Seq Spec Outcome Elements Classify Messages Merge Collection Proto Inspect S3 Cli Codec.
