(* Elements.v — moselements.py: Story / Item accessors, durations, offsets,
   start / end times, script and body; RunningOrder aggregates.  Definitions only. *)
From Coq Require Import List NArith ZArith Bool.
Import ListNotations.
From Mos Require Import Str Xml Outcome.

(* value of an accessor: Python None, a value, or an escaping exception *)
Inductive acc (A : Type) := ANone | AVal (a : A) | AErr (e : exn).
Arguments ANone {A}.
Arguments AVal {A}.
Arguments AErr {A}.

(* MosElement.id when no explicit id was given: text of the first <idtag> child,
   None if the tag is absent or empty *)
Definition elem_id (idtag : str) (x : xml) : option str :=
  match find idtag (kids_of x) with Some e => text_of e | None => None end.
Definition story_id (x : xml) : option str := elem_id t_storyID x.
Definition item_id (x : xml) : option str := elem_id t_itemID x.
Definition story_slug (x : xml) : option str := elem_id t_storySlug x.
Definition item_slug (x : xml) : option str := elem_id t_itemSlug x.
Definition item_type (x : xml) : option str := elem_id t_objType x.
Definition item_object_id (x : xml) : option str := elem_id t_objID x.
Definition item_mos_id (x : xml) : option str := elem_id t_mosID x.

(* first descendant (document order, self excluded) matching a predicate *)
Fixpoint find_desc (f : xml -> bool) (x : xml) : option xml :=
  (fix go (l : list xml) : option xml :=
     match l with
     | [] => None
     | c :: r => if f c then Some c
                 else match find_desc f c with Some d => Some d | None => go r end
     end) (kids_of x).

Definition is_note_command (x : xml) : bool :=
  has_tag t_studioCommand x &&
  match attr_get t_type (attrs_of x) with Some v => str_eqb v t_note | None => false end.

(* mosExternalMetadata -> mosPayload of an element (first of each) *)
Definition payload_of (x : xml) : option xml :=
  match find t_mosExternalMetadata (kids_of x) with
  | None => None
  | Some md => find t_mosPayload (kids_of md)
  end.

(* Item.note *)
Definition item_note (x : xml) : option str :=
  match payload_of x with
  | None => None
  | Some pl =>
    match find_desc is_note_command pl with
    | None => None
    | Some c => match find t_text (kids_of c) with Some t => text_of t | None => None end
    end
  end.

(* Story.items *)
Definition story_items (x : xml) : list xml := findall t_item (kids_of x).

Section Timing.
Variable o : oracles.

(* float(e.text) *)
Definition float_of (e : xml) : acc Z :=
  match text_of e with
  | None => AErr PyTypeError
  | Some s => match parse_num o s with Some z => AVal z | None => AErr PyValueError end
  end.
Definition float_or_zero (e : option xml) : acc Z :=
  match e with Some x => float_of x | None => AVal 0%Z end.

(* _get_story_duration *)
Definition story_duration (story : xml) : acc Z :=
  match payload_of story with
  | None => ANone
  | Some pl =>
    match find t_StoryDuration (kids_of pl) with
    | Some d => float_of d
    | None =>
      let tt := find t_TextTime (kids_of pl) in
      let mt := find t_MediaTime (kids_of pl) in
      match tt, mt with
      | None, None => ANone
      | _, _ =>
        match float_or_zero tt with
        | AErr e => AErr e
        | ANone => ANone
        | AVal a =>
          match float_or_zero mt with
          | AErr e => AErr e
          | ANone => ANone
          | AVal b => AVal (a + b)%Z
          end
        end
      end
    end
  end.

(* _get_story_offsets: dict {story id: offset}, as an association list in insertion
   order (a later entry for the same id overwrites); a None offset once a duration is missing *)
Fixpoint offsets_from (t : option Z) (stories : list xml)
  : acc (list (option str * option Z)) :=
  match stories with
  | [] => AVal []
  | s :: r =>
    match find t_storyID (kids_of s) with
    | None => AErr PyAttributeError
    | Some ide =>
      match story_duration s with
      | AErr e => AErr e
      | d =>
        let t' := match t, d with Some a, AVal b => Some (a + b)%Z | _, _ => None end in
        match offsets_from t' r with
        | AVal rest => AVal ((text_of ide, t) :: rest)
        | other => other
        end
      end
    end
  end.
Definition story_offsets (stories : list xml) : acc (list (option str * option Z)) :=
  match stories with
  | [] => ANone
  | _ => offsets_from (Some 0%Z) stories
  end.
(* dict.get(id): the last entry wins *)
Fixpoint offsets_get (id : option str) (d : list (option str * option Z)) : option (option Z) :=
  match d with
  | [] => None
  | (k, v) :: r =>
    match offsets_get id r with
    | Some x => Some x
    | None => if ostr_eqb k id then Some v else None
    end
  end.

(* parse(e.text) for explicit StoryStarted / StoryEnded *)
Definition time_of (e : xml) : acc Z :=
  match text_of e with
  | None => AErr PyTypeError
  | Some s => match parse_time o s with Some z => AVal z | None => AErr PyValueError end
  end.

(* RunningOrder.start_time, on the roCreate element *)
Definition ro_start_time (rc : xml) : acc Z :=
  match find t_roEdStart (kids_of rc) with
  | None => ANone
  | Some e =>
    match text_of e with
    | None => ANone
    | Some s => match parse_time o s with Some z => AVal z | None => AErr PyValueError end
    end
  end.

(* durations and offsets are whole microseconds, like instants: the float oracle supplies float(text) in microseconds *)

(* a Story object as RunningOrder.stories builds it: the element, the offset table, the
   programme start *)
Record story_obj := { so_xml : xml; so_offsets : option (list (option str * option Z)); so_start : option Z }.

Definition so_offset (s : story_obj) : option Z :=
  match so_offsets s with
  | None => None
  | Some d => match offsets_get (story_id (so_xml s)) d with Some (Some v) => Some v | _ => None end
  end.

Definition so_start_time (s : story_obj) : acc Z :=
  match (match payload_of (so_xml s) with
         | Some pl => find t_StoryStarted (kids_of pl)
         | None => None end) with
  | Some e => time_of e
  | None =>
    match so_start s, so_offset s with
    | Some p, Some off => AVal (p + off)%Z
    | _, _ => ANone
    end
  end.

Definition so_end_time (s : story_obj) : acc Z :=
  match (match payload_of (so_xml s) with
         | Some pl => find t_StoryEnded (kids_of pl)
         | None => None end) with
  | Some e => time_of e
  | None =>
    match so_start_time s with
    | AErr e => AErr e
    | ANone => ANone
    | AVal st =>
      match story_duration (so_xml s) with
      | AErr e => AErr e
      | ANone => ANone
      | AVal d => AVal (st + d)%Z
      end
    end
  end.

(* RunningOrder.stories: evaluates start_time and the offset table for every story *)
Definition ro_stories (rc : xml) : acc (list story_obj) :=
  let tags := findall t_story (kids_of rc) in
  match tags with
  | [] => AVal []
  | _ =>
    match ro_start_time rc with
    | AErr e => AErr e
    | st =>
      let start := match st with AVal z => Some z | _ => None end in
      match story_offsets tags with
      | AErr e => AErr e
      | offs =>
        let d := match offs with AVal d => Some d | _ => None end in
        AVal (map (fun x => {| so_xml := x; so_offsets := d; so_start := start |}) tags)
      end
    end
  end.

(* the exception, if any, that evaluating ro.stories raises *)
Definition ro_stories_err (rc : xml) : option exn :=
  match ro_stories rc with AErr e => Some e | _ => None end.

(* RunningOrder.end_time *)
Definition ro_end_time (rc : xml) : acc Z :=
  match ro_stories rc with
  | AErr e => AErr e
  | ANone => ANone
  | AVal l => match rev l with [] => ANone | s :: _ => so_end_time s end
  end.

(* sum(story.duration for story in stories), None on TypeError *)
Fixpoint sum_durations (acc0 : Z) (l : list xml) : acc Z :=
  match l with
  | [] => AVal acc0
  | s :: r =>
    match story_duration s with
    | AErr PyTypeError => ANone
    | AErr e => AErr e
    | ANone => ANone
    | AVal d => sum_durations (acc0 + d)%Z r
    end
  end.
Definition ro_duration (rc : xml) : acc Z :=
  match ro_stories rc with
  | AErr PyTypeError => ANone
  | AErr e => AErr e
  | ANone => ANone
  | AVal l => sum_durations 0%Z (map so_xml l)
  end.

(* RunningOrder.script / .body evaluate the story listing first *)
Definition guard_stories {A} (rc : xml) (v : A) : acc A :=
  match ro_stories rc with AErr e => AErr e | _ => AVal v end.

End Timing.

(* ---- script and body *)
Definition is_technical_note (text : str) : bool :=
  let t := strip text in
  (starts_with 40 t && ends_with 41 t) || (starts_with 60 t && ends_with 62 t).

(* Story.script *)
Definition para_script (p : xml) : list str :=
  match text_of p with
  | None => []
  | Some [] => []
  | Some s =>
    match strip s with
    | [] => []
    | t => if is_technical_note s then [] else [t]
    end
  end.
Definition story_script (x : xml) : list str := flat_map para_script (findall t_p (kids_of x)).

(* Story.body: a paragraph's text ('' when empty) or an item *)
Inductive body_el := BText (s : str) | BItem (x : xml).
Definition story_body (x : xml) : list body_el :=
  flat_map (fun c =>
    if has_tag t_item c then [BItem c]
    else if has_tag t_p c then [BText (match text_of c with Some s => s | None => [] end)]
    else []) (kids_of x).

Definition ro_script (rc : xml) : list str := flat_map story_script (findall t_story (kids_of rc)).
Definition ro_body (rc : xml) : list body_el := flat_map story_body (findall t_story (kids_of rc)).

Definition ro_script_acc (o : oracles) (rc : xml) : acc (list str) := guard_stories o rc (ro_script rc).
Definition ro_body_acc (o : oracles) (rc : xml) : acc (list body_el) := guard_stories o rc (ro_body rc).
