(* Inspect.v — what message objects expose (targets, sources, carried elements) and what
   inspect() prints.  Definitions only. *)
From Coq Require Import List Bool String.
Import ListNotations.
From Mos Require Import Str Xml Outcome Elements Classify Messages.
Local Open Scope string_scope.
Local Open Scope list_scope.

(* an exposed ID-valued attribute: the IDs it reports, in order.  A property that returns no
   object at all (StoryMove.target_story with a blank target) is reported as [None] *)
Definition one (v : option str) : list (option str) := [v].

(* (attribute name, reported IDs) per class, in a fixed order *)
Definition exposed (k : mclass) (b : xml) : list (str * list (option str)) :=
  let ids tag l := map (elem_id tag) l in
  match k with
  | RunningOrder => [(lit "stories", ids t_storyID (findall t_story (kids_of b)))]
  | StorySend =>
    [(lit "story", one (match convert_story_send b with Some s => story_id s | None => None end))]
  | StoryAppend => [(lit "stories", ids t_storyID (carried t_story b))]
  | StoryDelete => [(lit "stories", id_tags t_storyID b)]
  | ItemDelete => [(lit "story", one (first_story_id b)); (lit "items", id_tags t_itemID b)]
  | StoryInsert =>
    [(lit "target_story", one (first_story_id b)); (lit "source_stories", ids t_storyID (carried t_story b))]
  | ItemInsert =>
    [(lit "story", one (first_story_id b)); (lit "item", one (first_item_id b));
     (lit "items", ids t_itemID (carried t_item b))]
  | StoryMove =>
    [(lit "source_story", one (match story_move_source b with Some s => s | None => None end));
     (lit "target_story", one (story_move_target b))]
  | ItemMoveMultiple =>
    [(lit "story", one (first_story_id b));
     (lit "item", one (match imm_target b with Some t => t | None => None end));
     (lit "items", imm_sources b)]
  | StoryReplace =>
    [(lit "story", one (first_story_id b)); (lit "stories", ids t_storyID (carried t_story b))]
  | ItemReplace =>
    [(lit "story", one (first_story_id b)); (lit "item", one (first_item_id b));
     (lit "items", ids t_itemID (carried t_item b))]
  | RunningOrderReplace => [(lit "stories", ids t_storyID (findall t_story (kids_of b)))]
  | EAStoryReplace =>
    [(lit "story", one (ea_target_id t_storyID b)); (lit "stories", ids t_storyID (ea_carried t_story b))]
  | EAItemReplace =>
    [(lit "story", one (ea_target_id t_storyID b)); (lit "item", one (ea_target_id t_itemID b));
     (lit "items", ids t_itemID (ea_carried t_item b))]
  | EAStoryDelete => [(lit "stories", ea_source_ids t_storyID b)]
  | EAItemDelete => [(lit "story", one (ea_target_id t_storyID b)); (lit "items", ea_source_ids t_itemID b)]
  | EAStoryInsert =>
    [(lit "story", one (ea_target_id t_storyID b)); (lit "stories", ids t_storyID (ea_carried t_story b))]
  | EAItemInsert =>
    [(lit "story", one (ea_target_id t_storyID b)); (lit "item", one (ea_target_id t_itemID b));
     (lit "items", ids t_itemID (ea_carried t_item b))]
  | EAStorySwap => [(lit "stories", ea_first_source_ids t_storyID b)]
  | EAItemSwap => [(lit "story", one (ea_target_id t_storyID b)); (lit "items", ea_first_source_ids t_itemID b)]
  | EAStoryMove => [(lit "story", one (ea_target_id t_storyID b)); (lit "stories", ea_source_ids t_storyID b)]
  | EAItemMove =>
    [(lit "story", one (ea_target_id t_storyID b)); (lit "item", one (ea_target_id t_itemID b));
     (lit "items", ea_first_source_ids t_itemID b)]
  | _ => []
  end.

(* RunningOrder.stories (of a roCreate / roReplace message object) evaluates the programme start and the
   offset table: the exception that raises, if any - then neither the IDs nor the XML are exposed *)
Definition exposed_err (o : oracles) (k : mclass) (b : xml) : option exn :=
  match k with
  | RunningOrder | RunningOrderReplace => ro_stories_err o b
  | ItemMoveMultiple => match imm_target b with None => Some PyIndexError | Some _ => None end   (* no itemID at all *)
  | StorySend => match convert_story_send b with None => Some PyAttributeError | Some _ => None end (* no storyBody *)
  | _ => None
  end.

(* ... and the same for the XML of the carried elements (only the classes whose carried elements come from the
   accessor that raises) *)
Definition exposed_xml_err (o : oracles) (k : mclass) (b : xml) : option exn :=
  match k with
  | RunningOrder | RunningOrderReplace | StorySend => exposed_err o k b
  | _ => None
  end.

(* the elements a message carries, exposed as objects with their XML *)
Definition exposed_xml (k : mclass) (b : xml) : list xml :=
  match k with
  | StorySend => match convert_story_send b with Some s => [s] | None => [] end
  | StoryAppend | StoryInsert | StoryReplace => carried t_story b
  | ItemInsert | ItemReplace => carried t_item b
  | EAStoryReplace | EAStoryInsert => ea_carried t_story b
  | EAItemReplace | EAItemInsert => ea_carried t_item b
  | RunningOrder | RunningOrderReplace => findall t_story (kids_of b)
  | _ => []
  end.

(* ---- inspect(): the printed lines *)
Definition show (v : option str) : str := match v with Some s => s | None => lit "None" end.
Definition line (label : string) (v : option str) : str := lit label ++ show v.
Definition lines (label : string) (vs : list (option str)) : list str := map (line label) vs.

Definition inspect (k : mclass) (b : xml) : exn + list str :=
  let ids tag l := map (elem_id tag) l in
  match k with
  | RunningOrder | RunningOrderReplace =>
    match k with
    | RunningOrder =>
      match find t_roSlug (kids_of b) with
      | None => inl PyAttributeError
      | Some e => inr (line "RO: " (text_of e) :: lines "STORY: " (ids t_storyID (findall t_story (kids_of b))))
      end
    | _ =>
      inr (lit "REPLACE RO:" ::
           flat_map (fun t => match text_of t with
                              | Some s => match strip s with
                                          | [] => []
                                          | st => [lit " " ++ tag_of t ++ lit ": " ++ st]
                                          end
                              | None => []
                              end) (kids_of b))
    end
  | StorySend =>
    match convert_story_send b with
    | Some s => inr [line "SEND STORY: " (story_id s)]
    | None => inl PyAttributeError
    end
  | MetaDataReplace =>
    inr (lit "NEW METATDATA:" ::
         map (fun t => lit "  " ++ tag_of t ++ lit ": " ++ match text_of t with Some s => s | None => [] end)
             (kids_of b))
  | StoryAppend => inr (lines "ADD STORY: " (ids t_storyID (carried t_story b)))
  | StoryDelete => inr (lines "DELETE STORY: " (id_tags t_storyID b))
  | ItemDelete => inr (line "IN STORY: " (first_story_id b) :: lines "  DELETE ITEM: " (id_tags t_itemID b))
  | StoryInsert =>
    inr (line "AFTER STORY: " (first_story_id b) :: lines "  INSERT STORY: " (ids t_storyID (carried t_story b)))
  | ItemInsert =>
    inr (line "IN STORY: " (first_story_id b) :: lines "INSERT ITEM: " (ids t_itemID (carried t_item b)))
  | StoryMove =>
    match story_move_source b with
    | Some s => inr [line "MOVE STORY: " s]
    | None => inl PyAttributeError
    end
  | ItemMoveMultiple =>
    inr (line "IN STORY: " (first_story_id b) :: lines "  MOVE ITEM: " (imm_sources b))
  | StoryReplace =>
    inr ((lit "REPLACE STORY: " ++ show (first_story_id b) ++ lit " WITH:")
         :: lines "  STORY: " (ids t_storyID (carried t_story b)))
  | ItemReplace =>
    inr (line "IN STORY: " (first_story_id b)
         :: (lit "REPLACE ITEM: " ++ show (first_item_id b) ++ lit " WITH:")
         :: lines "  ITEM: " (ids t_itemID (carried t_item b)))
  | ReadyToAir => inr [lit "READY TO AIR"]
  | RunningOrderEnd =>
    match find t_roID (kids_of b) with
    | Some e => inr [line "RO DELETE: " (text_of e)]
    | None => inl PyAttributeError
    end
  | EAStoryReplace =>
    inr ((lit "REPLACE STORY: " ++ show (ea_target_id t_storyID b) ++ lit " WITH:")
         :: lines "  STORY: " (ids t_storyID (ea_carried t_story b)))
  | EAItemReplace =>
    inr (line "IN STORY: " (ea_target_id t_storyID b)
         :: (lit "REPLACE ITEM: " ++ show (ea_target_id t_itemID b) ++ lit " WITH:")
         :: lines "  ITEM: " (ids t_itemID (ea_carried t_item b)))
  | EAStoryDelete => inr (lines "DELETE STORY: " (ea_source_ids t_storyID b))
  | EAItemDelete =>
    inr (line "IN STORY: " (ea_target_id t_storyID b) :: lines "  DELETE ITEM: " (ea_source_ids t_itemID b))
  | EAStoryInsert =>
    inr (line "AFTER STORY: " (ea_target_id t_storyID b)
         :: lines "  INSERT STORY: " (ids t_storyID (ea_carried t_story b)))
  | EAItemInsert =>
    inr (line "IN STORY: " (ea_target_id t_storyID b)
         :: line "  BEFORE ITEM: " (ea_target_id t_storyID b)
         :: lines "    INSERT ITEM: " (ids t_itemID (ea_carried t_item b)))
  | EAStorySwap =>
    match ea_first_source_ids t_storyID b with
    | [a; c] => inr [line "SWAP STORY: " a; line "WITH STORY: " c]
    | _ => inl PyValueError
    end
  | EAItemSwap =>
    match ea_first_source_ids t_itemID b with
    | [a; c] => inr [line "IN STORY: " (ea_target_id t_storyID b); line "  SWAP ITEM: " a; line "  WITH ITEM: " c]
    | _ => inl PyValueError
    end
  | EAStoryMove => inr (lines "MOVE STORY: " (ea_source_ids t_storyID b))
  | EAItemMove =>
    inr (line "IN STORY: " (ea_target_id t_storyID b) :: lines "  MOVE ITEM: " (ea_first_source_ids t_itemID b))
  end.

(* RunningOrder.inspect() walks self.stories, which evaluates the programme start and the offset table first:
   an unparseable roEdStart, a non-numeric duration or a story without storyID make it raise before a line is
   printed *)
Definition inspect_o (o : oracles) (k : mclass) (b : xml) : exn + list str :=
  match k with
  | RunningOrder =>
    match find t_roSlug (kids_of b) with
    | None => inspect k b
    | Some _ => match ro_stories_err o b with Some e => inl e | None => inspect k b end
    end
  | _ => inspect k b
  end.

(* what inspect() has already printed when it raises (only EAItemSwap prints before the
   failing tuple unpacking) *)
Definition inspect_partial (k : mclass) (b : xml) : list str :=
  match k with
  | EAItemSwap => [line "IN STORY: " (ea_target_id t_storyID b)]
  | RunningOrder =>
    (* "RO: <slug>" is printed before self.stories is evaluated *)
    match find t_roSlug (kids_of b) with Some e => [line "RO: " (text_of e)] | None => [] end
  | _ => []
  end.

(* the source lists whose every ID inspect() must mention *)
Definition inspect_sources (k : mclass) (b : xml) : list (option str) :=
  let ids tag l := map (elem_id tag) l in
  match k with
  | StoryAppend | StoryInsert | StoryReplace => ids t_storyID (carried t_story b)
  | StoryDelete => id_tags t_storyID b
  | ItemDelete => id_tags t_itemID b
  | ItemInsert | ItemReplace => ids t_itemID (carried t_item b)
  | StoryMove => match story_move_source b with Some s => [s] | None => [] end
  | ItemMoveMultiple => imm_sources b
  | EAStoryReplace | EAStoryInsert => ids t_storyID (ea_carried t_story b)
  | EAItemReplace | EAItemInsert => ids t_itemID (ea_carried t_item b)
  | EAStoryDelete | EAStoryMove => ea_source_ids t_storyID b
  | EAItemDelete => ea_source_ids t_itemID b
  | EAStorySwap => ea_first_source_ids t_storyID b
  | EAItemSwap | EAItemMove => ea_first_source_ids t_itemID b
  | _ => []
  end.
