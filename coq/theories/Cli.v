(* Cli.v — cli.py: the detect / inspect loop and the merge command as functions from what
   each file turns out to be to (stdout lines, stderr lines, status).  Definitions only. *)
From Coq Require Import List Bool String.
Import ListNotations.
From Mos Require Import Str Xml Outcome Elements Classify Messages Merge Collection Inspect.
Local Open Scope string_scope.
Local Open Scope list_scope.

(* what MosFile.from_file finds at a path *)
Inductive file_res :=
| FDoc (d : xml)        (* well-formed XML *)
| FBadXml               (* not well-formed: MosInvalidXML *)
| FUnreadable.          (* missing path, directory, permission: OSError *)

Inductive line := Out (s : str) | Err (s : str).

Definition load (f : file_res) : exn + (mclass * xml) :=
  match f with
  | FDoc d => match classify d with inl e => inl e | inr k => inr (k, d) end
  | FBadXml => inl MosInvalidXML
  | FUnreadable => inl PyOSError
  end.

(* one file of `mosromgr detect` / `mosromgr inspect` *)
Definition detect_one (o : oracles) (do_inspect : bool) (nf : str * file_res) : list line :=
  let (name, f) := nf in
  match load f with
  | inl _ => [Err (name ++ lit ": Invalid")]
  | inr (k, d) =>
    Out (name ++ lit ": " ++ class_name k ++ (if completed k d then lit " (completed)" else []))
    :: (if do_inspect then
          match base_of k d with
          | None => [Err (name ++ lit ": Unable to inspect"); Out []]
          | Some b =>
            match inspect_o o k b with
            | inr ls => map Out ls ++ [Out []]
            | inl _ => map Out (inspect_partial k b) ++ [Err (name ++ lit ": Unable to inspect"); Out []]
            end
          end
        else [])
  end.

Definition detect_cmd (o : oracles) (do_inspect : bool) (files : list (str * file_res)) : list line * nat :=
  match files with
  | [] => ([Err (lit "Files or bucket name and prefix or key must be provided")], 2)
  | _ => (flat_map (detect_one o do_inspect) files, 0)
  end.

(* `mosromgr merge`: status, and the serialised running order when there is one.
   The output is the document; serialisation is the codec of Codec.v *)
Section Merge.
Variable o : oracles.

Fixpoint load_docs (fs : list file_res) : exn + list xml :=
  match fs with
  | [] => inr []
  | f :: r =>
    match f with
    | FDoc d => match load_docs r with inl e => inl e | inr ds => inr (d :: ds) end
    | FBadXml => inl MosInvalidXML
    | FUnreadable => inl PyOSError
    end
  end.

Definition merge_cmd (files : list file_res) (incomplete nonstrict : bool) : nat * option xml :=
  match files with
  | [] => (2, None)
  | _ =>
    match load_docs files with
    | inl _ => (2, None)
    | inr ds =>
      match collection_merge o ds incomplete (negb nonstrict) with
      | inl _ => (2, None)
      | inr r => match r_err r with Some _ => (2, None) | None => (0, Some (r_st r)) end
      end
    end
  end.
End Merge.
