(* Lift.v — from the children of roCreate to the running-order document and `+` *)
From Coq Require Import List Bool Arith NArith Lia Permutation.
Import ListNotations.
From Mos Require Import Str Xml Outcome Seq Spec Elements Classify Messages Merge Proto.
From Mos.proofs Require Import ListFacts SeqFacts MoveFacts XmlFacts StoryOrder.

Definition edits_rc (k : mclass) : bool :=
  match k with RunningOrder | RunningOrderReplace | RunningOrderEnd => false | _ => true end.

(* how a document-level merge is built from the edit of roCreate's children *)
Definition put_kids (ro : xml) (k' : list xml) : xml :=
  set_kids ro (update_first t_roCreate (fun e => set_kids e k') (kids_of ro)).

Lemma merge_lift o k ro m b rc :
  edits_rc k = true -> base_of k m = Some b -> rc_of ro = Some rc ->
  merge o k ro m = map_res (put_kids ro) (merge_kids o k m b rc).
Proof.
  intros Hk Hb Hrc. unfold merge, rc_of in *. rewrite Hb.
  destruct k; try discriminate Hk; rewrite Hrc; reflexivity.
Qed.

Lemma add_lift o k ro m b rc :
  ro_completed ro = false -> edits_rc k = true -> base_of k m = Some b -> rc_of ro = Some rc ->
  add o ro k m = map_res (put_kids ro) (merge_kids o k m b rc).
Proof. intros Hc Hk Hb Hrc. unfold add. rewrite Hc. now apply merge_lift. Qed.

Lemma rc_of_put_kids ro rc k' : rc_of ro = Some rc -> rc_of (put_kids ro k') = Some (set_kids rc k').
Proof.
  unfold rc_of, put_kids. intros H. rewrite kids_set_kids. now apply find_update_first.
Qed.

Lemma put_kids_id ro rc : rc_of ro = Some rc -> put_kids ro (kids_of rc) = ro.
Proof.
  unfold rc_of, put_kids. intros H. rewrite (update_first_id _ _ _ H). apply set_kids_id.
Qed.

Lemma story_class_edits k : is_story_class k = true -> edits_rc k = true.
Proof. now destruct k. Qed.
Lemma item_class_edits k : is_item_class k = true -> edits_rc k = true.
Proof. now destruct k. Qed.

Lemma schema_msg_ok k m : schema_ok k m = true -> msg_ok m = true.
Proof. unfold schema_ok. intros H. now apply andb_prop in H as [H _]. Qed.

(* ---- C01 at the level of `ro + msg` *)
Theorem story_order o ro k m b rc ids' :
  rc_of ro = Some rc -> ro_completed ro = false ->
  is_story_class k = true -> schema_ok k m = true -> base_of k m = Some b ->
  no_bad skey (kids_of rc) = true -> NoDup (story_ids ro) -> ro_stories_err o rc = None ->
  proto_story k b (story_ids ro) = Some ids' ->
  let r := add o ro k m in
  r_err r = None /\ story_ids (r_st r) = ids'.
Proof.
  intros Hrc Hc Hk Hs Hb Hnb Hnd Hst Hp.
  unfold story_ids in Hnd, Hp. rewrite Hrc in Hnd, Hp.
  pose proof (story_kids_order o k m b rc ids' (schema_msg_ok k m Hs) Hs Hb Hnb Hnd Hst Hp) as [He Hk'].
  cbv zeta. rewrite (add_lift o k ro m b rc Hc (story_class_edits k Hk) Hb Hrc).
  split; [exact He|]. cbn [map_res r_st].
  unfold story_ids. rewrite (rc_of_put_kids ro rc _ Hrc). unfold story_ids_rc.
  now rewrite kids_set_kids.
Qed.

(* moves and swaps never add or lose a child of roCreate, whatever the message *)
Theorem story_moves_conserve o k m b rc :
  (k = StoryMove \/ k = EAStoryMove \/ k = EAStorySwap) ->
  let r := merge_kids o k m b rc in
  match r_err r with
  | None => Permutation (r_st r) (kids_of rc)
  | Some _ => r_st r = kids_of rc
  end.
Proof.
  intros [H|[H|H]]; subst k; unfold merge_kids.
  - destruct (story_move_source b) as [src|]; [|reflexivity].
    apply (gen_move_total skey str_eqb str_eqb_eq).
  - apply (gen_move_total skey str_eqb str_eqb_eq).
  - apply (gen_swap_total skey str_eqb str_eqb_eq).
Qed.

(* ---- C02 at the level of `ro + msg` *)
Theorem item_order o ro k m b rc i s ids' :
  rc_of ro = Some rc -> ro_completed ro = false ->
  is_item_class k = true -> schema_ok k m = true -> base_of k m = Some b ->
  find_story (addressed_story k b) (kids_of rc) = FFound i -> nth_error (kids_of rc) i = Some s ->
  no_bad ikey (kids_of s) = true -> NoDup (item_ids s) ->
  proto_item k b (item_ids s) = Some ids' ->
  let r := add o ro k m in
  r_err r = None /\
  exists ik', r_st r = put_kids ro (update_nth i (fun s' => set_kids s' ik') (kids_of rc)) /\
              keys ikey ik' = ids'.
Proof.
  intros Hrc Hc Hk Hs Hb Hf Hn Hnb Hnd Hp.
  pose proof (item_kids_order o k m b rc i s ids' (schema_msg_ok k m Hs) Hs Hb Hk Hf Hn Hnb Hnd Hp)
    as (He & ik' & Hst & Hk').
  cbv zeta. rewrite (add_lift o k ro m b rc Hc (item_class_edits k Hk) Hb Hrc).
  split; [exact He|]. exists ik'. cbn [map_res r_st]. now rewrite Hst.
Qed.

(* item moves and swaps never add or lose a child of the story *)
Theorem item_moves_conserve mex tgt srcs ids ik :
  (let r := gen_move ikey str_eqb mex tgt srcs ik in
   match r_err r with None => Permutation (r_st r) ik | Some _ => r_st r = ik end) /\
  (let r := gen_swap ikey str_eqb mex ids ik in
   match r_err r with None => Permutation (r_st r) ik | Some _ => r_st r = ik end).
Proof.
  split; [apply (gen_move_total ikey str_eqb str_eqb_eq) | apply (gen_swap_total ikey str_eqb str_eqb_eq)].
Qed.
