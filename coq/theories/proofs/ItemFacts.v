(* ItemFacts.v — the item-level halves of C03 (frame inside the addressed story) and C06
   (nothing named is skipped silently). *)
From Coq Require Import List Bool Arith NArith Lia Permutation.
Import ListNotations.
From Mos Require Import Str Xml Outcome Seq Spec Elements Classify Messages Merge Proto.
From Mos.proofs Require Import ListFacts SeqFacts MoveFacts XmlFacts StoryOrder Lift Atomic WfFacts Clean Warn Frame.

Section Items.
Variable o : oracles.

(* an item-level merge is: the edit f on the children of the addressed story, or the
   "story not found" outcome *)
Definition item_edit (k : mclass) (m b : xml) : option (list xml -> res (list xml)) :=
  let mex := msg_id_exn m in
  match k with
  | ItemDelete => Some (delete_loop ikey str_eqb mex ItemNotFound (id_tags t_itemID b))
  | ItemInsert => Some (gen_insert ikey str_eqb mex (first_item_id b) (carried t_item b))
  | ItemMoveMultiple =>
    Some (fun ik => match imm_target b with
                    | None => fail ik PyIndexError
                    | Some tgt => gen_move ikey str_eqb mex tgt (imm_sources b) ik
                    end)
  | ItemReplace => Some (gen_replace ikey str_eqb mex (first_item_id b) (carried t_item b))
  | EAItemReplace => Some (gen_replace ikey str_eqb mex (ea_target_id t_itemID b) (ea_carried t_item b))
  | EAItemDelete => Some (delete_loop ikey str_eqb mex ItemNotFound (ea_source_ids t_itemID b))
  | EAItemInsert => Some (gen_insert ikey str_eqb mex (ea_target_id t_itemID b) (ea_carried t_item b))
  | EAItemSwap => Some (gen_swap ikey str_eqb mex (ea_first_source_ids t_itemID b))
  | EAItemMove => Some (gen_move ikey str_eqb mex (ea_target_id t_itemID b) (ea_first_source_ids t_itemID b))
  | _ => None
  end.

Lemma item_merge_found k m b rc i s f :
  item_edit k m b = Some f ->
  find_story (addressed_story k b) (kids_of rc) = FFound i -> nth_error (kids_of rc) i = Some s ->
  merge_kids o k m b rc
  = map_res (fun ik => update_nth i (fun s' => set_kids s' ik) (kids_of rc)) (f (kids_of s)).
Proof.
  intros Hf Hs Hn. unfold merge_kids.
  destruct k; try discriminate Hf; cbn [item_edit] in Hf; injection Hf as <-;
    cbn [addressed_story] in Hs; try (now rewrite (with_story_found _ _ _ _ i s Hs Hn)).
  destruct (first_story_id b) as [sid|] eqn:E; [|discriminate Hs].
  now rewrite (with_story_found _ _ _ _ i s Hs Hn).
Qed.

Lemma item_merge_missing k m b rc f :
  item_edit k m b = Some f -> msg_ok m = true -> no_bad skey (kids_of rc) = true ->
  (forall i, find_story (addressed_story k b) (kids_of rc) <> FFound i) ->
  r_err (merge_kids o k m b rc) <> None \/ r_ws (merge_kids o k m b rc) <> [].
Proof.
  intros Hf Hm Hb Hnf.
  assert (Hmex : msg_id_exn m = None) by (unfold msg_ok in Hm; destruct (msg_id_exn m); [discriminate|reflexivity]).
  assert (Hws : forall missing g,
            (r_err missing <> None \/ r_ws missing <> []) ->
            r_err (with_story (addressed_story k b) (kids_of rc) missing g) <> None \/
            r_ws (with_story (addressed_story k b) (kids_of rc) missing g) <> []).
  { intros missing g Hmiss. unfold with_story.
    destruct (find_story (addressed_story k b) (kids_of rc)) as [i| |] eqn:E.
    - exfalso. now apply (Hnf i).
    - assumption.
    - left. discriminate. }
  unfold merge_kids. rewrite Hmex.
  destruct k; try discriminate Hf; cbn [addressed_story] in *;
    try (apply Hws; left; discriminate); try (apply Hws; right; discriminate).
  destruct (first_story_id b); [apply Hws; left; discriminate | left; discriminate].
Qed.

(* C06, item level: a merge that neither raises nor warns found the addressed story and every
   item the message names in it *)
Theorem item_silent_means_resolved k m b rc :
  is_item_class k = true -> msg_ok m = true -> wf_rc rc = true ->
  let r := merge_kids o k m b rc in
  r_err r = None -> r_ws r = [] ->
  exists i s, find_story (addressed_story k b) (kids_of rc) = FFound i /\ nth_error (kids_of rc) i = Some s /\
    forall id, In id (named_item_ids k b) -> present (item_ids s) id = true.
Proof.
  intros Hk Hm Hwf r He Hw. subst r.
  assert (Hmex : msg_id_exn m = None) by (unfold msg_ok in Hm; destruct (msg_id_exn m); [discriminate|reflexivity]).
  assert (Hb : no_bad skey (kids_of rc) = true) by (unfold wf_rc in Hwf; now apply andb_prop in Hwf as [H _]).
  assert (Hf : exists f, item_edit k m b = Some f) by (destruct k; try discriminate Hk; eexists; reflexivity).
  destruct Hf as (f & Hf).
  destruct (find_story (addressed_story k b) (kids_of rc)) as [i| |] eqn:Es.
  - assert (Hlt : i < length (kids_of rc)).
    { unfold find_story in Es. destruct (addressed_story k b); [|discriminate].
      eapply (lookup_found_lt skey str_eqb str_eqb_eq); eauto. }
    destruct (nth_error (kids_of rc) i) as [s|] eqn:En; [|apply nth_error_None in En; lia].
    exists i, s. split; [reflexivity|]. split; [exact En|].
    rewrite (item_merge_found k m b rc i s f Hf Es En) in He, Hw. cbn [map_res r_err r_ws] in He, Hw.
    assert (Hbi : no_bad ikey (kids_of s) = true) by (eapply wf_rc_story; eauto).
    unfold item_ids. destruct k; try discriminate Hk; cbn [item_edit] in Hf; injection Hf as <-;
      rewrite Hmex in *; cbn [named_item_ids].
    + exact (delete_silent t_item t_itemID ItemNotFound _ _ Hbi Hw).
    + exact (insert_silent t_item t_itemID _ _ _ He).
    + destruct (imm_target b) as [[t|]|] eqn:Et; try discriminate He.
      * intros id Hin. apply (move_silent t_item t_itemID (Some t) (imm_sources b) _ He).
        apply in_app_or in Hin as [Hin|Hin]; apply in_or_app; [now left | right; exact Hin].
      * intros id Hin. apply (move_silent t_item t_itemID None (imm_sources b) _ He).
        cbn [opt_list]. rewrite app_nil_r in *. exact Hin.
    + intros id [<-|[]]. exact (replace_silent t_item t_itemID _ _ _ He).
    + intros id [<-|[]]. exact (replace_silent t_item t_itemID _ _ _ He).
    + exact (delete_silent t_item t_itemID ItemNotFound _ _ Hbi Hw).
    + exact (insert_silent t_item t_itemID _ _ _ He).
    + exact (swap_silent t_item t_itemID _ _ He).
    + exact (move_silent t_item t_itemID _ _ _ He).
  - exfalso. destruct (item_merge_missing k m b rc f Hf Hm Hb) as [H|H]; try contradiction.
    intros i. rewrite Es. discriminate.
  - exfalso. unfold find_story in Es. eapply (lookup_no_attr skey str_eqb); eauto.
Qed.

(* C03, item level: inside the addressed story every child that is not an item the message
   names or carries keeps identical content and relative order *)
Theorem item_frame k m b rc i s :
  is_item_class k = true -> schema_ok k m = true -> base_of k m = Some b ->
  find_story (addressed_story k b) (kids_of rc) = FFound i -> nth_error (kids_of rc) i = Some s ->
  no_bad ikey (kids_of s) = true ->
  (forall ks,
     (k = ItemMoveMultiple \/ k = EAItemMove \/ k = EAItemSwap) ->
     NoDup (item_ids s) /\ proto_item k b (item_ids s) = Some ks) ->
  exists ik', r_st (merge_kids o k m b rc) = update_nth i (fun s' => set_kids s' ik') (kids_of rc) /\
    untouched ikey (item_touch_ids k b) ik' = untouched ikey (item_touch_ids k b) (kids_of s).
Proof.
  intros Hk Hs Hbase Hf Hn Hb Hmv.
  unfold schema_ok in Hs. apply andb_prop in Hs as [Hm Hs]. rewrite Hbase in Hs.
  assert (Hmex : msg_id_exn m = None) by (unfold msg_ok in Hm; destruct (msg_id_exn m); [discriminate|reflexivity]).
  assert (He : exists f, item_edit k m b = Some f) by (destruct k; try discriminate Hk; eexists; reflexivity).
  destruct He as (f & He).
  rewrite (item_merge_found k m b rc i s f He Hf Hn). cbn [map_res r_st].
  exists (r_st (f (kids_of s))). split; [reflexivity|].
  unfold item_touch_ids, item_ids in *. set (ik := kids_of s) in *.
  destruct k; try discriminate Hk; cbn [item_edit] in He; injection He as <-; rewrite Hmex;
    cbn [named_item_ids item_payload].
  - apply (frame_delete t_item t_itemID); [assumption | rewrite app_nil_r; apply incl_refl].
  - apply (frame_insert t_item t_itemID); [assumption|].
    apply (touched_carried t_item t_itemID); [assumption | apply incl_app_r].
  - destruct (Hmv [] (or_introl eq_refl)) as [Hnd _].
    destruct (proto_item ItemMoveMultiple b (keys ikey ik)) as [ks|] eqn:Ep;
      [|destruct (Hmv [] (or_introl eq_refl)) as [_ Hc]; discriminate].
    cbn [proto_item] in Ep. destruct (imm_target b) as [tgt|]; [|discriminate].
    apply (frame_move t_item t_itemID _ _ _ ik ks Hb Hnd Ep). rewrite app_nil_r.
    intros x Hx. apply in_or_app. now left.
  - apply (frame_replace t_item t_itemID); [assumption | now left|].
    apply (touched_carried t_item t_itemID); [assumption | apply (incl_app_r [_])].
  - apply (frame_replace t_item t_itemID); [assumption | now left|].
    apply (touched_carried t_item t_itemID); [assumption | apply (incl_app_r [_])].
  - apply (frame_delete t_item t_itemID); [assumption | rewrite app_nil_r; apply incl_refl].
  - apply (frame_insert t_item t_itemID); [assumption|].
    apply (touched_carried t_item t_itemID); [assumption | apply incl_app_r].
  - destruct (Hmv [] (or_intror (or_intror eq_refl))) as [Hnd _].
    destruct (proto_item EAItemSwap b (keys ikey ik)) as [ks|] eqn:Ep;
      [|destruct (Hmv [] (or_intror (or_intror eq_refl))) as [_ Hc]; discriminate].
    cbn [proto_item] in Ep.
    apply (frame_swap t_item t_itemID _ _ ik ks Hb Hnd Ep). rewrite app_nil_r. apply incl_refl.
  - destruct (Hmv [] (or_intror (or_introl eq_refl))) as [Hnd _].
    destruct (proto_item EAItemMove b (keys ikey ik)) as [ks|] eqn:Ep;
      [|destruct (Hmv [] (or_intror (or_introl eq_refl))) as [_ Hc]; discriminate].
    cbn [proto_item] in Ep.
    apply (frame_move t_item t_itemID _ _ _ ik ks Hb Hnd Ep). rewrite app_nil_r. apply incl_app_l.
Qed.

End Items.
