(* MoveFacts.v — moves and swaps: node identity, permutation, protocol on IDs. *)
From Coq Require Import List Bool Arith Lia Permutation.
Import ListNotations.
From Mos Require Import Str Xml Outcome Seq Spec.
From Mos.proofs Require Import ListFacts SeqFacts.

Section Tagl.
Context {A : Type}.
Implicit Types l : list A.

Definition tagl_from (n : nat) (l : list A) : list (nat * A) := combine (seq n (length l)) l.

Lemma tagl_eq l : tagl l = tagl_from 0 l.
Proof. reflexivity. Qed.
Lemma tagl_from_cons n x l : tagl_from n (x :: l) = (n, x) :: tagl_from (S n) l.
Proof. reflexivity. Qed.
Lemma tagl_from_app n a b : tagl_from n (a ++ b) = tagl_from n a ++ tagl_from (n + length a) b.
Proof.
  revert n. induction a as [|x a IH]; intros n; simpl.
  - now rewrite Nat.add_0_r.
  - rewrite !tagl_from_cons. simpl. rewrite IH. do 3 f_equal. lia.
Qed.
Lemma map_snd_tagl n l : map snd (tagl_from n l) = l.
Proof. revert n. induction l as [|x l IH]; intros n; [reflexivity|]. rewrite tagl_from_cons. simpl. now rewrite IH. Qed.
Lemma map_fst_tagl n l : map fst (tagl_from n l) = seq n (length l).
Proof. revert n. induction l as [|x l IH]; intros n; [reflexivity|]. rewrite tagl_from_cons. simpl. now rewrite IH. Qed.
Lemma tagl_length n l : length (tagl_from n l) = length l.
Proof. rewrite <- (map_length snd). now rewrite map_snd_tagl. Qed.

Lemma in_tagl n l i x :
  In (i, x) (tagl_from n l) <-> n <= i /\ nth_error l (i - n) = Some x.
Proof.
  revert n. induction l as [|y l IH]; intros n.
  - simpl. split; [intros [] | intros [_ H]]. destruct (i - n); discriminate.
  - rewrite tagl_from_cons. simpl. rewrite IH. split.
    + intros [H|[Hle H]].
      * injection H as <- <-. split; [lia|]. now rewrite Nat.sub_diag.
      * split; [lia|]. replace (i - n) with (S (i - S n)) by lia. exact H.
    + intros [Hle H]. destruct (Nat.eq_dec i n) as [->|Hne].
      * left. rewrite Nat.sub_diag in H. simpl in H. congruence.
      * right. split; [lia|]. replace (i - n) with (S (i - S n)) in H by lia. exact H.
Qed.

Lemma nodup_fst_tagl n l : NoDup (map fst (tagl_from n l)).
Proof. rewrite map_fst_tagl. apply seq_NoDup. Qed.

Lemma memn_true p ps : memn p ps = true <-> In p ps.
Proof.
  unfold memn. rewrite existsb_exists. split.
  - intros (x & Hx & E). apply Nat.eqb_eq in E. now subst.
  - intros H. exists p. split; [assumption | apply Nat.eqb_refl].
Qed.
Lemma memn_false p ps : memn p ps = false <-> ~ In p ps.
Proof. rewrite <- memn_true. destruct (memn p ps); split; congruence. Qed.

(* ---- removing nodes by identity *)
Lemma without_app ps (a b : list (nat * A)) : without ps (a ++ b) = without ps a ++ without ps b.
Proof. apply filter_app. Qed.

Lemma without_cons_notin p ps (il : list (nat * A)) :
  ~ In p (map fst il) -> without (p :: ps) il = without ps il.
Proof.
  intros H. apply filter_ext_in. intros [q y] Hq. simpl.
  destruct (Nat.eqb q p) eqn:E; [|reflexivity].
  apply Nat.eqb_eq in E. subst. exfalso. apply H. now apply (in_map fst) in Hq.
Qed.

Lemma without_cons_in q (y : A) ps il :
  memn q ps = true -> without ps ((q, y) :: il) = without ps il.
Proof. intros H. unfold without. simpl. now rewrite H. Qed.
Lemma without_cons_out q (y : A) ps il :
  memn q ps = false -> without ps ((q, y) :: il) = (q, y) :: without ps il.
Proof. intros H. unfold without. simpl. now rewrite H. Qed.
Lemma memn_cons q p ps : memn q (p :: ps) = Nat.eqb q p || memn q ps.
Proof. reflexivity. Qed.

Lemma without_perm p x ps (il : list (nat * A)) :
  NoDup (map fst il) -> In (p, x) il -> memn p ps = false ->
  Permutation ((p, x) :: without (p :: ps) il) (without ps il).
Proof.
  induction il as [|[q y] il IH]; intros Hnd Hin Hp; [destruct Hin|].
  simpl in Hnd. inversion Hnd as [|? ? Hq Hnd']; subst.
  destruct (Nat.eq_dec q p) as [->|Hne].
  - assert (y = x) as ->.
    { destruct Hin as [E|Hin]; [congruence|]. exfalso. apply Hq. now apply (in_map fst) in Hin. }
    rewrite without_cons_in by (unfold memn; simpl; now rewrite Nat.eqb_refl).
    rewrite without_cons_out by exact Hp.
    constructor. now rewrite without_cons_notin.
  - destruct Hin as [E|Hin]; [congruence|].
    assert (Eq : Nat.eqb q p = false) by now apply Nat.eqb_neq.
    assert (Em' : memn q (p :: ps) = memn q ps) by (unfold memn; simpl; now rewrite Eq).
    destruct (memn q ps) eqn:Em.
    + rewrite (without_cons_in q y (p :: ps)) by exact Em'.
      rewrite (without_cons_in q y ps) by exact Em. now apply IH.
    + rewrite (without_cons_out q y (p :: ps)) by exact Em'.
      rewrite (without_cons_out q y ps) by exact Em.
      rewrite perm_swap. constructor. now apply IH.
Qed.

Lemma without_nil (il : list (nat * A)) : without [] il = il.
Proof. induction il as [|z il IH]; [reflexivity|]. unfold without in *. simpl in *. now rewrite IH. Qed.

Lemma pick_without_perm ps l :
  NoDup ps -> (forall p, In p ps -> p < length l) ->
  Permutation (pick ps l ++ without ps (tagl l)) (tagl l).
Proof.
  induction ps as [|p ps IH]; intros Hnd Hlt.
  - simpl. now rewrite without_nil.
  - inversion Hnd as [|? ? Hp Hnd']; subst.
    assert (Hpl : p < length l) by (apply Hlt; now left).
    destruct (nth_error l p) as [x|] eqn:E; [|apply nth_error_None in E; lia].
    unfold pick. simpl. rewrite E. simpl. fold (pick ps l).
    assert (Hin : In (p, x) (tagl l)).
    { rewrite tagl_eq. apply in_tagl. split; [lia|]. now rewrite Nat.sub_0_r. }
    assert (Hm : memn p ps = false) by now apply memn_false.
    eapply Permutation_trans; [|apply IH; auto; intros q Hq; apply Hlt; now right].
    eapply Permutation_trans; [apply Permutation_middle|].
    apply Permutation_app_head. apply without_perm; auto. rewrite tagl_eq. apply nodup_fst_tagl.
Qed.

Lemma insert_many_perm {B} i (xs l : list B) : Permutation (insert_many i xs l) (xs ++ l).
Proof.
  unfold insert_many. rewrite <- (firstn_skipn i l) at 3. apply Permutation_app_swap_app.
Qed.

Lemma pos_of_lt i (il : list (nat * A)) n : pos_of i il = Some n -> n < length il.
Proof.
  revert n. induction il as [|q il IH]; intros n H; simpl in H; [discriminate|].
  destruct (Nat.eqb (fst q) i).
  - injection H as <-. simpl. lia.
  - destruct (pos_of i il) as [m|]; [|discriminate]. injection H as <-. simpl.
    specialize (IH m eq_refl). lia.
Qed.

Lemma pos_of_app i x (a b : list (nat * A)) :
  (forall q, In q a -> fst q <> i) -> pos_of i (a ++ (i, x) :: b) = Some (length a).
Proof.
  induction a as [|q a IH]; intros H; simpl.
  - now rewrite Nat.eqb_refl.
  - assert (Nat.eqb (fst q) i = false) as -> by (apply Nat.eqb_neq; apply H; now left).
    rewrite IH; [reflexivity|]. intros r Hr. apply H. now right.
Qed.

(* a move never adds or loses an element *)
Theorem move_before_perm ps tp l r :
  NoDup ps -> (forall p, In p ps -> p < length l) ->
  move_before ps tp l = Some r -> Permutation r l.
Proof.
  intros Hnd Hlt H. unfold move_before in H.
  assert (Hgen : forall i, i <= length (without ps (tagl l)) ->
            Permutation (map snd (insert_loop i (pick ps l) (without ps (tagl l)))) l).
  { intros i Hi. rewrite insert_loop_many by exact Hi.
    apply Permutation_trans with (map snd (tagl l));
      [|rewrite tagl_eq, map_snd_tagl; apply Permutation_refl].
    apply Permutation_map.
    eapply Permutation_trans; [apply insert_many_perm|]. now apply pick_without_perm. }
  destruct tp as [t|].
  - destruct (pos_of t (without ps (tagl l))) as [i|] eqn:E; [|discriminate].
    injection H as <-. apply Hgen. apply pos_of_lt in E. lia.
  - injection H as <-. now apply Hgen.
Qed.

End Tagl.

Section Keys.
Context {A K : Type}.
Variable kof : A -> kres K.
Variable keqb : K -> K -> bool.
Hypothesis keqb_eq : forall a b, keqb a b = true <-> a = b.

Notation key_is := (key_is kof keqb).
Notation lookup := (lookup kof keqb).
Notation keys := (keys kof).
Notation others := (others kof).
Notation no_bad := (no_bad kof).
Notation oeq := (oeq keqb).

(* ---- validate_sources *)
Definition tp_is (tp : option nat) (p : nat) : bool :=
  match tp with Some t => Nat.eqb p t | None => false end.

Lemma validate_sources_ok tp acc ids l ps :
  validate_sources kof keqb tp acc ids l = VOk ps ->
  exists qs, ps = rev acc ++ qs /\
    Forall2 (fun id q => lookup id l = FFound q) ids qs /\
    (forall q, In q qs -> tp_is tp q = false /\ ~ In q acc) /\ NoDup qs.
Proof.
  revert acc. induction ids as [|id ids IH]; intros acc H; simpl in H.
  - injection H as <-. exists []. rewrite app_nil_r.
    split; [reflexivity|]. split; [constructor|]. split; [intros ? [] | constructor].
  - destruct (lookup id l) as [p| |] eqn:E; try discriminate.
    fold (tp_is tp p) in H.
    destruct (tp_is tp p) eqn:Et; [discriminate|].
    destruct (memn p acc) eqn:Em; [discriminate|]. simpl in H.
    apply IH in H as (qs & -> & Hf & Hq & Hnd).
    exists (p :: qs). split; [simpl; now rewrite <- app_assoc|]. split; [now constructor|]. split.
    + intros q [<-|Hin].
      * split; [assumption | now apply memn_false].
      * destruct (Hq q Hin) as [Ht Hn]. split; [assumption|]. intros Hc. apply Hn. now right.
    + constructor; [|assumption]. intros Hin. destruct (Hq p Hin) as [_ Hn]. apply Hn. now left.
Qed.

Lemma validate_sources_complete tp acc ids l qs :
  Forall2 (fun id q => lookup id l = FFound q) ids qs ->
  (forall q, In q qs -> tp_is tp q = false /\ ~ In q acc) -> NoDup qs ->
  validate_sources kof keqb tp acc ids l = VOk (rev acc ++ qs).
Proof.
  intros Hf. revert acc. induction Hf as [|id q ids qs Hl Hf IH]; intros acc Hq Hnd; simpl.
  - now rewrite app_nil_r.
  - rewrite Hl. fold (tp_is tp q). destruct (Hq q (or_introl eq_refl)) as [Ht Hn].
    rewrite Ht. apply memn_false in Hn. rewrite Hn. simpl.
    inversion Hnd as [|? ? Hnq Hnd']; subst.
    rewrite IH; [simpl; now rewrite <- app_assoc | | assumption].
    intros r Hr. destruct (Hq r (or_intror Hr)) as [Ht' Hn']. split; [assumption|].
    intros [<-|Hc]; [contradiction | contradiction].
Qed.

Lemma lookup_found_lt id l i : lookup id l = FFound i -> i < length l.
Proof.
  destruct id as [s|]; [|discriminate]. intros H.
  apply (lookup_found kof keqb keqb_eq) in H as (pre & x & post & -> & -> & _).
  rewrite app_length. simpl. lia.
Qed.

(* whatever the message: a move that succeeds permutes the children, one that fails
   leaves them alone *)
Theorem gen_move_total mex tgt srcs l :
  let r := gen_move kof keqb mex tgt srcs l in
  match r_err r with
  | None => Permutation (r_st r) l
  | Some _ => r_st r = l
  end.
Proof.
  unfold gen_move.
  destruct (locate_target kof keqb tgt l) as [|i| |] eqn:Et; cbn [r_err r_st raise_merge fail ok]; auto.
  - destruct (validate_sources kof keqb None [] srcs l) as [ps| |] eqn:Ev; cbn [r_err r_st raise_merge fail ok]; auto.
    apply validate_sources_ok in Ev as (qs & -> & Hf & Hq & Hnd). cbn [rev app].
    destruct (move_before qs None l) as [l'|] eqn:Em; cbn [r_err r_st raise_merge fail ok]; auto.
    eapply move_before_perm; eauto.
    intros p Hp. clear - Hf Hp keqb_eq. induction Hf as [|id q ids qs Hl Hf IH]; [destruct Hp|].
    destruct Hp as [<-|Hp]; [eapply lookup_found_lt; eauto | auto].
  - destruct (validate_sources kof keqb (Some i) [] srcs l) as [ps| |] eqn:Ev; cbn [r_err r_st raise_merge fail ok]; auto.
    apply validate_sources_ok in Ev as (qs & -> & Hf & Hq & Hnd). cbn [rev app].
    destruct (move_before qs (Some i) l) as [l'|] eqn:Em; cbn [r_err r_st raise_merge fail ok]; auto.
    eapply move_before_perm; eauto.
    intros p Hp. clear - Hf Hp keqb_eq. induction Hf as [|id q ids qs Hl Hf IH]; [destruct Hp|].
    destruct Hp as [<-|Hp]; [eapply lookup_found_lt; eauto | auto].
Qed.

(* ---- the protocol on IDs, for running orders with unique IDs *)
Definition named (ss : list K) (x : A) : bool := existsb (fun s => key_is s x) ss.

Lemma key_is_in_keys s y l : In y l -> key_is s y = true -> In (Some s) (keys l).
Proof.
  intros Hy Hk. induction l as [|x l IH]; [destruct Hy|]. simpl.
  apply in_or_app. destruct Hy as [->|Hy]; [left | right; auto].
  unfold Seq.key_is in Hk. destruct (kof y) as [| |[k|]]; try discriminate.
  apply keqb_eq in Hk. subst. now left.
Qed.

(* with unique IDs, an ID sits at one position only *)
Lemma unique_position s l i j x y :
  NoDup (keys l) -> nth_error l i = Some x -> nth_error l j = Some y ->
  key_is s x = true -> key_is s y = true -> i = j.
Proof.
  revert i j. induction l as [|z l IH]; intros i j Hnd Hi Hj Hx Hy; [destruct i; discriminate|].
  simpl in Hnd.
  destruct i as [|i], j as [|j]; simpl in *; auto.
  - injection Hi as ->. exfalso.
    apply nth_error_In in Hj. apply (key_is_in_keys s y l Hj) in Hy.
    unfold Seq.key_is in Hx. destruct (kof x) as [| |[k|]]; try discriminate.
    apply keqb_eq in Hx. subst. simpl in Hnd. inversion Hnd. contradiction.
  - injection Hj as ->. exfalso.
    apply nth_error_In in Hi. apply (key_is_in_keys s x l Hi) in Hx.
    unfold Seq.key_is in Hy. destruct (kof y) as [| |[k|]]; try discriminate.
    apply keqb_eq in Hy. subst. simpl in Hnd. inversion Hnd. contradiction.
  - f_equal. apply (IH i j); auto. apply NoDup_app_r in Hnd. exact Hnd.
Qed.

Lemma lookup_found_nth s l p :
  lookup (Some s) l = FFound p -> exists x, nth_error l p = Some x /\ kof x = KKey (Some s).
Proof.
  intros H. apply (lookup_found kof keqb keqb_eq) in H as (pre & x & post & -> & -> & Hx & _).
  exists x. split; [apply nth_error_app_mid | exact Hx].
Qed.

(* the positions validate_sources found are exactly the positions of the named elements *)
Lemma named_positions ss ps l :
  NoDup (keys l) ->
  Forall2 (fun s p => lookup (Some s) l = FFound p) ss ps ->
  forall i x, nth_error l i = Some x -> memn i ps = named ss x.
Proof.
  intros Hnd Hf i x Hi. induction Hf as [|s p ss ps Hl Hf IH]; [reflexivity|].
  unfold memn, named in *. simpl. rewrite IH. f_equal.
  destruct (lookup_found_nth s l p Hl) as (y & Hp & Hy).
  assert (Hky : key_is s y = true) by (unfold Seq.key_is; rewrite Hy; now apply keqb_eq).
  destruct (Nat.eqb i p) eqn:E.
  - apply Nat.eqb_eq in E. subst. rewrite Hp in Hi. injection Hi as <-. now rewrite Hky.
  - destruct (key_is s x) eqn:Hkx; [|reflexivity].
    apply Nat.eqb_neq in E. exfalso. apply E. eapply unique_position; eauto.
Qed.

Lemma map_snd_filter {B C} (f : C -> bool) (il : list (B * C)) :
  map snd (filter (fun p => f (snd p)) il) = filter f (map snd il).
Proof.
  induction il as [|[b c] il IH]; simpl; [reflexivity|].
  destruct (f c); simpl; now rewrite IH.
Qed.

Lemma without_named ss ps l :
  NoDup (keys l) ->
  Forall2 (fun s p => lookup (Some s) l = FFound p) ss ps ->
  map snd (without ps (tagl l)) = filter (fun x => negb (named ss x)) l.
Proof.
  intros Hnd Hf.
  transitivity (map snd (filter (fun p : nat * A => negb (named ss (snd p))) (tagl l))).
  - f_equal. apply filter_ext_in. intros [i x] Hin. simpl.
    rewrite tagl_eq in Hin. apply in_tagl in Hin as [_ Hin]. rewrite Nat.sub_0_r in Hin.
    now rewrite (named_positions ss ps l Hnd Hf i x Hin).
  - rewrite (map_snd_filter (fun x => negb (named ss x))). now rewrite tagl_eq, map_snd_tagl.
Qed.

Lemma keys_filter_named ss l :
  keys (filter (fun x => negb (named ss x)) l) = sp_remove_all keqb ss (keys l).
Proof.
  induction l as [|x l IH]; [reflexivity|]. simpl.
  unfold sp_remove_all in *. rewrite filter_app, <- IH.
  unfold named at 1, Seq.key_is.
  destruct (kof x) as [| |k] eqn:E; simpl.
  - assert (existsb (fun _ : K => false) ss = false) as -> by (clear; induction ss; simpl; auto).
    simpl. now rewrite E.
  - assert (existsb (fun _ : K => false) ss = false) as -> by (clear; induction ss; simpl; auto).
    simpl. now rewrite E.
  - assert (Hx : existsb (fun s => match k with Some k0 => keqb k0 s | None => false end) ss
                 = existsb (Spec.oeq keqb k) ss) by reflexivity.
    rewrite Hx. destruct (existsb (Spec.oeq keqb k) ss); simpl; [reflexivity | now rewrite E].
Qed.

Lemma others_filter_named ss l : others (filter (fun x => negb (named ss x)) l) = others l.
Proof.
  induction l as [|x l IH]; [reflexivity|]. simpl.
  destruct (named ss x) eqn:En; simpl.
  - unfold Seq.others in *. simpl. rewrite IH.
    assert (is_keyed kof x = true) as ->; [|reflexivity].
    unfold named in En. apply existsb_exists in En as (s & _ & Hs).
    unfold Seq.key_is in Hs. unfold is_keyed. now destruct (kof x).
  - unfold Seq.others in *. simpl. now rewrite IH.
Qed.

Lemma keys_pick ss ps l :
  Forall2 (fun s p => lookup (Some s) l = FFound p) ss ps ->
  keys (map snd (pick ps l)) = map Some ss /\ others (map snd (pick ps l)) = [] /\
  forallb (named ss) (map snd (pick ps l)) = true.
Proof.
  intros Hf. induction Hf as [|s p ss ps Hl Hf IH]; [now repeat split|].
  destruct (lookup_found_nth s l p Hl) as (y & Hp & Hy).
  assert (Hpk : pick (p :: ps) l = (p, y) :: pick ps l) by (unfold pick; simpl; now rewrite Hp).
  rewrite Hpk. cbn [map snd].
  destruct IH as (IHk & IHo & IHn).
  assert (Hky : key_is s y = true) by (unfold Seq.key_is; rewrite Hy; now apply keqb_eq).
  split; [|split].
  - rewrite (keys_cons kof), (keys_keyed kof _ _ Hy), IHk. reflexivity.
  - rewrite (others_cons kof), (others_keyed kof _ _ Hy), IHo. reflexivity.
  - cbn [forallb]. apply andb_true_intro. split.
    + unfold named. simpl. now rewrite Hky.
    + rewrite forallb_forall in *. intros z Hz. specialize (IHn z Hz).
      unfold named in *. simpl. rewrite IHn. apply orb_true_r.
Qed.

Lemma filter_named_all ss l :
  forallb (named ss) l = true -> filter (fun x => negb (named ss x)) l = [].
Proof.
  induction l as [|x l IH]; [reflexivity|]. simpl. intros H. apply andb_prop in H as [Hx Hl].
  rewrite Hx. simpl. now apply IH.
Qed.

Lemma filter_idem {B} (f : B -> bool) l : filter f (filter f l) = filter f l.
Proof.
  induction l as [|x l IH]; [reflexivity|]. simpl. destruct (f x) eqn:E; simpl; [rewrite E|]; now rewrite ?IH.
Qed.

Theorem gen_move_keys tgt ss l :
  no_bad l = true -> NoDup (keys l) -> NoDup ss ->
  (forall s, In s ss -> sp_mem keqb s (keys l) = true) ->
  match tgt with
  | None => True
  | Some t => sp_mem keqb t (keys l) = true /\ ~ In t ss
  end ->
  let r := gen_move kof keqb None tgt (map Some ss) l in
  r_err r = None /\ r_ws r = [] /\
  Some (keys (r_st r)) = sp_move keqb tgt ss (keys l) /\
  others (r_st r) = others l /\
  filter (fun x => negb (named ss x)) (r_st r) = filter (fun x => negb (named ss x)) l.
Proof.
  intros Hb Hnd Hss Hin Ht.
  (* every source resolves *)
  assert (Hres : forall s, sp_mem keqb s (keys l) = true -> exists p, lookup (Some s) l = FFound p).
  { intros s Hs. destruct (lookup (Some s) l) as [p| |] eqn:E; [now exists p | | ].
    - assert (Hn : forall a, In a (keys l) -> oeq a s = false) by (eapply lookup_none; eauto).
      apply (sp_mem_false keqb) in Hn. congruence.
    - exfalso. eapply (lookup_no_attr kof keqb); eauto. }
  assert (Hps : exists ps, Forall2 (fun s p => lookup (Some s) l = FFound p) ss ps).
  { clear Hss Ht. induction ss as [|s ss IH]; [exists []; constructor|].
    destruct (Hres s (Hin s (or_introl eq_refl))) as (p & Hp).
    destruct IH as (ps & Hps); [intros; apply Hin; now right|].
    exists (p :: ps). now constructor. }
  destruct Hps as (ps & Hps).
  assert (Hps' : Forall2 (fun id q => lookup id l = FFound q) (map Some ss) ps).
  { clear - Hps. induction Hps; simpl; constructor; auto. }
  (* distinct IDs sit at distinct positions *)
  assert (Hndps : NoDup ps).
  { clear Ht Hps'. revert Hss. induction Hps as [|s p ss ps Hl Hf IH]; intros Hss; [constructor|].
    inversion Hss as [|? ? Hs Hss']; subst. constructor; [|apply IH; auto; intros; apply Hin; now right].
    intros Hp. apply Hs. clear IH Hss Hss' Hs.
    destruct (lookup_found_nth s l p Hl) as (y & Hy & Hky).
    induction Hf as [|s' p' ss ps Hl' Hf IH]; [destruct Hp|].
    destruct Hp as [<-|Hp]; [|right; apply IH; auto; intros; apply Hin; simpl in *; tauto].
    left. destruct (lookup_found_nth s' l p' Hl') as (y' & Hy' & Hky').
    rewrite Hy in Hy'. injection Hy' as <-. rewrite Hky in Hky'. congruence. }
  assert (Hrest := without_named ss ps l Hnd Hps).
  destruct (keys_pick ss ps l Hps) as (Hmk & Hmo & Hmn).
  unfold gen_move.
  destruct tgt as [t|].
  - destruct Ht as [Htin Htn].
    destruct (Hres t Htin) as (tp & Htp).
    unfold locate_target. rewrite Htp.
    rewrite (validate_sources_complete (Some tp) [] (map Some ss) l ps Hps'); [| |assumption].
    2:{ intros q Hq. split; [|intros []]. simpl. apply Nat.eqb_neq. intros ->. apply Htn.
        clear - Hps Hq Htp keqb_eq. induction Hps as [|s p ss ps Hl Hf IH]; [destruct Hq|].
        destruct Hq as [<-|Hq]; [|right; auto]. left.
        destruct (lookup_found_nth s l p Hl) as (y & Hy & Hky).
        destruct (lookup_found_nth t l p Htp) as (y' & Hy' & Hky').
        rewrite Hy in Hy'. injection Hy' as <-. rewrite Hky in Hky'. congruence. }
    cbn [rev app].
    (* split at the target *)
    destruct (lookup_found kof keqb keqb_eq t l tp Htp)
      as (pre & x & post & El & Etp & Hx & Hpre & Hkpre & Hkl & Hol).
    assert (Htagl : tagl l = tagl_from 0 pre ++ (tp, x) :: tagl_from (S tp) post).
    { rewrite tagl_eq, El, tagl_from_app, tagl_from_cons. simpl. now rewrite <- Etp. }
    assert (Hmt : memn tp ps = false).
    { rewrite (named_positions ss ps l Hnd Hps tp x) by (rewrite El, Etp; apply nth_error_app_mid).
      unfold named. apply not_true_is_false. intros Hc. apply existsb_exists in Hc as (s & Hs & Hk).
      unfold Seq.key_is in Hk. rewrite Hx in Hk. apply keqb_eq in Hk. subst. contradiction. }
    unfold move_before.
    assert (Hw : without ps (tagl l)
                 = without ps (tagl_from 0 pre) ++ (tp, x) :: without ps (tagl_from (S tp) post)).
    { rewrite Htagl, without_app. f_equal. now apply without_cons_out. }
    rewrite Hw.
    rewrite pos_of_app.
    2:{ intros q Hq. unfold without in Hq. apply filter_In in Hq as [Hq _].
        destruct q as [qi qx]. apply in_tagl in Hq as [_ Hq]. simpl.
        assert (qi - 0 < length pre) by (apply nth_error_Some; congruence). lia. }
    rewrite insert_loop_many by (rewrite app_length; lia). rewrite insert_many_app.
    cbn [r_err r_st r_ws ok].
    set (a := map snd (without ps (tagl_from 0 pre))).
    set (b := map snd (without ps (tagl_from (S tp) post))).
    assert (Hab : filter (fun y => negb (named ss y)) l = a ++ x :: b).
    { rewrite <- Hrest, Hw, map_app. reflexivity. }
    assert (Hres_eq : map snd (without ps (tagl_from 0 pre) ++ pick ps l ++ (tp, x) :: without ps (tagl_from (S tp) post))
                      = a ++ map snd (pick ps l) ++ x :: b).
    { rewrite !map_app. reflexivity. }
    rewrite Hres_eq.
    assert (Ha : forall y, In y a -> In y pre).
    { intros y Hy. unfold a in Hy. apply in_map_iff in Hy as ([qi qx] & <- & Hq).
      unfold without in Hq. apply filter_In in Hq as [Hq _]. apply in_tagl in Hq as [_ Hq].
      simpl. eapply nth_error_In; eauto. }
    split; [reflexivity|]. split; [reflexivity|]. split; [|split].
    + unfold sp_move, sp_insert. rewrite <- keys_filter_named, Hab.
      rewrite !(keys_app kof). change (x :: b) with ([x] ++ b).
      rewrite (keys_app kof), (keys_keyed kof _ _ Hx), Hmk. simpl.
      rewrite (sp_insert_before_split keqb keqb_eq); [reflexivity|].
      apply (keys_not_id kof keqb). intros y Hy. apply Hpre. now apply Ha.
    + rewrite !(others_app kof). rewrite Hmo. simpl.
      rewrite <- (others_filter_named ss l), Hab, (others_app kof). reflexivity.
    + rewrite !filter_app. rewrite (filter_named_all ss _ Hmn). cbn [app].
      rewrite <- filter_app. rewrite <- Hab. apply filter_idem.
  - unfold locate_target.
    rewrite (validate_sources_complete None [] (map Some ss) l ps Hps'); [| |assumption].
    2:{ intros q Hq. split; [reflexivity | intros []]. }
    cbn [rev app]. unfold move_before.
    rewrite insert_loop_many by lia. rewrite insert_many_end.
    cbn [r_err r_st r_ws ok]. rewrite map_app, Hrest.
    split; [reflexivity|]. split; [reflexivity|]. split; [|split].
    + unfold sp_move, sp_insert. rewrite (keys_app kof), keys_filter_named, Hmk. reflexivity.
    + rewrite (others_app kof), Hmo, others_filter_named. now rewrite app_nil_r.
    + rewrite filter_app, (filter_named_all ss _ Hmn), app_nil_r. apply filter_idem.
Qed.

End Keys.

(* ---- swaps *)
Section Swap.
Context {A K : Type}.
Variable kof : A -> kres K.
Variable keqb : K -> K -> bool.
Hypothesis keqb_eq : forall a b, keqb a b = true <-> a = b.

Notation key_is := (key_is kof keqb).
Notation lookup := (lookup kof keqb).
Notation keys := (keys kof).
Notation others := (others kof).
Notation no_bad := (no_bad kof).
Notation oeq := (oeq keqb).

Lemma swap_nodes_split (a b c : list A) x y :
  swap_nodes (length a) (length (a ++ x :: b)) (a ++ x :: b ++ y :: c) = a ++ y :: b ++ x :: c.
Proof.
  unfold swap_nodes.
  assert (Hlt : length a < length (a ++ x :: b)) by (rewrite app_length; simpl; lia).
  rewrite Nat.min_l, Nat.max_r by lia.
  rewrite nth_error_app_mid.
  replace (a ++ x :: b ++ y :: c) with ((a ++ x :: b) ++ y :: c) by (rewrite <- app_assoc; reflexivity).
  rewrite nth_error_app_mid, remove_at_app.
  rewrite <- app_assoc. cbn [app]. rewrite remove_at_app.
  rewrite (insert_at_many (length a) y), insert_many_app. cbn [app].
  replace (a ++ y :: b ++ c) with ((a ++ y :: b) ++ c) by (rewrite <- app_assoc; reflexivity).
  replace (length (a ++ x :: b)) with (length (a ++ y :: b)) by (rewrite !app_length; reflexivity).
  rewrite insert_at_many, insert_many_app. rewrite <- app_assoc. reflexivity.
Qed.

Lemma swap_nodes_sym i j (l : list A) : swap_nodes i j l = swap_nodes j i l.
Proof. unfold swap_nodes. now rewrite Nat.min_comm, Nat.max_comm. Qed.

(* two distinct positions split the list *)
Lemma two_positions (l : list A) i j x y :
  i < j -> nth_error l i = Some x -> nth_error l j = Some y ->
  exists a b c, l = a ++ x :: b ++ y :: c /\ length a = i /\ length (a ++ x :: b) = j.
Proof.
  intros Hlt Hi Hj.
  destruct (nth_error_split l i x Hi) as (a & r & -> & Ha).
  rewrite nth_error_app2 in Hj by lia.
  replace (j - length a) with (S (j - length a - 1)) in Hj by lia. simpl in Hj.
  destruct (nth_error_split r _ y Hj) as (b & c & -> & Hb).
  exists a, b, c. split; [reflexivity|]. split; [assumption|]. rewrite app_length. simpl. lia.
Qed.

Lemma perm_swap_ends (x y : A) q s : Permutation (y :: q ++ x :: s) (x :: q ++ y :: s).
Proof.
  apply Permutation_trans with (y :: x :: q ++ s).
  - constructor. apply Permutation_sym, Permutation_middle.
  - eapply Permutation_trans; [apply perm_swap|]. constructor. apply Permutation_middle.
Qed.

Theorem gen_swap_total mex ids l :
  let r := gen_swap kof keqb mex ids l in
  match r_err r with
  | None => Permutation (r_st r) l
  | Some _ => r_st r = l
  end.
Proof.
  unfold gen_swap.
  destruct ids as [|a [|b [|? ?]]]; cbn [r_err r_st raise_merge fail ok]; auto.
  destruct (lookup a l) as [i| |] eqn:Ea; cbn [r_err r_st raise_merge fail ok]; auto.
  destruct (lookup b l) as [j| |] eqn:Eb; cbn [r_err r_st raise_merge fail ok]; auto.
  destruct (Nat.eqb i j) eqn:Eij; cbn [r_err r_st raise_merge fail ok]; auto.
  apply Nat.eqb_neq in Eij.
  destruct a as [sa|]; [|discriminate]. destruct b as [sb|]; [|discriminate].
  destruct (lookup_found_nth kof keqb keqb_eq sa l i Ea) as (x & Hx & _).
  destruct (lookup_found_nth kof keqb keqb_eq sb l j Eb) as (y & Hy & _).
  destruct (Nat.lt_ge_cases i j) as [Hlt|Hge].
  - destruct (two_positions l i j x y Hlt Hx Hy) as (p & q & s & -> & <- & <-).
    rewrite swap_nodes_split.
    apply Permutation_app_head. apply perm_swap_ends.
  - assert (Hlt : j < i) by lia.
    destruct (two_positions l j i y x Hlt Hy Hx) as (p & q & s & -> & <- & <-).
    rewrite swap_nodes_sym, swap_nodes_split.
    apply Permutation_app_head. apply perm_swap_ends.
Qed.

Lemma sp_swap_id a b (l : list (option K)) :
  (forall e, In e l -> oeq e a = false /\ oeq e b = false) -> sp_swap keqb a b l = l.
Proof.
  induction l as [|e l IH]; intros H; [reflexivity|]. simpl.
  destruct (H e (or_introl eq_refl)) as [-> ->]. f_equal. apply IH. intros; apply H; now right.
Qed.

Lemma nodup_keys_other (a : K) (k1 k2 : list (option K)) :
  NoDup (k1 ++ Some a :: k2) -> forall e, In e (k1 ++ k2) -> oeq e a = false.
Proof.
  intros Hnd e He. destruct e as [k|]; [|reflexivity]. simpl.
  destruct (keqb k a) eqn:E; [|reflexivity]. apply keqb_eq in E. subst. exfalso.
  apply NoDup_remove_2 in Hnd. contradiction.
Qed.

Theorem gen_swap_keys a b l :
  no_bad l = true -> NoDup (keys l) -> a <> b ->
  sp_mem keqb a (keys l) = true -> sp_mem keqb b (keys l) = true ->
  let r := gen_swap kof keqb None [Some a; Some b] l in
  r_err r = None /\ r_ws r = [] /\ keys (r_st r) = sp_swap keqb a b (keys l) /\
  others (r_st r) = others l /\
  filter (fun x => negb (key_is a x || key_is b x)) (r_st r)
  = filter (fun x => negb (key_is a x || key_is b x)) l.
Proof.
  intros Hb Hnd Hab Ha Hbm.
  assert (Hres : forall s, sp_mem keqb s (keys l) = true -> exists p, lookup (Some s) l = FFound p).
  { intros s Hs. destruct (lookup (Some s) l) as [p| |] eqn:E; [now exists p | | ].
    - assert (Hn : forall e, In e (keys l) -> oeq e s = false) by (eapply lookup_none; eauto).
      apply (sp_mem_false keqb) in Hn. congruence.
    - exfalso. eapply (lookup_no_attr kof keqb); eauto. }
  destruct (Hres a Ha) as (i & Hi). destruct (Hres b Hbm) as (j & Hj).
  unfold gen_swap. rewrite Hi, Hj.
  destruct (lookup_found_nth kof keqb keqb_eq a l i Hi) as (x & Hx & Hkx).
  destruct (lookup_found_nth kof keqb keqb_eq b l j Hj) as (y & Hy & Hky).
  assert (Hij : i <> j).
  { intros ->. rewrite Hx in Hy. injection Hy as <-. rewrite Hkx in Hky. congruence. }
  assert (Nat.eqb i j = false) as -> by now apply Nat.eqb_neq.
  cbn [r_err r_st r_ws ok].
  (* the two orders are symmetric: prove for any split *)
  assert (Hgen : forall p q s (u v : A) (ku kv : K),
            l = p ++ u :: q ++ v :: s -> kof u = KKey (Some ku) -> kof v = KKey (Some kv) ->
            (ku = a /\ kv = b \/ ku = b /\ kv = a) ->
            keys (p ++ v :: q ++ u :: s) = sp_swap keqb a b (keys l) /\
            others (p ++ v :: q ++ u :: s) = others l /\
            filter (fun x => negb (key_is a x || key_is b x)) (p ++ v :: q ++ u :: s)
            = filter (fun x => negb (key_is a x || key_is b x)) l).
  { intros p q s u v ku kv El Hu Hv Hcase. subst l.
    assert (Hkeys : keys (p ++ u :: q ++ v :: s) = keys p ++ Some ku :: keys q ++ Some kv :: keys s).
    { rewrite (keys_app kof), (keys_cons kof), (keys_keyed kof _ _ Hu), (keys_app kof),
              (keys_cons kof), (keys_keyed kof _ _ Hv). reflexivity. }
    rewrite Hkeys in Hnd.
    assert (Hnu : forall e, In e (keys p ++ keys q ++ Some kv :: keys s) -> oeq e ku = false)
      by (apply nodup_keys_other; exact Hnd).
    assert (Hnv : forall e, In e ((keys p ++ Some ku :: keys q) ++ keys s) -> oeq e kv = false).
    { apply nodup_keys_other. rewrite <- app_assoc. exact Hnd. }
    assert (Hp : forall e, In e (keys p) -> oeq e a = false /\ oeq e b = false).
    { intros e He. assert (oeq e ku = false) by (apply Hnu; apply in_or_app; now left).
      assert (oeq e kv = false) by (apply Hnv; apply in_or_app; left; apply in_or_app; now left).
      destruct Hcase as [[-> ->]|[-> ->]]; auto. }
    assert (Hq : forall e, In e (keys q) -> oeq e a = false /\ oeq e b = false).
    { intros e He.
      assert (oeq e ku = false) by (apply Hnu; apply in_or_app; right; apply in_or_app; now left).
      assert (oeq e kv = false)
        by (apply Hnv; apply in_or_app; left; apply in_or_app; right; now right).
      destruct Hcase as [[-> ->]|[-> ->]]; auto. }
    assert (Hs : forall e, In e (keys s) -> oeq e a = false /\ oeq e b = false).
    { intros e He.
      assert (oeq e ku = false)
        by (apply Hnu; apply in_or_app; right; apply in_or_app; right; now right).
      assert (oeq e kv = false) by (apply Hnv; apply in_or_app; now right).
      destruct Hcase as [[-> ->]|[-> ->]]; auto. }
    assert (Hne : keqb a b = false).
    { destruct (keqb a b) eqn:E; [apply keqb_eq in E; contradiction | reflexivity]. }
    assert (Hne' : keqb b a = false).
    { destruct (keqb b a) eqn:E; [apply keqb_eq in E; symmetry in E; contradiction | reflexivity]. }
    split; [|split].
    - rewrite (keys_app kof), (keys_cons kof), (keys_keyed kof _ _ Hv), (keys_app kof),
              (keys_cons kof), (keys_keyed kof _ _ Hu), Hkeys.
      unfold sp_swap. rewrite !map_app. cbn [map app].
      rewrite !map_app. cbn [map app].
      fold (sp_swap keqb a b (keys p)). fold (sp_swap keqb a b (keys q)).
      fold (sp_swap keqb a b (keys s)).
      rewrite (sp_swap_id a b _ Hp), (sp_swap_id a b _ Hq), (sp_swap_id a b _ Hs).
      destruct Hcase as [[-> ->]|[-> ->]]; cbn [Spec.oeq];
        rewrite ?(proj2 (keqb_eq a a) eq_refl), ?(proj2 (keqb_eq b b) eq_refl), ?Hne, ?Hne';
        reflexivity.
    - assert (Hmid : forall w z r, kof z = KKey w -> others (z :: r) = others r).
      { intros w z r Hz. rewrite (others_cons kof), (others_keyed kof _ _ Hz). reflexivity. }
      rewrite (others_app kof), (Hmid _ _ _ Hv), (others_app kof), (Hmid _ _ _ Hu).
      rewrite (others_app kof), (Hmid _ _ _ Hu), (others_app kof), (Hmid _ _ _ Hv). reflexivity.
    - assert (Hfu : negb (key_is a u || key_is b u) = false).
      { unfold Seq.key_is. rewrite Hu.
        destruct Hcase as [[-> ->]|[-> ->]];
          rewrite ?(proj2 (keqb_eq a a) eq_refl), ?(proj2 (keqb_eq b b) eq_refl);
          simpl; now rewrite ?orb_true_r. }
      assert (Hfv : negb (key_is a v || key_is b v) = false).
      { unfold Seq.key_is. rewrite Hv.
        destruct Hcase as [[-> ->]|[-> ->]];
          rewrite ?(proj2 (keqb_eq a a) eq_refl), ?(proj2 (keqb_eq b b) eq_refl);
          simpl; now rewrite ?orb_true_r. }
      rewrite !filter_app. cbn [filter]. rewrite !filter_app. cbn [filter].
      now rewrite Hfu, Hfv. }
  split; [reflexivity|]. split; [reflexivity|].
  destruct (Nat.lt_ge_cases i j) as [Hlt|Hge].
  - destruct (two_positions l i j x y Hlt Hx Hy) as (p & q & s & El & <- & <-).
    rewrite El. rewrite swap_nodes_split. rewrite <- El.
    apply (Hgen p q s x y a b El Hkx Hky). left. now split.
  - assert (Hlt : j < i) by lia.
    destruct (two_positions l j i y x Hlt Hy Hx) as (p & q & s & El & <- & <-).
    rewrite El. rewrite swap_nodes_sym, swap_nodes_split. rewrite <- El.
    apply (Hgen p q s y x b a El Hky Hkx). right. now split.
Qed.

End Swap.
