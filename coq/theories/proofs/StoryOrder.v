(* StoryOrder.v — C01: the sequence of story IDs after every story-level merge is the
   protocol's; C02: the same for the items of the addressed story. *)
From Coq Require Import List Bool Arith NArith Lia Permutation.
Import ListNotations.
From Mos Require Import Str Xml Outcome Seq Spec Elements Classify Messages Merge Proto.
From Mos.proofs Require Import ListFacts SeqFacts MoveFacts XmlFacts.

(* ---- boolean side conditions of Proto.v as propositions *)
Lemma all_some_map l ss : all_some l = Some ss -> l = map Some ss.
Proof.
  revert ss. induction l as [|[s|] l IH]; intros ss H; simpl in H; try discriminate.
  - now injection H as <-.
  - destruct (all_some l) as [r|]; [|discriminate]. injection H as <-. simpl. f_equal. now apply IH.
Qed.
Lemma mem_str_in s l : mem_str s l = true <-> In s l.
Proof.
  unfold mem_str. rewrite existsb_exists. split.
  - intros (x & Hx & E). apply str_eqb_eq in E. now subst.
  - intros H. exists s. split; [assumption | apply str_eqb_refl].
Qed.
Lemma nodup_str_NoDup l : nodup_str l = true -> NoDup l.
Proof.
  induction l as [|s l IH]; [constructor|]. simpl. intros H. apply andb_prop in H as [Hs Hl].
  constructor; [|auto]. intros Hc. apply mem_str_in in Hc. rewrite Hc in Hs. discriminate.
Qed.

Section Generic.
(* the generic edits instantiated at a tag / ID-tag pair *)
Variables tag idtag : str.
Notation kof := (ckey tag idtag).
Notation keys := (keys kof).
Notation no_bad := (no_bad kof).

Lemma lookup_replace_keys t new l i ks :
  no_bad l = true -> lookup kof str_eqb (Some t) l = FFound i ->
  sp_replace str_eqb t (keys new) (keys l) = Some ks ->
  keys (replace_with i new l) = ks.
Proof.
  intros Hb E Hs.
  pose proof (gen_replace_spec kof str_eqb str_eqb_eq (Some t) new l Hb) as [_ H].
  cbn [r_err r_st] in H. rewrite Hs in H. unfold gen_replace in H. rewrite E in H.
  now destruct H as (_ & H & _).
Qed.

Lemma lookup_replace_none t new l :
  no_bad l = true -> lookup kof str_eqb (Some t) l = FNone ->
  sp_replace str_eqb t new (keys l) = None.
Proof.
  intros Hb E. apply (sp_replace_absent str_eqb).
  eapply (lookup_none kof str_eqb); eauto.
Qed.

Lemma proto_move_sound mex tgt srcs l ks :
  mex = None -> no_bad l = true -> NoDup (keys l) ->
  proto_move tgt srcs (keys l) = Some ks ->
  let r := gen_move kof str_eqb mex tgt srcs l in
  r_err r = None /\ r_ws r = [] /\ keys (r_st r) = ks /\ others kof (r_st r) = others kof l.
Proof.
  intros -> Hb Hnd Hp. unfold proto_move in Hp.
  destruct (all_some srcs) as [ss|] eqn:Ea; [|discriminate].
  apply all_some_map in Ea. subst srcs.
  destruct (nodup_str ss) eqn:E1; [|discriminate].
  destruct (forallb (fun s => sp_mem str_eqb s (keys l)) ss) eqn:E2; [|discriminate].
  cbn [andb] in Hp.
  destruct (match tgt with Some t => sp_mem str_eqb t (keys l) && negb (mem_str t ss) | None => true end) eqn:E3;
    [|discriminate].
  pose proof (gen_move_keys kof str_eqb str_eqb_eq tgt ss l Hb Hnd (nodup_str_NoDup _ E1)) as H.
  destruct H as (He & Hw & Hk & Ho & _).
  - intros s Hs. rewrite forallb_forall in E2. now apply E2.
  - destruct tgt as [t|]; [|exact I]. apply andb_prop in E3 as [Ht Hn]. split; [assumption|].
    intros Hc. apply mem_str_in in Hc. rewrite Hc in Hn. discriminate.
  - repeat split; auto. rewrite Hp in Hk. now injection Hk.
Qed.

Lemma proto_swap_sound mex ids l ks :
  mex = None -> no_bad l = true -> NoDup (keys l) ->
  proto_swap ids (keys l) = Some ks ->
  let r := gen_swap kof str_eqb mex ids l in
  r_err r = None /\ r_ws r = [] /\ keys (r_st r) = ks /\ others kof (r_st r) = others kof l.
Proof.
  intros -> Hb Hnd Hp. unfold proto_swap in Hp.
  destruct ids as [|[a|] [|[b|] [|? ?]]]; try discriminate.
  destruct (str_eqb a b) eqn:E1; [discriminate|].
  destruct (sp_mem str_eqb a (keys l)) eqn:E2; [|discriminate].
  destruct (sp_mem str_eqb b (keys l)) eqn:E3; [|discriminate].
  injection Hp as <-.
  assert (Hab : a <> b) by (intros ->; rewrite str_eqb_refl in E1; discriminate).
  pose proof (gen_swap_keys kof str_eqb str_eqb_eq a b l Hb Hnd Hab E2 E3) as (He & Hw & Hk & Ho & _).
  repeat split; auto.
Qed.

Lemma proto_delete_sound mex w ids l :
  mex = None -> no_bad l = true ->
  let r := delete_loop kof str_eqb mex w ids l in
  r_err r = None /\ keys (r_st r) = sp_delete str_eqb ids (keys l) /\
  others kof (r_st r) = others kof l /\ r_ws r = repeat w (sp_missing str_eqb ids (keys l)).
Proof.
  intros -> Hb.
  pose proof (delete_loop_spec kof str_eqb str_eqb_eq w ids l Hb) as (He & Hk & Ho & Hw & _).
  repeat split; auto.
Qed.

Lemma proto_replace_sound mex tgt new l ks :
  mex = None -> no_bad l = true ->
  proto_replace tgt (keys new) (keys l) = Some ks ->
  let r := gen_replace kof str_eqb mex tgt new l in
  r_err r = None /\ r_ws r = [] /\ keys (r_st r) = ks.
Proof.
  intros -> Hb Hp.
  pose proof (gen_replace_spec kof str_eqb str_eqb_eq tgt new l Hb) as [Hw H].
  unfold proto_replace in Hp. rewrite Hp in H. destruct H as (He & Hk & _). repeat split; auto.
Qed.

Lemma proto_insert_sound mex tgt new l ks :
  mex = None -> no_bad l = true ->
  sp_insert str_eqb tgt (keys new) (keys l) = Some ks ->
  let r := gen_insert kof str_eqb mex tgt new l in
  r_err r = None /\ r_ws r = [] /\ keys (r_st r) = ks.
Proof.
  intros -> Hb Hp.
  pose proof (gen_insert_spec kof str_eqb str_eqb_eq tgt new l Hb) as [Hw H].
  rewrite Hp in H. destruct H as (He & Hk & _). repeat split; auto.
Qed.

End Generic.

(* ---- C01 on the children of roCreate *)
Section Story.
Variable o : oracles.

Notation skeys := (keys skey).

Lemma skey_converted b s t :
  convert_story_send b = Some s -> story_id s = Some t -> skey s = KKey (Some t).
Proof.
  unfold convert_story_send. destruct (splice_body (kids_of b)) as [k|]; [|discriminate].
  intros H. injection H as <-. unfold story_id, elem_id, skey, ckey.
  destruct b as [tg atr tx tl ks]. simpl. unfold has_tag. simpl. rewrite ?str_eqb_refl.
  destruct (find t_storyID k) as [e|]; [|discriminate]. now intros ->.
Qed.

Lemma fresh_carried_ok seen l :
  carried_ok t_story t_storyID l = true ->
  carried_ok t_story t_storyID (fresh_elems story_id ostr_eqb seen l) = true.
Proof.
  revert seen. induction l as [|x l IH]; intros seen H; [reflexivity|]. simpl in *.
  apply andb_prop in H as [Hx Hl].
  destruct (existsb (ostr_eqb (story_id x)) seen); simpl; [auto|]. rewrite Hx. simpl. auto.
Qed.

Lemma insert_dups_keys mex seen i new l pre post :
  mex = None -> carried_ok t_story t_storyID new = true ->
  l = pre ++ post -> i = length pre ->
  let r := insert_dups mex story_id ostr_eqb DuplicateStory seen i new l in
  r_err r = None /\
  skeys (r_st r) = skeys pre ++ sp_fresh ostr_eqb seen (map story_id new) ++ skeys post.
Proof.
  intros -> Hc -> ->.
  pose proof (insert_dups_spec story_id ostr_eqb DuplicateStory seen (length pre) new (pre ++ post))
    as (He & Hs & _); [rewrite app_length; lia|].
  split; [assumption|]. rewrite Hs, insert_many_app, !(keys_app skey).
  f_equal. f_equal. unfold skey.
  rewrite (keys_carried t_story t_storyID) by now apply fresh_carried_ok.
  apply (fresh_elems_ids story_id ostr_eqb).
Qed.

Theorem story_kids_order k m b rc ids' :
  msg_ok m = true -> schema_ok k m = true -> base_of k m = Some b ->
  no_bad skey (kids_of rc) = true -> NoDup (story_ids_rc rc) ->
  ro_stories_err o rc = None ->
  proto_story k b (story_ids_rc rc) = Some ids' ->
  let r := merge_kids o k m b rc in
  r_err r = None /\ skeys (r_st r) = ids'.
Proof.
  intros Hm Hs Hbase Hb Hnd Hst Hp.
  assert (Hmex : msg_id_exn m = None) by (unfold msg_ok in Hm; destruct (msg_id_exn m); [discriminate|reflexivity]).
  unfold schema_ok in Hs. rewrite Hm, Hbase in Hs. cbn [andb] in Hs.
  unfold story_ids_rc in *. set (kids := kids_of rc) in *.
  destruct k; try discriminate Hp; cbn [proto_story] in Hp; unfold merge_kids; fold kids;
    rewrite ?Hmex.
  - (* StorySend *)
    destruct (convert_story_send b) as [s|] eqn:Ec; [|discriminate].
    unfold proto_replace in Hp. destruct (story_id s) as [t|] eqn:Et; [|discriminate].
    unfold find_story. destruct (lookup skey str_eqb (Some t) kids) as [i| |] eqn:E.
    + split; [reflexivity|]. cbn [r_st ok].
      apply (lookup_replace_keys t_story t_storyID t [s] kids i ids' Hb E).
      change (Seq.keys (ckey t_story t_storyID) [s]) with (skeys [s]).
      now rewrite (keys_keyed skey s _ (skey_converted b s t Ec Et)).
    + rewrite (lookup_replace_none t_story t_storyID t _ kids Hb E) in Hp. discriminate.
    + exfalso. eapply (lookup_no_attr skey str_eqb); eauto.
  - (* StoryAppend *)
    injection Hp as <-. split; [reflexivity|]. cbn [r_st ok].
    rewrite (keys_app skey). f_equal. unfold skey. now rewrite keys_carried.
  - (* StoryDelete *)
    injection Hp as <-.
    pose proof (proto_delete_sound t_story t_storyID None StoryNotFound (id_tags t_storyID b) kids eq_refl Hb)
      as (He & Hk & _). now split.
  - (* StoryInsert *)
    destruct (first_story_id b) as [t|] eqn:Et; [|discriminate].
    unfold proto_insert, sp_insert in Hp.
    unfold find_story. destruct (lookup skey str_eqb (Some t) kids) as [i| |] eqn:E.
    + rewrite Hst.
      destruct (lookup_found skey str_eqb str_eqb_eq t kids i E)
        as (pre & x & post & El & Ei & Hx & _ & Hpre & Hk & _).
      pose proof (insert_dups_keys None (known_story_ids kids) i (carried t_story b) kids pre (x :: post)
                    eq_refl Hs El Ei) as (He & Hkeys).
      split; [assumption|]. rewrite Hkeys.
      rewrite (known_ids_keys kids Hb).
      rewrite Hk in Hp. rewrite (sp_insert_before_split str_eqb str_eqb_eq) in Hp by exact Hpre.
      injection Hp as <-. rewrite Hk.
      rewrite (keys_cons skey), (keys_keyed skey _ _ Hx). reflexivity.
    + rewrite (sp_insert_before_absent str_eqb) in Hp; [discriminate|].
      eapply (lookup_none skey str_eqb); eauto.
    + exfalso. eapply (lookup_no_attr skey str_eqb); eauto.
  - (* StoryMove *)
    destruct (story_move_source b) as [src|]; [|discriminate].
    pose proof (proto_move_sound t_story t_storyID None (story_move_target b) [src] kids ids' eq_refl Hb Hnd Hp)
      as (He & _ & Hk & _). now split.
  - (* StoryReplace *)
    destruct (carried t_story b) as [|n0 nr] eqn:Ecar; [discriminate|].
    unfold proto_replace in Hp. destruct (first_story_id b) as [t|] eqn:Et; [|discriminate].
    unfold find_story. destruct (lookup skey str_eqb (Some t) kids) as [i| |] eqn:E.
    + split; [reflexivity|]. cbn [r_st ok].
      apply (lookup_replace_keys t_story t_storyID t (n0 :: nr) kids i ids' Hb E).
      change (Seq.keys (ckey t_story t_storyID) (n0 :: nr)) with (skeys (n0 :: nr)).
      unfold skey. rewrite keys_carried by exact Hs. exact Hp.
    + rewrite (lookup_replace_none t_story t_storyID t _ kids Hb E) in Hp. discriminate.
    + exfalso. eapply (lookup_no_attr skey str_eqb); eauto.
  - (* EAStoryReplace *)
    pose proof (proto_replace_sound t_story t_storyID None (ea_target_id t_storyID b)
                  (ea_carried t_story b) kids ids' eq_refl Hb) as H.
    unfold carried_ids in Hp. rewrite keys_carried in H by exact Hs.
    destruct (H Hp) as (He & _ & Hk). now split.
  - (* EAStoryDelete *)
    injection Hp as <-.
    pose proof (proto_delete_sound t_story t_storyID None StoryNotFound (ea_source_ids t_storyID b) kids eq_refl Hb)
      as (He & Hk & _). now split.
  - (* EAStoryInsert *)
    unfold proto_insert, sp_insert in Hp. unfold locate_target.
    destruct (ea_target_id t_storyID b) as [t|] eqn:Et.
    + destruct (lookup skey str_eqb (Some t) kids) as [i| |] eqn:E.
      * rewrite Hst.
        destruct (lookup_found skey str_eqb str_eqb_eq t kids i E)
          as (pre & x & post & El & Ei & Hx & _ & Hpre & Hk & _).
        pose proof (insert_dups_keys None (known_story_ids kids) i (ea_carried t_story b) kids pre (x :: post)
                      eq_refl Hs El Ei) as (He & Hkeys).
        split; [assumption|]. rewrite Hkeys.
        rewrite (known_ids_keys kids Hb).
        rewrite Hk in Hp. rewrite (sp_insert_before_split str_eqb str_eqb_eq) in Hp by exact Hpre.
        injection Hp as <-. rewrite Hk.
        rewrite (keys_cons skey), (keys_keyed skey _ _ Hx). reflexivity.
      * rewrite (sp_insert_before_absent str_eqb) in Hp; [discriminate|].
        eapply (lookup_none skey str_eqb); eauto.
      * exfalso. eapply (lookup_no_attr skey str_eqb); eauto.
    + rewrite Hst.
      pose proof (insert_dups_keys None (known_story_ids kids) (length kids) (ea_carried t_story b) kids kids []
                    eq_refl Hs (eq_sym (app_nil_r kids)) eq_refl) as (He & Hkeys).
      split; [assumption|]. rewrite Hkeys. injection Hp as <-.
      rewrite (known_ids_keys kids Hb). cbn [Seq.keys flat_map]. now rewrite app_nil_r.
  - (* EAStorySwap *)
    pose proof (proto_swap_sound t_story t_storyID None (ea_first_source_ids t_storyID b) kids ids' eq_refl Hb Hnd Hp)
      as (He & _ & Hk & _). now split.
  - (* EAStoryMove *)
    pose proof (proto_move_sound t_story t_storyID None (ea_target_id t_storyID b) (ea_source_ids t_storyID b)
                  kids ids' eq_refl Hb Hnd Hp) as (He & _ & Hk & _). now split.
Qed.

End Story.

(* ---- C02 on the children of the addressed story *)
Section Item.
Variable o : oracles.

Notation ikeys := (keys ikey).

Lemma with_story_found sid kids missing f i s :
  find_story sid kids = FFound i -> nth_error kids i = Some s ->
  with_story sid kids missing f
  = map_res (fun ik => update_nth i (fun s' => set_kids s' ik) kids) (f (kids_of s)).
Proof. intros E Hn. unfold with_story. now rewrite E, Hn. Qed.

Theorem item_kids_order k m b rc i s ids' :
  msg_ok m = true -> schema_ok k m = true -> base_of k m = Some b ->
  is_item_class k = true ->
  find_story (addressed_story k b) (kids_of rc) = FFound i -> nth_error (kids_of rc) i = Some s ->
  no_bad ikey (kids_of s) = true -> NoDup (item_ids s) ->
  proto_item k b (item_ids s) = Some ids' ->
  let r := merge_kids o k m b rc in
  r_err r = None /\
  exists ik', r_st r = update_nth i (fun s' => set_kids s' ik') (kids_of rc) /\ ikeys ik' = ids'.
Proof.
  intros Hm Hs Hbase Hcls Hf Hn Hb Hnd Hp.
  assert (Hmex : msg_id_exn m = None) by (unfold msg_ok in Hm; destruct (msg_id_exn m); [discriminate|reflexivity]).
  unfold schema_ok in Hs. rewrite Hm, Hbase in Hs. cbn [andb] in Hs.
  unfold item_ids in *. set (kids := kids_of rc) in *. set (ik := kids_of s) in *.
  assert (Hlift : forall (r : res (list xml)) ks,
            r_err r = None /\ ikeys (r_st r) = ks ->
            r_err (map_res (fun ik0 => update_nth i (fun s' => set_kids s' ik0) kids) r) = None /\
            exists ik', r_st (map_res (fun ik0 => update_nth i (fun s' => set_kids s' ik0) kids) r)
                        = update_nth i (fun s' => set_kids s' ik') kids /\ ikeys ik' = ks).
  { intros r ks [He Hk]. split; [exact He|]. exists (r_st r). now split. }
  destruct k; try discriminate Hcls; cbn [addressed_story] in Hf; cbn [proto_item] in Hp;
    unfold merge_kids; fold kids; rewrite ?Hmex.
  - (* ItemDelete *)
    rewrite (with_story_found _ _ _ _ i s Hf Hn). fold ik. injection Hp as <-. apply Hlift.
    pose proof (proto_delete_sound t_item t_itemID None ItemNotFound (id_tags t_itemID b) ik eq_refl Hb)
      as (He & Hk & _). now split.
  - (* ItemInsert *)
    rewrite (with_story_found _ _ _ _ i s Hf Hn). fold ik. apply Hlift.
    pose proof (proto_insert_sound t_item t_itemID None (first_item_id b) (carried t_item b) ik ids' eq_refl Hb) as H.
    rewrite keys_carried in H by exact Hs. destruct (H Hp) as (He & _ & Hk). now split.
  - (* ItemMoveMultiple *)
    destruct (first_story_id b) as [sid|] eqn:Esid; [|discriminate Hf].
    rewrite (with_story_found _ _ _ _ i s Hf Hn). fold ik.
    destruct (imm_target b) as [tgt|]; [|discriminate]. apply Hlift.
    pose proof (proto_move_sound t_item t_itemID None tgt (imm_sources b) ik ids' eq_refl Hb Hnd Hp)
      as (He & _ & Hk & _). now split.
  - (* ItemReplace *)
    rewrite (with_story_found _ _ _ _ i s Hf Hn). fold ik. apply Hlift.
    pose proof (proto_replace_sound t_item t_itemID None (first_item_id b) (carried t_item b) ik ids' eq_refl Hb) as H.
    unfold carried_ids in Hp. rewrite keys_carried in H by exact Hs.
    destruct (H Hp) as (He & _ & Hk). now split.
  - (* EAItemReplace *)
    rewrite (with_story_found _ _ _ _ i s Hf Hn). fold ik. apply Hlift.
    pose proof (proto_replace_sound t_item t_itemID None (ea_target_id t_itemID b) (ea_carried t_item b) ik ids' eq_refl Hb) as H.
    unfold carried_ids in Hp. rewrite keys_carried in H by exact Hs.
    destruct (H Hp) as (He & _ & Hk). now split.
  - (* EAItemDelete *)
    rewrite (with_story_found _ _ _ _ i s Hf Hn). fold ik. injection Hp as <-. apply Hlift.
    pose proof (proto_delete_sound t_item t_itemID None ItemNotFound (ea_source_ids t_itemID b) ik eq_refl Hb)
      as (He & Hk & _). now split.
  - (* EAItemInsert *)
    rewrite (with_story_found _ _ _ _ i s Hf Hn). fold ik. apply Hlift.
    pose proof (proto_insert_sound t_item t_itemID None (ea_target_id t_itemID b) (ea_carried t_item b) ik ids' eq_refl Hb) as H.
    rewrite keys_carried in H by exact Hs. destruct (H Hp) as (He & _ & Hk). now split.
  - (* EAItemSwap *)
    rewrite (with_story_found _ _ _ _ i s Hf Hn). fold ik. apply Hlift.
    pose proof (proto_swap_sound t_item t_itemID None (ea_first_source_ids t_itemID b) ik ids' eq_refl Hb Hnd Hp)
      as (He & _ & Hk & _). now split.
  - (* EAItemMove *)
    rewrite (with_story_found _ _ _ _ i s Hf Hn). fold ik. apply Hlift.
    pose proof (proto_move_sound t_item t_itemID None (ea_target_id t_itemID b) (ea_first_source_ids t_itemID b)
                  ik ids' eq_refl Hb Hnd Hp) as (He & _ & Hk & _). now split.
Qed.

End Item.
