(* CollFacts.v — collections: sorting (C10), validation (C11), the merge loop (C09, C05, C12). *)
From Coq Require Import List Bool Arith NArith Lia Permutation Sorted.
Import ListNotations.
From Mos Require Import Str Xml Outcome Seq Spec Elements Classify Messages Merge Collection Proto.
From Mos.proofs Require Import ListFacts XmlFacts Lift Atomic WfFacts Clean.

(* ---- C10: sorting *)
Definition mid_lt (a b : reader) : Prop := (rd_mid a < rd_mid b)%N.
Definition mid_le (a b : reader) : Prop := (rd_mid a <= rd_mid b)%N.

Lemma insert_reader_perm x l : Permutation (insert_reader x l) (x :: l).
Proof.
  induction l as [|y l IH]; simpl; [apply Permutation_refl|].
  destruct (N.ltb (rd_mid y) (rd_mid x)); [|apply Permutation_refl].
  eapply Permutation_trans; [apply perm_skip, IH | apply perm_swap].
Qed.

Lemma sort_readers_perm l : Permutation (sort_readers l) l.
Proof.
  induction l as [|x l IH]; simpl; [constructor|].
  eapply Permutation_trans; [apply insert_reader_perm | now constructor].
Qed.

Lemma insert_reader_sorted x l :
  StronglySorted mid_le l -> StronglySorted mid_le (insert_reader x l).
Proof.
  induction l as [|y l IH]; intros H; simpl; [repeat constructor|].
  inversion H as [|? ? Hs Hf]; subst.
  destruct (N.ltb_spec (rd_mid y) (rd_mid x)) as [Hlt|Hge].
  - constructor; [now apply IH|].
    apply Forall_forall. intros z Hz.
    apply (Permutation_in _ (insert_reader_perm x l)) in Hz. destruct Hz as [<-|Hz].
    + unfold mid_le. lia.
    + rewrite Forall_forall in Hf. now apply Hf.
  - constructor; [assumption|]. constructor; [exact Hge|].
    rewrite Forall_forall in *. intros z Hz. specialize (Hf z Hz). unfold mid_le in *. lia.
Qed.

(* the readers come out in ascending numeric message-ID order *)
Theorem sort_readers_sorted l : StronglySorted mid_le (sort_readers l).
Proof. induction l as [|x l IH]; simpl; [constructor | now apply insert_reader_sorted]. Qed.

Lemma sorted_le_lt l :
  StronglySorted mid_le l -> NoDup (map rd_mid l) -> StronglySorted mid_lt l.
Proof.
  induction l as [|x l IH]; intros Hs Hn; [constructor|].
  inversion Hs as [|? ? Hs' Hf]; subst. simpl in Hn. inversion Hn as [|? ? Hx Hn']; subst.
  constructor; [auto|]. rewrite Forall_forall in *. intros z Hz. specialize (Hf z Hz).
  unfold mid_le, mid_lt in *. assert (rd_mid x <> rd_mid z); [|lia].
  intros E. apply Hx. rewrite E. now apply in_map.
Qed.

Lemma strictly_sorted_unique l1 l2 :
  StronglySorted mid_lt l1 -> StronglySorted mid_lt l2 -> Permutation l1 l2 -> l1 = l2.
Proof.
  revert l2. induction l1 as [|x l1 IH]; intros l2 H1 H2 Hp.
  - apply Permutation_nil in Hp. now subst.
  - destruct l2 as [|y l2]; [apply Permutation_sym, Permutation_nil in Hp; discriminate|].
    inversion H1 as [|? ? Hs1 Hf1]; subst. inversion H2 as [|? ? Hs2 Hf2]; subst.
    rewrite Forall_forall in Hf1, Hf2.
    assert (x = y).
    { assert (Hx : In x (y :: l2)) by (eapply Permutation_in; eauto; now left).
      assert (Hy : In y (x :: l1)) by (eapply Permutation_in; [apply Permutation_sym|]; eauto; now left).
      destruct Hx as [->|Hx]; [reflexivity|]. destruct Hy as [->|Hy]; [reflexivity|].
      specialize (Hf1 y Hy). specialize (Hf2 x Hx). unfold mid_lt in *. lia. }
    subst y. f_equal. apply IH; auto. eapply Permutation_cons_inv; eauto.
Qed.

(* every ordering of the supplied messages gives the same sequence of readers *)
Theorem sort_readers_perm_invariant l l' :
  Permutation l l' -> NoDup (map rd_mid l) -> sort_readers l = sort_readers l'.
Proof.
  intros Hp Hn. apply strictly_sorted_unique.
  - apply sorted_le_lt; [apply sort_readers_sorted|].
    eapply Permutation_NoDup; [|exact Hn]. apply Permutation_map, Permutation_sym, sort_readers_perm.
  - apply sorted_le_lt; [apply sort_readers_sorted|].
    eapply Permutation_NoDup; [|exact Hn]. apply Permutation_map.
    eapply Permutation_trans; [exact Hp | apply Permutation_sym, sort_readers_perm].
  - eapply Permutation_trans; [apply sort_readers_perm|].
    eapply Permutation_trans; [exact Hp | apply Permutation_sym, sort_readers_perm].
Qed.

(* ---- C11: validation *)
Definition count_class (k : mclass) (rs : list reader) : nat := length (filter (is_class k) rs).
Definition accepts (rs : list reader) (inc : bool) : bool :=
  match validate rs inc with inr _ => true | inl _ => false end.

Theorem accepts_iff rs inc :
  accepts rs inc = true <->
  rs <> [] /\
  (forall r0 r, hd_error rs = Some r0 -> In r rs -> rd_roid r = rd_roid r0) /\
  count_class RunningOrder rs = 1 /\ count_class RunningOrderEnd rs <= 1 /\
  (inc = false -> count_class RunningOrderEnd rs = 1).
Proof.
  unfold accepts, validate, count_class.
  destruct rs as [|r0 rs0]; [split; [discriminate | intros [H _]; now contradiction H]|].
  set (rs := r0 :: rs0).
  destruct (forallb (fun r => ostr_eqb (rd_roid r) (rd_roid r0)) rs) eqn:Eid; cbn [negb].
  - assert (Hids : forall r1 r, hd_error rs = Some r1 -> In r rs -> rd_roid r = rd_roid r1).
    { intros r1 r H Hr. injection H as <-. rewrite forallb_forall in Eid. now apply ostr_eqb_eq, Eid. }
    assert (Hne : rs <> []) by discriminate.
    destruct (filter (is_class RunningOrder) rs) as [|rc [|r2 rr]] eqn:Erc; cbn [length].
    + split; [discriminate | intros (_ & _ & H & _); discriminate].
    + destruct (Nat.leb_spec 2 (length (filter (is_class RunningOrderEnd) rs))) as [H2|H2].
      * split; [discriminate | intros (_ & _ & _ & H & _); lia].
      * destruct inc; cbn [negb andb].
        -- split; [intros _|reflexivity]. repeat split; auto; [lia | discriminate].
        -- destruct (Nat.eqb_spec (length (filter (is_class RunningOrderEnd) rs)) 1) as [E1|E1]; cbn [negb].
           ++ split; [intros _|reflexivity]. repeat split; auto; lia.
           ++ split; [discriminate | intros (_ & _ & _ & _ & H); specialize (H eq_refl); contradiction].
    + split; [discriminate | intros (_ & _ & H & _); discriminate].
  - split; [discriminate|]. intros (_ & H & _). exfalso.
    assert (forallb (fun r => ostr_eqb (rd_roid r) (rd_roid r0)) rs = true); [|congruence].
    apply forallb_forall. intros r Hr. apply ostr_eqb_eq. now apply (H r0 r).
Qed.

(* every rejection is InvalidMosCollection; on acceptance the running order is the single
   roCreate and the remaining readers are exactly the others, in order *)
Theorem validate_outcome rs inc :
  match validate rs inc with
  | inl e => e = InvalidMosCollection
  | inr (rc, others) =>
    filter (is_class RunningOrder) rs = [rc] /\
    others = filter (fun r => negb (is_class RunningOrder r)) rs
  end.
Proof.
  unfold validate. destruct rs as [|r0 rs0]; [reflexivity|].
  destruct (negb _); [reflexivity|].
  destruct (filter (is_class RunningOrder) (r0 :: rs0)) as [|rc [|? ?]]; try reflexivity.
  destruct (Nat.leb _ _); [reflexivity|]. destruct (_ && _); [reflexivity|]. now split.
Qed.

(* ---- the merge loop *)
Section Loop.
Variable o : oracles.

Definition step (s : xml) (r : reader) : res xml := add o s (rd_class r) (rd_doc r).
Definition failed (s : xml) (r : reader) : bool :=
  match r_err (step s r) with Some _ => true | None => false end.
(* every failure along the way is a merge error (no built-in exception escapes) *)
Fixpoint all_lib (rs : list reader) (s : xml) : bool :=
  match rs with
  | [] => true
  | r :: rest =>
    (match r_err (step s r) with None => true | Some e => is_merge_error e end)
    && all_lib rest (r_st (step s r))
  end.
Fixpoint count_failed (rs : list reader) (s : xml) : nat :=
  match rs with
  | [] => 0
  | r :: rest => (if failed s r then 1 else 0) + count_failed rest (r_st (step s r))
  end.
(* the warnings of a non-strict loop: those of each step, plus one MosMergeNonStrictWarning
   after each failing message *)
Fixpoint loop_ws (rs : list reader) (s : xml) : list warn :=
  match rs with
  | [] => []
  | rd :: rest =>
    r_ws (step s rd) ++ (if failed s rd then [NonStrict] else []) ++ loop_ws rest (r_st (step s rd))
  end.

(* non-strict: never stops; exactly one MosMergeNonStrictWarning per failing message; the
   state is the sequential application of every message *)
Theorem nonstrict_loop rs s :
  all_lib rs s = true ->
  let r := merge_loop o false rs s in
  r_err r = None /\
  r_st r = fold_left (fun st rd => r_st (step st rd)) rs s /\
  r_ws r = loop_ws rs s.
Proof.
  revert s. induction rs as [|rd rest IH]; intros s Hall; simpl in *; [repeat split; reflexivity|].
  apply andb_prop in Hall as [He Hall]. fold (step s rd) in *.
  unfold failed. destruct (r_err (step s rd)) as [e|] eqn:Ee.
  - rewrite He. cbn [andb negb]. destruct (IH _ Hall) as (H1 & H2 & H3).
    unfold bind. cbn [r_err r_st r_ws]. rewrite H1, H2, H3. repeat split; auto.
    now rewrite <- app_assoc.
  - destruct (IH _ Hall) as (H1 & H2 & H3).
    unfold bind. rewrite Ee. cbn [r_err r_st r_ws]. rewrite H1, H2, H3. repeat split; auto.
Qed.

Fixpoint ok_prefix (p : list reader) (s : xml) : Prop :=
  match p with
  | [] => True
  | rd :: rest => r_err (step s rd) = None /\ ok_prefix rest (r_st (step s rd))
  end.

(* strict: the first failing message stops the loop and its error propagates; the running
   order holds the result of all earlier messages *)
Theorem strict_loop rs s :
  let r := merge_loop o true rs s in
  exists p q, rs = p ++ q /\ ok_prefix p s /\
    match q with
    | [] => r_err r = None /\ r_st r = fold_left (fun st rd => r_st (step st rd)) rs s
    | rd :: _ =>
      let s1 := fold_left (fun st rd => r_st (step st rd)) p s in
      r_err r = r_err (step s1 rd) /\ r_err r <> None /\ r_st r = r_st (step s1 rd)
    end.
Proof.
  revert s. induction rs as [|rd rest IH]; intros s; simpl.
  - exists [], []. repeat split; auto.
  - fold (step s rd). destruct (r_err (step s rd)) as [e|] eqn:Ee.
    + rewrite andb_false_r. exists [], (rd :: rest). simpl. repeat split; auto. congruence.
    + destruct (IH (r_st (step s rd))) as (p & q & Hpq & Hp & Hq).
      exists (rd :: p), q. split; [simpl; now rewrite Hpq|]. split; [simpl; now split|].
      unfold bind. rewrite Ee. cbn [r_err r_st]. destruct q as [|rq q']; simpl in *; exact Hq.
Qed.

(* ---- along a history of schema-shaped messages *)
Definition reader_ok (r : reader) : bool :=
  schema_ok (rd_class r) (rd_doc r) && payload_wf (rd_class r) (rd_doc r).
(* the timing guard (durations / roEdStart numeric where present) in every state reached *)
Fixpoint timing_along (rs : list reader) (s : xml) : Prop :=
  match rs with
  | [] => True
  | rd :: rest => timing_ok o s /\ timing_along rest (r_st (step s rd))
  end.

Lemma lib_outcome_merge_error e : lib_outcome (Some e) -> is_merge_error e = true.
Proof. intros [H|[H|H]]; try discriminate; injection H as ->; reflexivity. Qed.

(* C12: a non-strict collection merge of schema-shaped messages always runs to the end *)
Theorem nonstrict_terminates rs s :
  wf_ro s = true -> forallb reader_ok rs = true -> timing_along rs s ->
  all_lib rs s = true.
Proof.
  revert s. induction rs as [|rd rest IH]; intros s Hwf Hok Ht; [reflexivity|].
  simpl in *. apply andb_prop in Hok as [Hrd Hok]. destruct Ht as [Ht Hts].
  unfold reader_ok in Hrd. apply andb_prop in Hrd as [Hs Hp].
  apply andb_true_intro. split.
  - fold (step s rd). pose proof (add_clean o s (rd_class rd) (rd_doc rd) Hwf Hs Ht) as Hc.
    fold (step s rd) in Hc. destruct (r_err (step s rd)); [now apply lib_outcome_merge_error | reflexivity].
  - apply IH; auto. now apply add_wf.
Qed.

(* C05: in a non-strict merge every failing message leaves the running order as it was,
   so the final state is the fold over the messages that did not fail *)
Fixpoint run_ok (rs : list reader) (s : xml) : xml :=
  match rs with
  | [] => s
  | rd :: rest => if failed s rd then run_ok rest s else run_ok rest (r_st (step s rd))
  end.

Theorem nonstrict_skips_failures rs s :
  wf_ro s = true -> forallb reader_ok rs = true ->
  fold_left (fun st rd => r_st (step st rd)) rs s = run_ok rs s.
Proof.
  revert s. induction rs as [|rd rest IH]; intros s Hwf Hok; [reflexivity|].
  simpl in *. apply andb_prop in Hok as [Hrd Hok].
  unfold reader_ok in Hrd. apply andb_prop in Hrd as [Hs Hp].
  unfold failed. destruct (r_err (step s rd)) as [e|] eqn:Ee.
  - assert (Hid : r_st (step s rd) = s).
    { apply failed_merge_is_identity; [assumption | eapply schema_msg_ok; eauto|].
      fold (step s rd). rewrite Ee. discriminate. }
    rewrite Hid. now apply IH.
  - apply IH; [|assumption]. now apply add_wf.
Qed.

End Loop.
