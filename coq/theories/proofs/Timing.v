(* Timing.v — the timing guard of C12 ("evaluating ro.stories does not raise") is an invariant
   of merging: if the roEdStart and the story durations of the running order are parseable
   where present and every story has its storyID tag, and the stories a message carries are
   like that too (payload_timing), then the same holds after the merge, whatever its outcome.
   So a history (or a collection) needs the guard in its first state only. *)
From Coq Require Import List Bool Arith NArith ZArith Lia Permutation.
Import ListNotations.
From Mos Require Import Str Xml Outcome Seq Spec Elements Classify Messages Merge Collection Proto.
From Mos.proofs Require Import ListFacts SeqFacts MoveFacts XmlFacts StoryOrder Lift Atomic WfFacts Clean
     Warn Frame ItemFacts Others StoryStable NoDupFacts CollFacts.

(* ---- an invariant principle for predicates on the children of roCreate that only look at
   the non-item children of a story (not recursive, unlike Inv.merge_kids_inv) *)
Section Principle.
Variable o : oracles.
Variable Q : xml -> bool.
Variables (k : mclass) (m b rc : xml).
(* what the item-level edit of this message does to the story it is applied to *)
Hypothesis Q_item_edit : forall i s f,
  item_edit k m b = Some f -> find_story (addressed_story k b) (kids_of rc) = FFound i ->
  nth_error (kids_of rc) i = Some s -> has_tag t_story s = true -> Q s = true ->
  Q (set_kids s (r_st (f (kids_of s)))) = true.

Theorem merge_kids_inv_gen :
  forallb Q (kids_of rc) = true ->
  forallb Q (story_payload k b) = true ->
  (k = MetaDataReplace -> forallb Q (kids_of b) = true) ->
  forallb Q (r_st (merge_kids o k m b rc)) = true.
Proof.
  intros Hk Hsp Hmd. set (kids := kids_of rc) in *.
  destruct (is_item_class k) eqn:Hitem.
  { destruct (item_merge_cases o k m b rc Hitem) as [->|(i & s & f & Hf & Hfs & Hn & Ht & ->)]; [assumption|].
    apply forallb_update_nth; [assumption|]. intros x Hx. unfold kids in *. rewrite Hn in Hx. injection Hx as <-.
    apply (Q_item_edit i s f); try assumption.
    rewrite forallb_forall in Hk. apply Hk. eapply nth_error_In; eauto. }
  assert (Hfrom_story : forall new l', forallb Q new = true -> from new kids l' -> forallb Q l' = true).
  { intros new l' Hn Hf. apply (forallb_from _ new kids l'); auto. }
  unfold merge_kids. fold kids.
  destruct k; try discriminate Hitem; cbn [r_st ok story_payload] in *.
  - assumption.
  - destruct (convert_story_send b) as [s|] eqn:Ec; [|assumption].
    destruct (find_story (story_id s) kids) as [i| |] eqn:E; [|destruct (msg_id_exn m); assumption|assumption].
    cbn [r_st ok]. unfold find_story in E. destruct (story_id s) as [t|] eqn:Et; [|discriminate].
    pose proof (gen_replace_from skey str_eqb str_eqb_eq None (Some t) [s] kids) as [Hf _].
    unfold gen_replace in Hf. rewrite E in Hf. cbn [r_st ok] in Hf.
    apply (Hfrom_story [s]); assumption.
  - rewrite forallb_app, Hk. assumption.
  - apply (Hfrom_story []); [reflexivity | apply delete_loop_from].
  - destruct (find_story (first_story_id b) kids); [|destruct (msg_id_exn m); assumption|assumption].
    destruct (ro_stories_err o rc); [assumption|].
    apply (Hfrom_story (carried t_story b)); [assumption | apply insert_dups_from].
  - destruct (story_move_source b); [|destruct (msg_id_exn m); assumption].
    apply (Hfrom_story []); [reflexivity|].
    apply (perm_from skey). apply (gen_move_total skey str_eqb str_eqb_eq).
  - destruct (find_story (first_story_id b) kids) as [i| |] eqn:E;
      [|destruct (msg_id_exn m); assumption|assumption].
    destruct (carried t_story b) as [|n0 nr] eqn:Ecar; [destruct (msg_id_exn m); assumption|].
    cbn [r_st ok]. unfold find_story in E. destruct (first_story_id b) as [t|]; [|discriminate].
    pose proof (gen_replace_from skey str_eqb str_eqb_eq None (Some t) (n0 :: nr) kids) as [Hf _].
    unfold gen_replace in Hf. rewrite E in Hf. cbn [r_st ok] in Hf.
    apply (Hfrom_story (n0 :: nr)); assumption.
  - assumption.
  - apply (Hfrom_story (kids_of b)); [apply Hmd; reflexivity | apply md_loop_from].
  - assumption.
  - assumption.
  - apply (Hfrom_story (ea_carried t_story b)); [assumption|].
    apply (gen_replace_from skey str_eqb str_eqb_eq).
  - apply (Hfrom_story []); [reflexivity | apply delete_loop_from].
  - destruct (locate_target skey str_eqb (ea_target_id t_storyID b) kids);
      try (destruct (msg_id_exn m); assumption); try assumption.
    + destruct (ro_stories_err o rc); [assumption|].
      apply (Hfrom_story (ea_carried t_story b)); [assumption | apply insert_dups_from].
    + destruct (ro_stories_err o rc); [assumption|].
      apply (Hfrom_story (ea_carried t_story b)); [assumption | apply insert_dups_from].
  - apply (Hfrom_story []); [reflexivity|].
    apply (perm_from skey). apply (gen_swap_total skey str_eqb str_eqb_eq).
  - apply (Hfrom_story []); [reflexivity|].
    apply (perm_from skey). apply (gen_move_total skey str_eqb str_eqb_eq).
Qed.
End Principle.

(* the special case of predicates that only look at the non-item children of a story *)
Section Flat.
Variable o : oracles.
Variable Q : xml -> bool.
Hypothesis Q_items : forall s s', has_tag t_story s = true -> same_but_items s s' -> Q s = true -> Q s' = true.
Theorem merge_kids_inv_flat k m b rc :
  forallb Q (kids_of rc) = true ->
  forallb Q (story_payload k b) = true ->
  (k = MetaDataReplace -> forallb Q (kids_of b) = true) ->
  forallb Q (r_st (merge_kids o k m b rc)) = true.
Proof.
  apply merge_kids_inv_gen. intros i s f Hf _ _ Ht Hq.
  apply (Q_items s); [assumption | | assumption].
  exists (r_st (f (kids_of s))). split; [reflexivity|]. now apply (item_edit_others k m b).
Qed.
End Flat.

(* ---- the guard as a boolean *)
Section Guard.
Variable o : oracles.

Definition start_elem_ok (e : xml) : bool :=
  match text_of e with
  | None => true
  | Some s => match parse_time o s with Some _ => true | None => false end
  end.
Definition start_ok (kids : list xml) : bool :=
  match find t_roEdStart kids with Some e => start_elem_ok e | None => true end.
Definition story_ok (s : xml) : bool :=
  (match find t_storyID (kids_of s) with Some _ => true | None => false end) &&
  (match story_duration o s with AErr _ => false | _ => true end).
(* on any child of roCreate: stories must be fine, other children are not looked at *)
Definition child_ok (x : xml) : bool := if has_tag t_story x then story_ok x else true.
Definition kids_timing (kids : list xml) : bool := start_ok kids && forallb child_ok kids.
Definition rc_timing (rc : xml) : bool := kids_timing (kids_of rc).

Lemma forallb_child_ok_stories kids :
  forallb child_ok kids = true -> forallb story_ok (findall t_story kids) = true.
Proof.
  intros H. apply forallb_forall. intros x Hx. unfold findall in Hx. apply filter_In in Hx as [Hin Ht].
  rewrite forallb_forall in H. specialize (H x Hin). unfold child_ok in H. now rewrite Ht in H.
Qed.

Lemma offsets_from_ok stories : forall t,
  forallb story_ok stories = true ->
  match offsets_from o t stories with AErr _ => False | _ => True end.
Proof.
  induction stories as [|s r IH]; intros t H; simpl; [exact I|].
  simpl in H. apply andb_prop in H as [Hs Hr]. unfold story_ok in Hs. apply andb_prop in Hs as [Hid Hd].
  destruct (find t_storyID (kids_of s)); [|discriminate].
  destruct (story_duration o s) as [|d|e] eqn:Ed; try discriminate.
  - specialize (IH None Hr).
    replace (match t with Some _ => None | None => None end) with (@None Z) by (now destruct t).
    destruct (offsets_from o None r); auto.
  - specialize (IH (match t with Some a => Some (a + d)%Z | None => None end) Hr).
    destruct (offsets_from o _ r); auto.
Qed.

(* the boolean guard implies the guard of C12 *)
Theorem rc_timing_sound rc : rc_timing rc = true -> ro_stories_err o rc = None.
Proof.
  unfold rc_timing, kids_timing. intros H. apply andb_prop in H as [Hs Hk].
  unfold ro_stories_err, ro_stories.
  destruct (findall t_story (kids_of rc)) as [|s0 r0] eqn:Ef; [reflexivity|].
  assert (Hst : match ro_start_time o rc with AErr _ => False | _ => True end).
  { unfold ro_start_time. unfold start_ok, start_elem_ok in Hs.
    destruct (find t_roEdStart (kids_of rc)) as [e|]; [|exact I].
    destruct (text_of e) as [tx|]; [|exact I]. destruct (parse_time o tx); [exact I | discriminate]. }
  destruct (ro_start_time o rc) as [|z|e]; try contradiction.
  - pose proof (offsets_from_ok (s0 :: r0) (Some 0%Z)) as Ho. rewrite <- Ef in Ho.
    specialize (Ho (forallb_child_ok_stories _ Hk)). rewrite Ef in Ho.
    unfold story_offsets. destruct (offsets_from o (Some 0%Z) (s0 :: r0)); try contradiction; reflexivity.
  - pose proof (offsets_from_ok (s0 :: r0) (Some 0%Z)) as Ho. rewrite <- Ef in Ho.
    specialize (Ho (forallb_child_ok_stories _ Hk)). rewrite Ef in Ho.
    unfold story_offsets. destruct (offsets_from o (Some 0%Z) (s0 :: r0)); try contradiction; reflexivity.
Qed.

(* ---- stability of the per-child predicate under item-level edits *)
Lemma child_ok_items s s' : has_tag t_story s = true -> same_but_items s s' -> child_ok s = true -> child_ok s' = true.
Proof.
  intros Ht Hs H. unfold child_ok in *. rewrite Ht in H.
  pose proof Hs as (ik' & -> & Ho). rewrite has_tag_set_kids, Ht.
  unfold story_ok in *. rewrite (duration_same_but_items o s (set_kids s ik') Hs).
  rewrite kids_set_kids, (find_same_others t_storyID (kids_of s) ik' t_storyID_not_item Ho). exact H.
Qed.

(* ---- the programme start: untouched by story- and item-level merges *)
Lemma t_roEdStart_not_story : str_eqb t_roEdStart t_story = false.
Proof. vm_compute. reflexivity. Qed.

Lemma start_ok_others l l' : others skey l' = others skey l -> start_ok l' = start_ok l.
Proof.
  intros H. unfold start_ok, skey in *.
  now rewrite (find_others t_story t_storyID t_roEdStart l' t_roEdStart_not_story),
              (find_others t_story t_storyID t_roEdStart l t_roEdStart_not_story), H.
Qed.

(* roMetadataReplace: the first roEdStart afterwards is the old first one or a carried one *)
Lemma find_hd t l : find t l = hd_error (findall t l).
Proof.
  induction l as [|x l IH]; [reflexivity|]. unfold findall in *. simpl. destruct (has_tag t x); [reflexivity | exact IH].
Qed.

Lemma find_md_loop (P : xml -> Prop) t srcs : forall kids,
  str_eqb t t_mosExternalMetadata = false ->
  (forall s, In s srcs -> has_tag t s = true -> P s) ->
  (forall e, find t kids = Some e -> P e) ->
  forall e, find t (md_loop srcs kids) = Some e -> P e.
Proof.
  induction srcs as [|s r IH]; intros kids Ht Hsrc Hold e He; simpl in He; [now apply Hold|].
  eapply IH; [exact Ht | intros s' Hs'; apply Hsrc; now right | | exact He].
  clear e He. intros e He.
  destruct (has_tag t s) eqn:Hts.
  - (* s carries the tag: it becomes the first element with that tag *)
    assert (Hnm : has_tag t_mosExternalMetadata s = false).
    { destruct (has_tag t_mosExternalMetadata s) eqn:Em; [|reflexivity].
      pose proof (has_tag_two _ _ _ Hts Em) as Hc. subst. now rewrite str_eqb_refl in Ht. }
    assert (Htag : tag_of s = t) by (unfold has_tag in Hts; now apply str_eqb_eq in Hts).
    unfold md_index in He. rewrite Hnm, Htag in He.
    destruct (find_index t kids) as [i|] eqn:Ei.
    + destruct (find_index_split _ _ _ Ei) as (pre & x & post & El & <- & Hx & Hpre).
      rewrite El, replace_at_app in He.
      rewrite (find_app_first t pre s post Hts Hpre) in He. injection He as <-. apply Hsrc; [now left | assumption].
    + assert (Hnone : find t kids = None).
      { clear - Ei. induction kids as [|y l IH]; [reflexivity|]. simpl in *.
        destruct (has_tag t y); [discriminate|]. destruct (find_index t l); [discriminate | now apply IH]. }
      rewrite find_hd in He. unfold findall in He. rewrite filter_app in He. simpl in He. rewrite Hts in He.
      rewrite find_hd in Hnone. unfold findall in Hnone.
      destruct (filter (has_tag t) kids); [|discriminate]. simpl in He. injection He as <-.
      apply Hsrc; [now left | assumption].
  - (* s has another tag: the elements with tag t are not touched *)
    apply Hold. rewrite find_hd in *. rewrite <- He. f_equal.
    destruct (md_index s kids) as [i|] eqn:E.
    + assert (Hx : exists x, nth_error kids i = Some x /\ has_tag t x = false).
      { unfold md_index in E. destruct (has_tag t_mosExternalMetadata s) eqn:Em.
        - apply md_schema_index_nth in E as (x & Hn & Hx). exists x. split; [assumption|].
          destruct (has_tag t x) eqn:Es; [|reflexivity].
          pose proof (has_tag_two _ _ _ Hx Es) as Hc. subst. now rewrite str_eqb_refl in Ht.
        - apply find_index_nth in E as (x & Hn & Hx). exists x. split; [assumption|].
          destruct (has_tag t x) eqn:Es; [|reflexivity].
          pose proof (has_tag_two _ _ _ Hx Es) as Hc. unfold has_tag in Hts. rewrite Hc, str_eqb_refl in Hts. discriminate. }
      destruct Hx as (x & Hn & Hx). unfold replace_at, findall.
      rewrite (filter_insert_at (has_tag t)) by assumption.
      symmetry. now apply (filter_remove_at (has_tag t) kids i x).
    + unfold findall. rewrite filter_app. simpl. rewrite Hts. now rewrite app_nil_r.
Qed.

(* ---- what the message must carry *)
Definition payload_timing (k : mclass) (b : xml) : bool :=
  forallb child_ok (story_payload k b) &&
  match k with
  | MetaDataReplace =>
    forallb (fun x => negb (has_tag t_story x)) (kids_of b) &&
    forallb (fun x => if has_tag t_roEdStart x then start_elem_ok x else true) (kids_of b)
  | RunningOrderReplace => kids_timing (kids_of b)
  | _ => true
  end.

Theorem merge_kids_timing k m b rc :
  rc_timing rc = true -> payload_timing k b = true ->
  kids_timing (r_st (merge_kids o k m b rc)) = true.
Proof.
  unfold rc_timing, kids_timing. intros H Hp. apply andb_prop in H as [Hs Hk].
  unfold payload_timing in Hp. apply andb_prop in Hp as [Hsp Hextra].
  apply andb_true_intro. split.
  - (* the programme start *)
    destruct (is_story_class k) eqn:Hsc; [now rewrite (start_ok_others _ _ (story_merge_others o k m b rc Hsc))|].
    destruct (is_item_class k) eqn:Hic; [now rewrite (start_ok_others _ _ (item_merge_others o k m b rc Hic))|].
    unfold merge_kids. destruct k; try discriminate Hsc; try discriminate Hic; cbn [r_st ok]; try assumption.
    apply andb_prop in Hextra as [_ Hst]. unfold start_ok.
    destruct (find t_roEdStart (md_loop (kids_of b) (kids_of rc))) as [e|] eqn:Ef; [|reflexivity].
    assert (H1 : str_eqb t_roEdStart t_mosExternalMetadata = false) by (vm_compute; reflexivity).
    assert (H2 : forall s, In s (kids_of b) -> has_tag t_roEdStart s = true -> start_elem_ok s = true).
    { intros s Hin Ht. rewrite forallb_forall in Hst. specialize (Hst s Hin). now rewrite Ht in Hst. }
    assert (H3 : forall e0, find t_roEdStart (kids_of rc) = Some e0 -> start_elem_ok e0 = true).
    { intros e0 He0. unfold start_ok in Hs. now rewrite He0 in Hs. }
    exact (find_md_loop (fun e0 => start_elem_ok e0 = true) t_roEdStart (kids_of b) (kids_of rc) H1 H2 H3 e Ef).
  - (* the stories *)
    apply (merge_kids_inv_flat o child_ok child_ok_items); try assumption.
    intros ->. apply andb_prop in Hextra as [Hns _].
    apply forallb_forall. intros x Hx. rewrite forallb_forall in Hns. specialize (Hns x Hx).
    unfold child_ok. apply negb_true_iff in Hns. now rewrite Hns.
Qed.

End Guard.

(* ---- lifted to RunningOrder.__add__, to histories and to collections *)
Section LiftedTiming.
Variable o : oracles.

Definition ro_timing (ro : xml) : bool :=
  match rc_of ro with Some rc => rc_timing o rc | None => true end.
Definition msg_timing (k : mclass) (m : xml) : bool :=
  match base_of k m with Some b => payload_timing o k b | None => true end.

Lemma ro_timing_sound ro : ro_timing ro = true -> timing_ok o ro.
Proof.
  unfold ro_timing, timing_ok. destruct (rc_of ro) as [rc|]; [apply rc_timing_sound | trivial].
Qed.

Theorem add_timing ro k m :
  ro_timing ro = true -> msg_timing k m = true -> ro_timing (r_st (add o ro k m)) = true.
Proof.
  intros Ht Hm. unfold add. destruct (ro_completed ro); [assumption|].
  unfold msg_timing in Hm.
  destruct (base_of k m) as [b|] eqn:Hb; [|unfold merge; rewrite Hb; assumption].
  destruct (rc_of ro) as [rc|] eqn:Hrc.
  - destruct (edits_rc k) eqn:Hk.
    + rewrite (merge_lift o k ro m b rc Hk Hb Hrc). cbn [map_res r_st].
      unfold ro_timing. rewrite (rc_of_put_kids ro rc _ Hrc). unfold rc_timing. rewrite kids_set_kids.
      apply merge_kids_timing; [|assumption]. unfold ro_timing in Ht. now rewrite Hrc in Ht.
    + unfold merge. rewrite Hb. destruct k; try discriminate Hk.
      * unfold raise_merge. destruct (msg_id_exn m); assumption.
      * unfold rc_of in Hrc. destruct (find_index t_roCreate (kids_of ro)) as [i|] eqn:Ei; [|assumption].
        cbn [r_st ok]. unfold ro_timing, rc_of. rewrite kids_set_kids.
        destruct (find_index_split _ _ _ Ei) as (pre & e & post & El & <- & He & Hpre).
        rewrite El, replace_at_app.
        rewrite (find_app_first t_roCreate pre _ post (has_tag_set_tag _ _) Hpre).
        unfold rc_timing. rewrite kids_set_tag.
        unfold payload_timing in Hm. now apply andb_prop in Hm as [_ Hm].
      * cbn [r_st ok]. unfold ro_timing, rc_of in *. rewrite kids_set_kids.
        rewrite (find_app_found _ _ _ _ Hrc). now rewrite Hrc in Ht.
  - (* no roCreate: nothing a merge does creates one *)
    unfold merge. rewrite Hb. unfold rc_of in Hrc.
    assert (Hidx : find_index t_roCreate (kids_of ro) = None).
    { clear - Hrc. induction (kids_of ro) as [|y l IH]; [reflexivity|]. simpl in *.
      destruct (has_tag t_roCreate y); [discriminate|]. now rewrite IH. }
    destruct k; try (rewrite Hrc; assumption); try (rewrite Hidx; assumption).
    + unfold raise_merge. destruct (msg_id_exn m); assumption.
    + cbn [r_st ok]. unfold ro_timing, rc_of. rewrite kids_set_kids.
      assert (Hf : find t_roCreate (kids_of ro ++ [Elem t_mosromgrmeta [] None None [b]]) = None).
      { clear - Hrc. induction (kids_of ro) as [|y l IH]; [reflexivity|]. simpl in *.
        destruct (has_tag t_roCreate y); [discriminate|]. now apply IH. }
      now rewrite Hf.
Qed.

Definition reader_timing (r : reader) : bool := msg_timing (rd_class r) (rd_doc r).

(* the guard in the first state and in what the messages carry gives the guard in every state *)
Theorem timing_along_from_start rs : forall s,
  ro_timing s = true -> forallb reader_timing rs = true -> timing_along o rs s.
Proof.
  induction rs as [|rd rest IH]; intros s Hs Hr; [exact I|].
  simpl in Hr. apply andb_prop in Hr as [Hrd Hrest]. split; [now apply ro_timing_sound|].
  apply IH; [|assumption]. unfold step. now apply add_timing.
Qed.

End LiftedTiming.
