(* Others.v — every generic edit of Seq.v leaves the un-keyed children ("others": in a story,
   everything that is not an <item>; in roCreate, everything that is not a <story>) exactly as
   they were, in the same order - whatever the message says, whether the edit succeeds, warns
   or raises, and whatever evaluating the message ID does.  No hypothesis on the list. *)
From Coq Require Import List Bool Arith Lia Permutation.
Import ListNotations.
From Mos Require Import Str Xml Outcome Seq Spec.
From Mos.proofs Require Import ListFacts SeqFacts MoveFacts.

(* ---- filters and the list primitives *)
Section Filter.
Context {A : Type}.
Variable f : A -> bool.

Lemma filter_firstn_skipn i (l : list A) : filter f (firstn i l) ++ filter f (skipn i l) = filter f l.
Proof. rewrite <- filter_app. now rewrite firstn_skipn. Qed.

Lemma filter_insert_at i x (l : list A) : f x = false -> filter f (insert_at i x l) = filter f l.
Proof.
  intros Hx. unfold insert_at. rewrite filter_app. simpl. rewrite Hx. apply filter_firstn_skipn.
Qed.

Lemma filter_insert_loop xs : forall i (l : list A),
  (forall x, In x xs -> f x = false) -> filter f (insert_loop i xs l) = filter f l.
Proof.
  induction xs as [|x xs IH]; intros i l H; simpl; [reflexivity|].
  rewrite IH by (intros y Hy; apply H; now right).
  apply filter_insert_at. apply H. now left.
Qed.

Lemma filter_remove_at (l : list A) : forall i x,
  nth_error l i = Some x -> f x = false -> filter f (remove_at i l) = filter f l.
Proof.
  induction l as [|y l IH]; intros [|i] x Hn Hx; simpl in *; try discriminate.
  - injection Hn as ->. now rewrite Hx.
  - destruct (f y); [f_equal|]; eapply IH; eauto.
Qed.

Lemma nth_error_remove_at_lt (l : list A) : forall lo hi,
  lo < hi -> nth_error (remove_at hi l) lo = nth_error l lo.
Proof.
  induction l as [|y l IH]; intros lo hi H; [now destruct hi|].
  destruct hi as [|hi]; [lia|]. destruct lo as [|lo]; simpl; [reflexivity|]. apply IH. lia.
Qed.

Lemma filter_swap_nodes i j (l : list A) a b :
  i <> j -> nth_error l i = Some a -> nth_error l j = Some b -> f a = false -> f b = false ->
  filter f (swap_nodes i j l) = filter f l.
Proof.
  intros Hij Ha Hb Hfa Hfb. unfold swap_nodes.
  assert (Hcases : (Nat.min i j = i /\ Nat.max i j = j /\ i < j) \/ (Nat.min i j = j /\ Nat.max i j = i /\ j < i)) by lia.
  destruct Hcases as [(-> & -> & Hlt)|(-> & -> & Hlt)].
  - rewrite Ha, Hb. rewrite !filter_insert_at by assumption.
    rewrite (filter_remove_at _ i a); [| now rewrite nth_error_remove_at_lt | assumption].
    now apply (filter_remove_at _ j b).
  - rewrite Ha, Hb. rewrite !filter_insert_at by assumption.
    rewrite (filter_remove_at _ j b); [| now rewrite nth_error_remove_at_lt | assumption].
    now apply (filter_remove_at _ i a).
Qed.

Lemma filter_filter_weaker (h : A -> bool) (l : list A) :
  (forall x, In x l -> h x = false -> f x = false) -> filter f (filter h l) = filter f l.
Proof.
  induction l as [|x l IH]; intros H; simpl; [reflexivity|].
  destruct (h x) eqn:Eh; simpl.
  - destruct (f x); [f_equal|]; apply IH; intros y Hy; apply H; now right.
  - rewrite (H x (or_introl eq_refl) Eh). apply IH. intros y Hy. apply H. now right.
Qed.

Lemma filter_map_snd {B} (il : list (B * A)) :
  filter f (map snd il) = map snd (filter (fun p => f (snd p)) il).
Proof.
  induction il as [|p il IH]; simpl; [reflexivity|]. destruct (f (snd p)); simpl; now rewrite IH.
Qed.
End Filter.

Section Others.
Context {A K : Type}.
Variable kof : A -> kres K.
Variable keqb : K -> K -> bool.
Hypothesis keqb_eq : forall a b, keqb a b = true <-> a = b.

Notation lookup := (lookup kof keqb).
Notation others := (others kof).
Notation is_keyed := (is_keyed kof).
Notation unk := (fun x => negb (is_keyed x)).

Lemma others_filter l : others l = filter unk l.
Proof. reflexivity. Qed.

Lemma keyed_unk x : is_keyed x = true -> unk x = false.
Proof. intros H. cbv beta. now rewrite H. Qed.

(* the element a lookup finds is keyed *)
Lemma lookup_found_nth_keyed id l i :
  lookup id l = FFound i -> exists x, nth_error l i = Some x /\ is_keyed x = true.
Proof.
  destruct id as [s|]; [|discriminate]. intros H.
  destruct (lookup_found_nth kof keqb keqb_eq s l i H) as (y & Hy & Hk).
  exists y. split; [assumption|]. unfold Seq.is_keyed. now rewrite Hk.
Qed.

(* ---- delete *)
Lemma delete_loop_others mex w ids : forall l,
  others (r_st (delete_loop kof keqb mex w ids l)) = others l.
Proof.
  induction ids as [|id ids IH]; intros l; simpl; [reflexivity|].
  destruct (lookup id l) as [i| |] eqn:E; [| |reflexivity].
  - rewrite IH. destruct (lookup_found_nth_keyed _ _ _ E) as (x & Hx & Hk).
    apply (filter_remove_at _ l i x Hx). now apply keyed_unk.
  - unfold bind, emit. cbn [r_err r_st]. apply IH.
Qed.

(* ---- inserts *)
Lemma insert_loop_others i new l :
  all_keyed kof new = true -> others (insert_loop i new l) = others l.
Proof.
  intros H. apply filter_insert_loop. intros x Hx. apply keyed_unk.
  unfold all_keyed in H. rewrite forallb_forall in H. now apply H.
Qed.

Lemma gen_insert_others mex tgt new l :
  all_keyed kof new = true -> others (r_st (gen_insert kof keqb mex tgt new l)) = others l.
Proof.
  intros H. unfold gen_insert. destruct (locate_target kof keqb tgt l); cbn [r_st ok fail raise_merge];
    try reflexivity; now apply insert_loop_others.
Qed.

Lemma gen_replace_others mex tgt new l :
  all_keyed kof new = true -> others (r_st (gen_replace kof keqb mex tgt new l)) = others l.
Proof.
  intros H. unfold gen_replace. destruct (lookup tgt l) as [i| |] eqn:E; cbn [r_st ok fail raise_merge];
    try reflexivity.
  unfold replace_with. rewrite insert_loop_others by assumption.
  destruct (lookup_found_nth_keyed _ _ _ E) as (x & Hx & Hk).
  apply (filter_remove_at _ l i x Hx). now apply keyed_unk.
Qed.

Lemma insert_dups_others mex (id_of : A -> option K) okeqb w new : forall seen i l,
  all_keyed kof new = true ->
  others (r_st (insert_dups mex id_of okeqb w seen i new l)) = others l.
Proof.
  induction new as [|s r IH]; intros seen i l H; simpl; [reflexivity|].
  simpl in H. apply andb_prop in H as [Hs Hr].
  destruct (existsb (okeqb (id_of s)) seen).
  - unfold bind, emit. cbn [r_err r_st]. now apply IH.
  - rewrite IH by assumption. apply filter_insert_at. now apply keyed_unk.
Qed.

(* ---- moves *)
Lemma move_before_others ps tp l r :
  (forall p, In p ps -> exists x, nth_error l p = Some x /\ is_keyed x = true) ->
  move_before ps tp l = Some r -> others r = others l.
Proof.
  intros Hps Hm. unfold move_before in Hm.
  set (rest := without ps (tagl l)) in *. set (moved := pick ps l) in *.
  assert (Hmoved : forall q, In q moved -> unk (snd q) = false).
  { intros q Hq. unfold moved, pick in Hq. apply in_flat_map in Hq as (p & Hp & Hq).
    destruct (Hps p Hp) as (x & Hx & Hk). rewrite Hx in Hq. destruct Hq as [<-|[]]. now apply keyed_unk. }
  assert (Hrest : filter (fun q => unk (snd q)) rest = filter (fun q => unk (snd q)) (tagl l)).
  { unfold rest, without. apply filter_filter_weaker. intros [p x] Hin Hh. simpl in *.
    apply negb_false_iff in Hh. apply memn_true in Hh.
    destruct (Hps p Hh) as (y & Hy & Hk).
    rewrite tagl_eq in Hin. apply in_tagl in Hin as [_ Hin]. rewrite Nat.sub_0_r in Hin.
    rewrite Hy in Hin. injection Hin as <-. now apply keyed_unk. }
  assert (Hfin : forall k, others (map snd (insert_loop k moved rest)) = others l).
  { intros k. rewrite others_filter, filter_map_snd.
    rewrite (filter_insert_loop (fun q => unk (snd q)) moved k rest Hmoved), Hrest.
    rewrite tagl_eq. pose proof (filter_map_snd unk (tagl_from 0 l)) as Hx. cbv beta in Hx.
    rewrite <- Hx. now rewrite map_snd_tagl. }
  destruct tp as [t|].
  - destruct (pos_of t rest); [|discriminate]. injection Hm as <-. apply Hfin.
  - injection Hm as <-. apply Hfin.
Qed.

Lemma validated_keyed tp ids l : forall acc ps,
  (forall p, In p acc -> exists x, nth_error l p = Some x /\ is_keyed x = true) ->
  validate_sources kof keqb tp acc ids l = VOk ps ->
  forall p, In p ps -> exists x, nth_error l p = Some x /\ is_keyed x = true.
Proof.
  induction ids as [|id ids IH]; intros acc ps Hacc Hv; simpl in Hv.
  - injection Hv as <-. intros p Hp. apply Hacc. now apply in_rev.
  - destruct (lookup id l) as [q| |] eqn:E; try discriminate.
    destruct ((match tp with Some t => Nat.eqb q t | None => false end) || memn q acc); [discriminate|].
    eapply IH; [|exact Hv]. intros p [<-|Hp]; [|now apply Hacc].
    now apply (lookup_found_nth_keyed id l).
Qed.

Lemma gen_move_others mex tgt srcs l :
  others (r_st (gen_move kof keqb mex tgt srcs l)) = others l.
Proof.
  unfold gen_move.
  destruct (locate_target kof keqb tgt l) as [|i| |]; cbn [r_st fail raise_merge ok]; try reflexivity.
  - destruct (validate_sources kof keqb None [] srcs l) as [ps| |] eqn:Ev; cbn [r_st fail raise_merge ok]; try reflexivity.
    destruct (move_before ps None l) as [l'|] eqn:Em; cbn [r_st fail ok]; [|reflexivity].
    eapply move_before_others; [|exact Em]. eapply validated_keyed; [|exact Ev]. intros p [].
  - destruct (validate_sources kof keqb (Some i) [] srcs l) as [ps| |] eqn:Ev; cbn [r_st fail raise_merge ok]; try reflexivity.
    destruct (move_before ps (Some i) l) as [l'|] eqn:Em; cbn [r_st fail ok]; [|reflexivity].
    eapply move_before_others; [|exact Em]. eapply validated_keyed; [|exact Ev]. intros p [].
Qed.

Lemma gen_swap_others mex ids l :
  others (r_st (gen_swap kof keqb mex ids l)) = others l.
Proof.
  unfold gen_swap. destruct ids as [|a [|b [|c r]]]; cbn [r_st raise_merge fail]; try reflexivity.
  destruct (lookup a l) as [i| |] eqn:Ea; cbn [r_st raise_merge fail]; try reflexivity.
  destruct (lookup b l) as [j| |] eqn:Eb; cbn [r_st raise_merge fail]; try reflexivity.
  destruct (Nat.eqb i j) eqn:Eij; cbn [r_st raise_merge fail ok]; [reflexivity|].
  apply Nat.eqb_neq in Eij.
  destruct (lookup_found_nth_keyed _ _ _ Ea) as (x & Hx & Hkx).
  destruct (lookup_found_nth_keyed _ _ _ Eb) as (y & Hy & Hky).
  apply (filter_swap_nodes _ i j l x y Eij Hx Hy); now apply keyed_unk.
Qed.

End Others.
