(* CodecFacts.v — C14: the serialiser / parser pair round-trips every well-formed tree. *)
From Coq Require Import List NArith Arith Bool Lia.
Import ListNotations.
From Mos Require Import Str Xml Codec.
Local Open Scope N_scope.

(* text without U+000D (the serialiser writes it raw and the parser reads it back as U+000A) *)
Definition text_ok (x : str) : bool := forallb (fun c => negb (c =? 13)) x.

Definition stops (rest : str) : Prop := rest = [] \/ exists r, rest = LT :: r.

Lemma ptext_stop rest : stops rest -> ptext rest = Some ([], rest).
Proof. intros [->|[r ->]]; reflexivity. Qed.

Lemma ptext_esc x : text_ok x = true -> forall rest, stops rest -> ptext (esc_text x ++ rest) = Some (x, rest).
Proof.
  induction x as [|c x IH]; intros Hok rest Hs; simpl.
  - apply ptext_stop; assumption.
  - simpl in Hok. apply andb_true_iff in Hok as [Hc Hok]. apply negb_true_iff in Hc.
    specialize (IH Hok). unfold esc_text_ch.
    destruct (c =? AMP) eqn:Ea; [apply N.eqb_eq in Ea; subst c; simpl; unfold esc_text in IH; rewrite IH by assumption; reflexivity|].
    destruct (c =? LT) eqn:El; [apply N.eqb_eq in El; subst c; simpl; unfold esc_text in IH; rewrite IH by assumption; reflexivity|].
    destruct (c =? GT) eqn:Eg; [apply N.eqb_eq in Eg; subst c; simpl; unfold esc_text in IH; rewrite IH by assumption; reflexivity|].
    cbn [app ptext]. rewrite El, Ea, Hc. unfold esc_text in IH. rewrite IH by assumption. reflexivity.
Qed.

Lemma pattrval_esc v : forall rest, pattrval (esc_attr v ++ QUOT :: rest) = Some (v, rest).
Proof.
  induction v as [|c v IH]; intros rest; simpl; [reflexivity|].
  unfold esc_attr_ch. unfold esc_attr in IH.
  destruct (c =? AMP) eqn:Ea; [apply N.eqb_eq in Ea; subst c; simpl; rewrite IH; reflexivity|].
  destruct (c =? LT) eqn:El; [apply N.eqb_eq in El; subst c; simpl; rewrite IH; reflexivity|].
  destruct (c =? GT) eqn:Eg; [apply N.eqb_eq in Eg; subst c; simpl; rewrite IH; reflexivity|].
  destruct (c =? QUOT) eqn:Eq; [apply N.eqb_eq in Eq; subst c; simpl; rewrite IH; reflexivity|].
  destruct (c =? 13) eqn:E13; [apply N.eqb_eq in E13; subst c; simpl; rewrite IH; reflexivity|].
  destruct (c =? 10) eqn:E10; [apply N.eqb_eq in E10; subst c; simpl; rewrite IH; reflexivity|].
  destruct (c =? 9) eqn:E9; [apply N.eqb_eq in E9; subst c; simpl; rewrite IH; reflexivity|].
  cbn [app pattrval]. rewrite Eq, El, Ea, IH. reflexivity.
Qed.

Definition wf_name (n : str) : bool := match n with [] => false | _ => forallb name_ch n end.

Lemma pname_wf n : forallb name_ch n = true -> forall c r, name_ch c = false -> pname (n ++ c :: r) = (n, c :: r).
Proof.
  induction n as [|a n IH]; intros H c r Hc; simpl.
  - rewrite Hc. reflexivity.
  - simpl in H. apply andb_true_iff in H as [Ha Hn]. rewrite Ha, (IH Hn c r Hc). reflexivity.
Qed.

Lemma strip_prefix_app p r : strip_prefix p (p ++ r) = Some r.
Proof. induction p as [|a p IH]; simpl; [reflexivity|]. rewrite N.eqb_refl. exact IH. Qed.

Definition wf_attr (kv : str * str) : bool := wf_name (fst kv).

(* what may follow the attribute list *)
Definition after_attrs (rest : str) : Prop := (exists r, rest = SP :: SL :: r) \/ (exists r, rest = GT :: r).

Lemma pattrs_end f rest : after_attrs rest -> pattrs (S f) rest = Some ([], rest).
Proof. intros [[r ->]|[r ->]]; reflexivity. Qed.

Lemma wf_name_head n : wf_name n = true -> exists a n', n = a :: n' /\ name_ch a = true /\ forallb name_ch n = true.
Proof.
  destruct n as [|a n']; [discriminate|]. intros H. exists a, n'. split; [reflexivity|].
  unfold wf_name in H. split; [|exact H]. simpl in H. apply andb_true_iff in H. tauto.
Qed.

Lemma name_ch_not a c : name_ch a = true -> name_ch c = false -> (c =? a) = false.
Proof. intros Ha Hc. apply N.eqb_neq. intros ->. congruence. Qed.

Lemma pattrs_unfold f s : pattrs (S f) s =
    match strip_prefix [SP; SL] s with
    | Some _ => Some ([], s)
    | None =>
      match strip_prefix [SP] s with
      | None => Some ([], s)
      | Some r =>
        let (k, r1) := pname r in
        match k with
        | [] => None
        | _ =>
          match strip_prefix [EQ; QUOT] r1 with
          | None => None
          | Some r2 =>
            match pattrval r2 with
            | Some (v, r3) => match pattrs f r3 with Some (l, r4) => Some ((k, v) :: l, r4) | None => None end
            | None => None
            end
          end
        end
      end
    end.
Proof. reflexivity. Qed.

Lemma pattrs_ser attrs : forallb wf_attr attrs = true -> forall f rest, after_attrs rest ->
  (length attrs <= f)%nat -> pattrs (S f) (flat_map ser_attr attrs ++ rest) = Some (attrs, rest).
Proof.
  induction attrs as [|[k v] attrs IH]; intros Hwf f rest Hr Hf.
  - simpl. apply pattrs_end; assumption.
  - simpl in Hwf. apply andb_true_iff in Hwf as [Hk Hwf]. unfold wf_attr in Hk. cbn [fst] in Hk.
    destruct (wf_name_head k Hk) as (a & k' & -> & Ha & Hall).
    destruct f as [|f]; [simpl in Hf; lia|].
    cbn [flat_map]. unfold ser_attr at 1. cbn [fst snd]. rewrite <- !app_assoc. cbn [app].
    rewrite pattrs_unfold. cbn [strip_prefix].
    change (SP =? SP) with true. cbv iota.
    rewrite (name_ch_not a SL Ha eq_refl).
    assert (Hp : pname (a :: k' ++ EQ :: QUOT :: esc_attr v ++ QUOT :: flat_map ser_attr attrs ++ rest)
                 = (a :: k', EQ :: QUOT :: esc_attr v ++ QUOT :: flat_map ser_attr attrs ++ rest)).
    { apply (pname_wf (a :: k') Hall EQ). reflexivity. }
    rewrite Hp. cbn [strip_prefix]. change (EQ =? EQ) with true. change (QUOT =? QUOT) with true. cbv iota.
    rewrite pattrval_esc, (IH Hwf f rest Hr) by (simpl in Hf; lia). reflexivity.
Qed.

(* ---------- well-formedness and the main theorem *)
Definition wf_otext (t : option str) : bool :=
  match t with Some [] => false | Some x => text_ok x | None => true end.

Fixpoint wf_xml (e : xml) : bool :=
  match e with
  | Elem tag attrs text tail kids =>
    wf_name tag && forallb wf_attr attrs && wf_otext text && wf_otext tail && forallb wf_xml kids
  end.

Fixpoint depth (e : xml) : nat :=
  match e with Elem _ _ _ _ kids => S (fold_right (fun k m => Nat.max (depth k) m) O kids) end.

Lemma otext_ser t : wf_otext t = true -> forall rest, stops rest ->
  ptext (ser_otext t ++ rest) = Some (match t with None => [] | Some x => x end, rest) /\
  otext (match t with None => [] | Some x => x end) = t.
Proof.
  intros H rest Hs. destruct t as [x|]; simpl.
  - split; [apply ptext_esc; [destruct x; [discriminate | exact H] | assumption]|]. destruct x; [discriminate|reflexivity].
  - split; [apply ptext_stop; assumption|reflexivity].
Qed.

Lemma ser_starts e : wf_xml e = true -> exists a r, ser e = LT :: a :: r /\ name_ch a = true.
Proof.
  destruct e as [tag attrs text tail kids]. simpl. intros H.
  repeat (apply andb_true_iff in H as [H ?]).
  destruct (wf_name_head tag H) as (a & n' & -> & Ha & _). exists a. eexists. split; [reflexivity|exact Ha].
Qed.

Lemma stops_app_ser e rest : wf_xml e = true -> stops (ser e ++ rest).
Proof. intros H. destruct (ser_starts e H) as (a & r & -> & _). right. eexists. reflexivity. Qed.

Lemma pkids_ser (pe : str -> option (xml * str)) kids :
  Forall (fun k => wf_xml k = true /\ forall rest, stops rest -> pe (ser k ++ rest) = Some (k, rest)) kids ->
  forall g rest, (length kids < g)%nat -> (exists r, rest = LT :: SL :: r) ->
  pkids pe g (flat_map ser kids ++ rest) = Some (kids, rest).
Proof.
  induction 1 as [|k kids [Hwf Hk] Htl IH]; intros g rest Hg [r ->].
  - destruct g; [lia|]. reflexivity.
  - destruct g as [|g]; [simpl in Hg; lia|].
    cbn [flat_map]. rewrite <- app_assoc. cbn [pkids].
    assert (Hsp : forall X, strip_prefix [LT; SL] (ser k ++ X) = None).
    { intros X. destruct (ser_starts k Hwf) as (a & q & Hs & Ha). rewrite Hs. cbn [app strip_prefix].
      change (LT =? LT) with true. cbv iota. rewrite (name_ch_not a SL Ha eq_refl). reflexivity. }
    rewrite Hsp.
    assert (Hst : stops (flat_map ser kids ++ LT :: SL :: r)).
    { destruct kids as [|k2 kids2]; [right; eexists; reflexivity|].
      cbn [flat_map]. rewrite <- app_assoc. apply stops_app_ser.
      inversion Htl as [|? ? [Hw _] _]; exact Hw. }
    rewrite (Hk _ Hst). rewrite IH; [reflexivity|simpl in Hg; lia|eexists; reflexivity].
Qed.

Lemma length_flat_ser kids : Forall (fun k => wf_xml k = true) kids -> (length kids <= length (flat_map ser kids))%nat.
Proof.
  induction 1 as [|k kids Hk _ IH]; simpl; [lia|].
  destruct (ser_starts k Hk) as (a & r & -> & _). rewrite app_length. simpl. lia.
Qed.

Lemma length_ser_attr kv : (1 <= length (ser_attr kv))%nat.
Proof. unfold ser_attr. rewrite !app_length. cbn [length]. lia. Qed.

Lemma length_flat_attr attrs : (length attrs <= length (flat_map ser_attr attrs))%nat.
Proof.
  induction attrs as [|kv attrs IH]; cbn [flat_map length]; [lia|].
  rewrite app_length. pose proof (length_ser_attr kv). lia.
Qed.

Section Ind.
  Variable P : xml -> Prop.
  Hypothesis H : forall tag attrs text tail kids, Forall P kids -> P (Elem tag attrs text tail kids).
  Fixpoint xml_ind' (e : xml) : P e :=
    match e with
    | Elem tag attrs text tail kids =>
      H tag attrs text tail kids
        ((fix go (l : list xml) : Forall P l :=
            match l with [] => Forall_nil P | k :: r => Forall_cons k (xml_ind' k) (go r) end) kids)
    end.
End Ind.

Definition body_of (tag : str) (text : option str) (kids : list xml) : str :=
  if falsy text && match kids with [] => true | _ => false end then [SP; SL; GT]
  else [GT] ++ ser_otext text ++ flat_map ser kids ++ [LT; SL] ++ tag ++ [GT].

Lemma ser_shape tag attrs text tail kids rest :
  ser (Elem tag attrs text tail kids) ++ rest =
  LT :: tag ++ (flat_map ser_attr attrs ++ (body_of tag text kids ++ (ser_otext tail ++ rest))).
Proof. cbn [ser]. unfold body_of. rewrite <- !app_assoc. reflexivity. Qed.

Lemma pelem_unfold f s : pelem (S f) s =
    match strip_prefix [LT] s with
    | None => None
    | Some r =>
      let (tag, r1) := pname r in
      match tag with [] => None | _ =>
      match pattrs (S (length r1)) r1 with
      | None => None
      | Some (attrs, r2) =>
        match strip_prefix [SP; SL; GT] r2 with
        | Some r3 =>
          match ptext r3 with
          | Some (tl, r4) => Some (Elem tag attrs None (otext tl) [], r4)
          | None => None
          end
        | None =>
          match strip_prefix [GT] r2 with
          | None => None
          | Some r3 =>
            match ptext r3 with
            | None => None
            | Some (tx, r4) =>
              match pkids (pelem f) (S (length r4)) r4 with
              | None => None
              | Some (kids, r5) => pclose tag attrs tx kids r5
              end
            end
          end
        end
      end end
    end.
Proof. reflexivity. Qed.

Theorem pelem_ser e : wf_xml e = true ->
  forall fuel rest, (depth e <= fuel)%nat -> stops rest -> pelem fuel (ser e ++ rest) = Some (e, rest).
Proof.
  induction e as [tag attrs text tail kids IH] using xml_ind'.
  intros Hwf fuel rest Hfuel Hrest.
  cbn [wf_xml] in Hwf.
  apply andb_true_iff in Hwf as [Hwf Hkids]. apply andb_true_iff in Hwf as [Hwf Htail].
  apply andb_true_iff in Hwf as [Hwf Htext]. apply andb_true_iff in Hwf as [Htag Hattrs].
  destruct fuel as [|f]; [simpl in Hfuel; lia|].
  destruct (wf_name_head tag Htag) as (a & tag' & Etag & Ha & Hall). subst tag.
  rewrite ser_shape, pelem_unfold. cbn [strip_prefix]. change (LT =? LT) with true. cbv iota.
  assert (Hafter : after_attrs (body_of (a :: tag') text kids ++ ser_otext tail ++ rest)).
  { unfold body_of. destruct (falsy text && _); [left|right]; eexists; reflexivity. }
  assert (Hn : exists c q, flat_map ser_attr attrs ++ body_of (a :: tag') text kids ++ ser_otext tail ++ rest = c :: q /\ name_ch c = false).
  { destruct attrs as [|[k v] attrs']; cbn [flat_map app].
    - destruct Hafter as [[r ->]|[r ->]]; do 2 eexists; split; reflexivity.
    - unfold ser_attr at 1. cbn [app]. do 2 eexists; split; reflexivity. }
  destruct Hn as (c & q & Hq & Hc).
  rewrite Hq, (pname_wf (a :: tag') Hall c q Hc), <- Hq. cbv iota.
  rewrite (pattrs_ser attrs Hattrs _ _ Hafter)
    by (rewrite app_length; pose proof (length_flat_attr attrs); lia).
  unfold body_of at 1 2. clear Hafter Hq Hc.
  destruct (falsy text && match kids with [] => true | _ => false end) eqn:Eshort.
  - apply andb_true_iff in Eshort as [Ef Ek]. destruct kids; [|discriminate].
    assert (text = None) as -> by (destruct text as [[|]|]; simpl in *; congruence).
    cbn [app strip_prefix]. change (SP =? SP) with true. change (SL =? SL) with true. change (GT =? GT) with true. cbv iota.
    destruct (otext_ser tail Htail rest Hrest) as [-> ->]. reflexivity.
  - rewrite <- !app_assoc. cbn [app strip_prefix]. change (SP =? GT) with false. change (GT =? GT) with true. cbv iota.
    assert (Hwfk : Forall (fun k => wf_xml k = true) kids) by (apply Forall_forall; apply forallb_forall; exact Hkids).
    assert (Hst : stops (flat_map ser kids ++ LT :: SL :: a :: tag' ++ GT :: ser_otext tail ++ rest)).
    { destruct kids as [|k2 kids2]; [right; eexists; reflexivity|].
      cbn [flat_map]. rewrite <- app_assoc. apply stops_app_ser. inversion Hwfk; assumption. }
    destruct (otext_ser text Htext _ Hst) as [Hpt Hot]. rewrite Hpt.
    rewrite (pkids_ser (pelem f) kids).
    + unfold pclose.
      replace (LT :: SL :: a :: tag' ++ GT :: ser_otext tail ++ rest)
        with (([LT; SL] ++ (a :: tag') ++ [GT]) ++ ser_otext tail ++ rest)
        by (cbn [app]; rewrite <- app_assoc; reflexivity).
      rewrite strip_prefix_app.
      destruct (otext_ser tail Htail rest Hrest) as [-> ->]. rewrite Hot. reflexivity.
    + assert (Hd : Forall (fun k => (depth k <= f)%nat) kids).
      { cbn [depth] in Hfuel. apply Forall_forall. intros k Hin.
        assert (depth k <= fold_right (fun k m => Nat.max (depth k) m) O kids)%nat.
        { clear -Hin. induction kids as [|k' kids IHk]; [destruct Hin|]. simpl. destruct Hin as [->|Hin]; [lia|].
          specialize (IHk Hin). lia. }
        lia. }
      clear -IH Hwfk Hd. induction kids as [|k kids IHk]; constructor.
      * inversion IH; inversion Hwfk; inversion Hd; subst. split; [assumption|]. intros rest Hs. auto.
      * inversion IH; inversion Hwfk; inversion Hd; subst. apply IHk; assumption.
    + rewrite app_length. pose proof (length_flat_ser kids Hwfk). lia.
    + eexists. reflexivity.
Qed.

Lemma depth_le_ser e : (depth e <= length (ser e))%nat.
Proof.
  induction e as [tag attrs text tail kids IH] using xml_ind'.
  assert (Hm : (fold_right (fun k m => Nat.max (depth k) m) O kids <= length (flat_map ser kids))%nat).
  { clear -IH. induction IH as [|k kids Hk _ IHk]; cbn [fold_right flat_map length]; [lia|].
    rewrite app_length. lia. }
  cbn [depth ser]. destruct kids as [|k kids].
  - cbn [fold_right]. cbn [app length]. lia.
  - rewrite andb_false_r. cbn [app length]. rewrite !app_length. cbn [length]. rewrite !app_length.
    cbn [app length] in Hm. lia.
Qed.

Theorem codec_roundtrip e : wf_xml e = true -> parse (ser e) = Some e.
Proof.
  intros Hwf. unfold parse.
  assert (Hd : (depth e <= S (length (ser e)))%nat) by (pose proof (depth_le_ser e); lia).
  pose proof (pelem_ser e Hwf _ [] Hd (or_introl eq_refl)) as H. rewrite app_nil_r in H. rewrite H. reflexivity.
Qed.

