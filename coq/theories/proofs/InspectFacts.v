(* InspectFacts.v — C20: inspect() prints without raising for schema-shaped messages and
   mentions every source it names; targets are reported as absent exactly when blank. *)
From Coq Require Import List Bool String.
Import ListNotations.
From Mos Require Import Str Xml Outcome Elements Classify Messages Merge Proto Inspect.
From Mos.proofs Require Import XmlFacts.
Local Open Scope string_scope.
Local Open Scope list_scope.

Definition ends_with_str (suffix l : str) : Prop := exists pre, l = pre ++ suffix.

Lemma line_ends label v : ends_with_str (show v) (line label v).
Proof. now exists (lit label). Qed.

Lemma lines_mention label vs id : In id vs -> exists l, In l (lines label vs) /\ ends_with_str (show id) l.
Proof. intros H. exists (line label id). split; [now apply in_map | apply line_ends]. Qed.

Ltac mention :=
  match goal with
  | H : In ?id ?vs |- exists l, In l (_ :: _ :: lines ?lab ?vs) /\ _ =>
    destruct (lines_mention lab vs id H) as (l & Hl & He); exists l; split; [right; right; exact Hl | exact He]
  | H : In ?id ?vs |- exists l, In l (_ :: lines ?lab ?vs) /\ _ =>
    destruct (lines_mention lab vs id H) as (l & Hl & He); exists l; split; [right; exact Hl | exact He]
  | H : In ?id ?vs |- exists l, In l (lines ?lab ?vs) /\ _ => exact (lines_mention lab vs id H)
  | _ => fail
  end.

(* every source a message names is mentioned in what inspect() prints *)
Theorem inspect_mentions k b ls id :
  inspect k b = inr ls -> In id (inspect_sources k b) ->
  exists l, In l ls /\ ends_with_str (show id) l.
Proof.
  intros Hi Hin. destruct k; cbn [inspect inspect_sources] in Hi, Hin; try (destruct Hin; fail);
    try (injection Hi as <-; solve [mention]).
  - (* StoryMove *)
    destruct (story_move_source b) as [s|]; [|discriminate]. injection Hi as <-.
    destruct Hin as [<-|[]]. exists (line "MOVE STORY: " s). split; [now left | apply line_ends].
  - (* EAStorySwap *)
    destruct (ea_first_source_ids t_storyID b) as [|a [|c [|? ?]]]; try discriminate. injection Hi as <-.
    destruct Hin as [<-|[<-|[]]].
    + exists (line "SWAP STORY: " a). split; [now left | apply line_ends].
    + exists (line "WITH STORY: " c). split; [right; now left | apply line_ends].
  - (* EAItemSwap *)
    destruct (ea_first_source_ids t_itemID b) as [|a [|c [|? ?]]]; try discriminate. injection Hi as <-.
    destruct Hin as [<-|[<-|[]]].
    + exists (line "  SWAP ITEM: " a). split; [right; now left | apply line_ends].
    + exists (line "  WITH ITEM: " c). split; [right; right; now left | apply line_ends].
Qed.

(* schema-shaped for inspect(): what the message type requires to be present *)
Definition inspect_ok (k : mclass) (b : xml) : bool :=
  match k with
  | RunningOrder => has_child t_roSlug b
  | StorySend => match convert_story_send b with Some _ => true | None => false end
  | StoryMove => match story_move_source b with Some _ => true | None => false end
  | RunningOrderEnd => has_child t_roID b
  | EAStorySwap => Nat.eqb (List.length (ea_first_source_ids t_storyID b)) 2
  | EAItemSwap => Nat.eqb (List.length (ea_first_source_ids t_itemID b)) 2
  | _ => true
  end.

Theorem inspect_no_raise k b : inspect_ok k b = true -> exists ls, inspect k b = inr ls.
Proof.
  intros H. destruct k; simpl in *; eauto.
  - unfold has_child in H. destruct (find t_roSlug (kids_of b)); [eauto | discriminate].
  - destruct (convert_story_send b); [eauto | discriminate].
  - destruct (story_move_source b); [eauto | discriminate].
  - unfold has_child in H. destruct (find t_roID (kids_of b)); [eauto | discriminate].
  - destruct (ea_first_source_ids t_storyID b) as [|a [|c [|? ?]]]; try discriminate. eauto.
  - destruct (ea_first_source_ids t_itemID b) as [|a [|c [|? ?]]]; try discriminate. eauto.
Qed.

(* targets: reported as absent exactly when the target tag is blank or missing - never as
   some other ID *)
Theorem story_move_target_spec b :
  match story_move_target b with
  | Some t => exists s rest, id_tags t_storyID b = s :: Some t :: rest
  | None => match id_tags t_storyID b with _ :: Some _ :: _ => False | _ => True end
  end.
Proof.
  unfold story_move_target. destruct (id_tags t_storyID b) as [|s [|[t|] rest]]; auto. now exists s, rest.
Qed.

Theorem first_id_spec idtag b :
  elem_id idtag b = match find idtag (kids_of b) with Some e => text_of e | None => None end.
Proof. reflexivity. Qed.

(* sources: one per ID tag, in message order *)
Theorem sources_are_id_tags idtag b :
  id_tags idtag b = map text_of (filter (has_tag idtag) (kids_of b)) /\
  ea_source_ids idtag b
  = flat_map (fun s => map text_of (filter (has_tag idtag) (kids_of s)))
             (filter (has_tag t_element_source) (kids_of b)).
Proof. split; reflexivity. Qed.

(* carried stories / items are exposed with their content: the very elements of the message *)
Theorem carried_exposed tag b x : In x (carried tag b) <-> In x (kids_of b) /\ has_tag tag x = true.
Proof. unfold carried, findall. apply filter_In. Qed.

(* with the evaluation of self.stories taken into account (RunningOrder.inspect walks them) *)
Theorem inspect_o_no_raise o k b :
  inspect_ok k b = true -> (k = RunningOrder -> ro_stories_err o b = None) ->
  exists ls, inspect_o o k b = inr ls.
Proof.
  intros H Hst. destruct (inspect_no_raise k b H) as (ls & Hls). exists ls.
  unfold inspect_o. destruct k; try exact Hls.
  destruct (find t_roSlug (kids_of b)); [|exact Hls]. now rewrite (Hst eq_refl).
Qed.
