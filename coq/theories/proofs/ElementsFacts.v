(* ElementsFacts.v — C15 (accessors never raise and agree with the XML), C16 (durations,
   offsets, start and end times), C17 (script and body). *)
From Coq Require Import List Bool Arith NArith ZArith Lia.
Import ListNotations.
From Mos Require Import Str Xml Outcome Seq Elements Classify Messages Merge Proto.
From Mos.proofs Require Import ListFacts XmlFacts.
Local Open Scope Z_scope.

Section Timing.
Variable o : oracles.

(* ---- C16: duration precedence *)
Theorem duration_precedence story pl :
  payload_of story = Some pl ->
  story_duration o story =
  match find t_StoryDuration (kids_of pl) with
  | Some d => float_of o d
  | None =>
    match find t_TextTime (kids_of pl), find t_MediaTime (kids_of pl) with
    | None, None => ANone
    | te, me =>
      match float_or_zero o te, float_or_zero o me with
      | AVal a, AVal b => AVal (a + b)
      | AErr e, _ => AErr e
      | AVal _, AErr e => AErr e
      | _, _ => ANone
      end
    end
  end.
Proof.
  intros Hp. unfold story_duration. rewrite Hp.
  destruct (find t_StoryDuration (kids_of pl)); [reflexivity|].
  destruct (find t_TextTime (kids_of pl)) as [te|], (find t_MediaTime (kids_of pl)) as [me|]; try reflexivity;
    destruct (float_or_zero o _); try reflexivity; destruct (float_or_zero o _); reflexivity.
Qed.

Theorem duration_absent story : payload_of story = None -> story_duration o story = ANone.
Proof. intros H. unfold story_duration. now rewrite H. Qed.

(* ---- C16: offsets are the prefix sums of the durations *)
Fixpoint prefix_sums (t : Z) (ds : list Z) : list Z :=
  match ds with [] => [] | d :: r => t :: prefix_sums (t + d) r end.
Fixpoint sumz (ds : list Z) : Z := match ds with [] => 0 | d :: r => d + sumz r end.

Definition has_story_id (s : xml) : bool :=
  match find t_storyID (kids_of s) with Some _ => true | None => false end.

Lemma offsets_from_vals t stories ds :
  forallb has_story_id stories = true ->
  Forall2 (fun s d => story_duration o s = AVal d) stories ds ->
  offsets_from o (Some t) stories = AVal (combine (map story_id stories) (map Some (prefix_sums t ds))).
Proof.
  intros Hid Hd. revert t Hid. induction Hd as [|s d stories ds Hs Hd IH]; intros t Hid; [reflexivity|].
  simpl in Hid. apply andb_prop in Hid as [Hs1 Hid]. simpl.
  unfold has_story_id in Hs1. unfold story_id, elem_id.
  destruct (find t_storyID (kids_of s)) as [e|]; [|discriminate].
  rewrite Hs. rewrite (IH (t + d) Hid). reflexivity.
Qed.

Lemma prefix_sums_length t ds : length (prefix_sums t ds) = length ds.
Proof. revert t. induction ds as [|d ds IH]; intros t; simpl; auto. Qed.

Lemma prefix_sums_nth t ds k : (k < length ds)%nat ->
  nth_error (prefix_sums t ds) k = Some (t + sumz (firstn k ds)).
Proof.
  revert t k. induction ds as [|d ds IH]; intros t [|k] H; simpl in *; try lia.
  - f_equal. lia.
  - rewrite IH by lia. f_equal. lia.
Qed.

(* dict semantics: with distinct keys, get returns the value stored at that key's position *)
Lemma offsets_get_nth ids vals k id v :
  NoDup ids -> length ids = length vals ->
  nth_error ids k = Some id -> nth_error vals k = Some v ->
  offsets_get id (combine ids vals) = Some v.
Proof.
  revert vals k. induction ids as [|i ids IH]; intros [|w vals] k Hnd Hlen Hi Hv; simpl in *;
    try (destruct k; discriminate).
  inversion Hnd as [|? ? Hni Hnd']; subst.
  destruct k as [|k]; simpl in *.
  - injection Hi as ->. injection Hv as ->.
    assert (Hn : offsets_get id (combine ids vals) = None).
    { clear - Hni. revert vals. induction ids as [|j ids IH]; intros [|w vals]; simpl; auto.
      rewrite IH by (intros H; apply Hni; now right).
      destruct (ostr_eqb j id) eqn:E; [|reflexivity].
      apply ostr_eqb_eq in E. subst. exfalso. apply Hni. now left. }
    rewrite Hn. now rewrite (proj2 (ostr_eqb_eq id id) eq_refl).
  - rewrite (IH vals k Hnd' (eq_add_S _ _ Hlen) Hi Hv). reflexivity.
Qed.

Theorem offsets_are_prefix_sums rc stories ds k s :
  findall t_story (kids_of rc) = stories -> stories <> [] ->
  forallb has_story_id stories = true -> NoDup (map story_id stories) ->
  Forall2 (fun s d => story_duration o s = AVal d) stories ds ->
  nth_error stories k = Some s ->
  forall start, so_offset {| so_xml := s;
                   so_offsets := Some (combine (map story_id stories) (map Some (prefix_sums 0 ds)));
                   so_start := start |}
  = Some (sumz (firstn k ds)).
Proof.
  intros _ _ Hid Hnd Hd Hk start. unfold so_offset. simpl.
  assert (Hlen : length stories = length ds) by (eapply Forall2_length; eauto).
  assert (Hk' : (k < length ds)%nat) by (rewrite <- Hlen; apply nth_error_Some; congruence).
  rewrite (offsets_get_nth (map story_id stories) (map Some (prefix_sums 0 ds)) k (story_id s)
             (Some (0 + sumz (firstn k ds)))); auto.
  - rewrite !map_length, prefix_sums_length. exact Hlen.
  - now rewrite nth_error_map, Hk.
  - rewrite nth_error_map, prefix_sums_nth by exact Hk'. reflexivity.
Qed.

(* RunningOrder.stories builds exactly that table *)
Theorem ro_stories_table rc stories ds :
  findall t_story (kids_of rc) = stories -> stories <> [] ->
  ro_start_time o rc <> AErr PyValueError ->
  forallb has_story_id stories = true ->
  Forall2 (fun s d => story_duration o s = AVal d) stories ds ->
  ro_stories o rc =
  AVal (map (fun x => {| so_xml := x;
                         so_offsets := Some (combine (map story_id stories) (map Some (prefix_sums 0 ds)));
                         so_start := match ro_start_time o rc with AVal z => Some z | _ => None end |})
            stories).
Proof.
  intros Hf Hne Hst Hid Hd. unfold ro_stories. rewrite Hf.
  destruct stories as [|s0 rest] eqn:Es; [now contradiction Hne|]. rewrite <- Es in *.
  assert (Hstart : match ro_start_time o rc with AErr e => False | _ => True end).
  { unfold ro_start_time in *. destruct (find t_roEdStart (kids_of rc)) as [e|]; [|exact I].
    destruct (text_of e) as [tx|]; [|exact I]. destruct (parse_time o tx); [exact I | now contradiction Hst]. }
  destruct (ro_start_time o rc) as [|z|e] eqn:Est; try contradiction.
  - unfold story_offsets. rewrite Es. rewrite <- Es. rewrite (offsets_from_vals 0 stories ds Hid Hd). reflexivity.
  - unfold story_offsets. rewrite Es. rewrite <- Es. rewrite (offsets_from_vals 0 stories ds Hid Hd). reflexivity.
Qed.

(* the running order's duration is the sum *)
Lemma sum_durations_vals acc0 stories ds :
  Forall2 (fun s d => story_duration o s = AVal d) stories ds ->
  sum_durations o acc0 stories = AVal (acc0 + sumz ds).
Proof.
  intros Hd. revert acc0. induction Hd as [|s d stories ds Hs Hd IH]; intros acc0; simpl.
  - f_equal. lia.
  - rewrite Hs, IH. f_equal. lia.
Qed.

Theorem ro_duration_is_sum rc stories ds :
  findall t_story (kids_of rc) = stories ->
  ro_start_time o rc <> AErr PyValueError ->
  forallb has_story_id stories = true ->
  Forall2 (fun s d => story_duration o s = AVal d) stories ds ->
  ro_duration o rc = AVal (sumz ds).
Proof.
  intros Hf Hst Hid Hd. unfold ro_duration.
  destruct stories as [|s0 rest] eqn:Es.
  - unfold ro_stories. rewrite Hf. inversion Hd. reflexivity.
  - rewrite <- Es in *.
    rewrite (ro_stories_table rc stories ds Hf) by (auto; rewrite Es; discriminate).
    rewrite map_map. simpl. rewrite map_id. now rewrite (sum_durations_vals 0 stories ds Hd).
Qed.

(* start and end: explicit values win; otherwise programme start + offset, start + duration *)
Theorem start_time_rule s :
  so_start_time o s =
  match (match payload_of (so_xml s) with Some pl => find t_StoryStarted (kids_of pl) | None => None end) with
  | Some e => time_of o e
  | None => match so_start s, so_offset s with
            | Some p, Some off => AVal (p + off)
            | _, _ => ANone
            end
  end.
Proof. reflexivity. Qed.

Theorem end_time_rule s :
  so_end_time o s =
  match (match payload_of (so_xml s) with Some pl => find t_StoryEnded (kids_of pl) | None => None end) with
  | Some e => time_of o e
  | None => match so_start_time o s, story_duration o (so_xml s) with
            | AVal st, AVal d => AVal (st + d)
            | AErr e, _ => AErr e
            | AVal _, AErr e => AErr e
            | _, _ => ANone
            end
  end.
Proof.
  unfold so_end_time. destruct (match payload_of (so_xml s) with Some pl => _ | None => None end); [reflexivity|].
  destruct (so_start_time o s); try reflexivity; destruct (story_duration o (so_xml s)); reflexivity.
Qed.

Theorem ro_end_is_last_story_end rc l s r :
  ro_stories o rc = AVal l -> rev l = s :: r -> ro_end_time o rc = so_end_time o s.
Proof. intros Hl Hs. unfold ro_end_time. now rewrite Hl, Hs. Qed.

(* ---- C15: with numeric timing data, listing the stories does not raise *)
Definition dur_ok (s : xml) : bool := match story_duration o s with AErr _ => false | _ => true end.
Definition start_ok (rc : xml) : bool := match ro_start_time o rc with AErr _ => false | _ => true end.

Lemma offsets_from_no_err t stories :
  forallb has_story_id stories = true -> forallb dur_ok stories = true ->
  match offsets_from o t stories with AErr _ => False | _ => True end.
Proof.
  revert t. induction stories as [|s stories IH]; intros t Hid Hd; simpl; [exact I|].
  simpl in Hid, Hd. apply andb_prop in Hid as [Hs Hid]. apply andb_prop in Hd as [Hds Hd].
  unfold has_story_id in Hs. destruct (find t_storyID (kids_of s)); [|discriminate].
  unfold dur_ok in Hds. destruct (story_duration o s) as [|d|e]; try discriminate.
  - match goal with |- context [offsets_from o ?t' stories] => specialize (IH t' Hid Hd); destruct (offsets_from o t' stories) end; auto.
  - match goal with |- context [offsets_from o ?t' stories] => specialize (IH t' Hid Hd); destruct (offsets_from o t' stories) end; auto.
Qed.

Theorem stories_listing_no_raise rc :
  forallb has_story_id (findall t_story (kids_of rc)) = true ->
  forallb dur_ok (findall t_story (kids_of rc)) = true -> start_ok rc = true ->
  exists l, ro_stories o rc = AVal l /\ map so_xml l = findall t_story (kids_of rc).
Proof.
  intros Hid Hd Hs. unfold ro_stories. destruct (findall t_story (kids_of rc)) as [|s0 rest] eqn:E.
  - exists []. now split.
  - rewrite <- E in *. unfold start_ok in Hs. destruct (ro_start_time o rc) as [|z|e]; try discriminate.
    + pose proof (offsets_from_no_err (Some 0) _ Hid Hd) as H. unfold story_offsets. rewrite E. rewrite <- E.
      destruct (offsets_from o (Some 0) (findall t_story (kids_of rc))); try contradiction;
        (eexists; split; [reflexivity | rewrite map_map; simpl; apply map_id]).
    + pose proof (offsets_from_no_err (Some 0) _ Hid Hd) as H. unfold story_offsets. rewrite E. rewrite <- E.
      destruct (offsets_from o (Some 0) (findall t_story (kids_of rc))); try contradiction;
        (eexists; split; [reflexivity | rewrite map_map; simpl; apply map_id]).
Qed.

End Timing.

Local Close Scope Z_scope.

(* ---- C15: the plain accessors are direct reads of the document (absent => None) *)
Theorem accessor_absent_is_none idtag x :
  (find idtag (kids_of x) = None -> elem_id idtag x = None) /\
  (forall e, find idtag (kids_of x) = Some e -> elem_id idtag x = text_of e).
Proof. unfold elem_id. split; [now intros -> | now intros e ->]. Qed.

Theorem items_agree x : story_items x = filter (has_tag t_item) (kids_of x).
Proof. reflexivity. Qed.

Theorem item_note_absent x :
  payload_of x = None -> item_note x = None.
Proof. unfold item_note. now intros ->. Qed.

(* ---- C17 *)
Lemma lstrip_idem s : lstrip (lstrip s) = lstrip s.
Proof.
  induction s as [|c s IH]; [reflexivity|]. simpl. destruct (is_space c) eqn:E; [exact IH|].
  simpl. now rewrite E.
Qed.

Lemma lstrip_no_leading s : match lstrip s with c :: _ => is_space c = false | [] => True end.
Proof.
  induction s as [|c s IH]; simpl; [exact I|]. destruct (is_space c) eqn:E; [exact IH | exact E].
Qed.

Theorem strip_no_leading_space s : match strip s with c :: _ => is_space c = false | [] => True end.
Proof.
  unfold strip. set (r := lstrip (rev (lstrip s))).
  (* the first character of rev r is the last of r, which comes from lstrip s ... *)
  assert (Hgen : forall l, (match l with c :: _ => is_space c = false | [] => True end) ->
            match rev (lstrip (rev l)) with c :: _ => is_space c = false | [] => True end).
  { intros l Hl. destruct l as [|c l]; [exact I|].
    (* rev (c :: l) = rev l ++ [c]; lstrip of it keeps c at the end since c is not a space *)
    assert (Hkeep : forall pre, exists pre', lstrip (pre ++ [c]) = pre' ++ [c]).
    { induction pre as [|x pre IH]; simpl.
      - rewrite Hl. now exists [].
      - destruct (is_space x); [exact IH | now exists (x :: pre)]. }
    simpl. destruct (Hkeep (rev l)) as (pre' & ->). rewrite rev_app_distr. simpl. exact Hl. }
  apply Hgen. apply lstrip_no_leading.
Qed.

Theorem strip_no_trailing_space s : match rev (strip s) with c :: _ => is_space c = false | [] => True end.
Proof. unfold strip. rewrite rev_involutive. apply lstrip_no_leading. Qed.

(* body: every paragraph (its text, '' when empty) and every item, in document order *)
Theorem body_is_paragraphs_and_items x :
  story_body x
  = map (fun c => if has_tag t_item c then BItem c
                  else BText (match text_of c with Some s => s | None => [] end))
        (filter (fun c => has_tag t_item c || has_tag t_p c) (kids_of x)).
Proof.
  unfold story_body. induction (kids_of x) as [|c l IH]; [reflexivity|]. simpl.
  destruct (has_tag t_item c) eqn:Ei; simpl; [now rewrite Ei, IH|].
  destruct (has_tag t_p c) eqn:Ep; simpl; [now rewrite Ei, IH | exact IH].
Qed.

(* script: exactly the paragraphs whose stripped text is non-empty and not a technical note,
   stripped, in order *)
Definition spoken (p : xml) : bool :=
  match text_of p with
  | Some s => match strip s with [] => false | _ => negb (is_technical_note s) end
  | None => false
  end.

Theorem script_is_spoken_paragraphs x :
  story_script x
  = map (fun p => strip (match text_of p with Some s => s | None => [] end))
        (filter spoken (findall t_p (kids_of x))).
Proof.
  unfold story_script. induction (findall t_p (kids_of x)) as [|p l IH]; [reflexivity|].
  cbn [flat_map filter]. rewrite IH. clear IH.
  unfold para_script, spoken. destruct (text_of p) as [tx|] eqn:Et; [|reflexivity].
  destruct tx as [|c s]; [reflexivity|].
  remember (strip (c :: s)) as st eqn:Es. destruct st as [|n st]; [reflexivity|].
  destruct (is_technical_note (c :: s)); cbn [negb map app]; [reflexivity|].
  rewrite Et. now rewrite <- Es.
Qed.

Theorem ro_script_is_concat rc :
  ro_script rc = flat_map story_script (filter (has_tag t_story) (kids_of rc)) /\
  ro_body rc = flat_map story_body (filter (has_tag t_story) (kids_of rc)).
Proof. split; reflexivity. Qed.
