(* Clean.v — C12: schema-shaped messages on well-formed running orders fail only with
   MosMergeError (or MosCompletedMergeError); no built-in exception escapes. *)
From Coq Require Import List Bool Arith NArith Lia Permutation.
Import ListNotations.
From Mos Require Import Str Xml Outcome Seq Spec Elements Classify Messages Merge Proto.
From Mos.proofs Require Import ListFacts SeqFacts MoveFacts XmlFacts StoryOrder Lift Atomic WfFacts.

Definition clean {S} (r : res S) : Prop := r_err r = None \/ r_err r = Some MosMergeError.

Lemma clean_ok {S} (s : S) : clean (ok s). Proof. now left. Qed.
Lemma clean_raise {S} (s : S) : clean (raise_merge None s). Proof. now right. Qed.
Lemma clean_emit {S} w (s : S) : clean (emit None w s). Proof. now left. Qed.
Lemma clean_map {S T} (h : S -> T) (r : res S) : clean r -> clean (map_res h r).
Proof. intros H. exact H. Qed.

Section Generic.
Context {A K : Type}.
Variable kof : A -> kres K.
Variable keqb : K -> K -> bool.
Hypothesis keqb_eq : forall a b, keqb a b = true <-> a = b.

Lemma clean_delete w ids l : no_bad kof l = true -> clean (delete_loop kof keqb None w ids l).
Proof. intros Hb. left. now destruct (delete_loop_spec kof keqb keqb_eq w ids l Hb). Qed.

Lemma clean_dups (id_of : A -> option K) okeqb w seen i new l :
  i <= length l -> clean (insert_dups None id_of okeqb w seen i new l).
Proof. intros Hi. left. now destruct (insert_dups_spec id_of okeqb w seen i new l Hi). Qed.

Lemma clean_replace tgt new l : no_bad kof l = true -> clean (gen_replace kof keqb None tgt new l).
Proof.
  intros Hb. unfold gen_replace. destruct (lookup kof keqb tgt l) eqn:E;
    [apply clean_ok | apply clean_raise | exfalso; eapply (lookup_no_attr kof keqb); eauto].
Qed.

Lemma locate_no_attr tgt l : no_bad kof l = true -> locate_target kof keqb tgt l <> TAttr.
Proof.
  intros Hb. unfold locate_target. destruct tgt as [t|]; [|discriminate].
  destruct (lookup kof keqb (Some t) l) eqn:E; try discriminate.
  exfalso. eapply (lookup_no_attr kof keqb); eauto.
Qed.

Lemma clean_insert tgt new l : no_bad kof l = true -> clean (gen_insert kof keqb None tgt new l).
Proof.
  intros Hb. unfold gen_insert. destruct (locate_target kof keqb tgt l) eqn:E;
    [apply clean_ok | apply clean_ok | apply clean_raise | exfalso; eapply locate_no_attr; eauto].
Qed.

Lemma clean_swap ids l : no_bad kof l = true -> clean (gen_swap kof keqb None ids l).
Proof.
  intros Hb. unfold gen_swap. destruct ids as [|a [|b [|? ?]]]; try apply clean_raise.
  destruct (lookup kof keqb a l) eqn:Ea;
    [| apply clean_raise | exfalso; eapply (lookup_no_attr kof keqb); eauto].
  destruct (lookup kof keqb b l) eqn:Eb;
    [| apply clean_raise | exfalso; eapply (lookup_no_attr kof keqb); eauto].
  destruct (Nat.eqb i i0); [apply clean_raise | apply clean_ok].
Qed.

Lemma validate_no_attr tp acc ids l :
  no_bad kof l = true -> validate_sources kof keqb tp acc ids l <> VAttr.
Proof.
  intros Hb. revert acc. induction ids as [|id ids IH]; intros acc; simpl; [discriminate|].
  destruct (lookup kof keqb id l) eqn:E; [| discriminate | exfalso; eapply (lookup_no_attr kof keqb); eauto].
  destruct (_ || _); [discriminate | apply IH].
Qed.

Lemma pos_of_in i (x : A) il : In (i, x) il -> pos_of i il <> None.
Proof.
  induction il as [|q il IH]; intros H; [destruct H|]. simpl.
  destruct (Nat.eqb (fst q) i) eqn:E; [discriminate|].
  destruct H as [->|H]; [simpl in E; rewrite Nat.eqb_refl in E; discriminate|].
  specialize (IH H). destruct (pos_of i il); [discriminate | contradiction].
Qed.

Lemma move_before_some ps t (l : list A) :
  t < length l -> ~ In t ps -> move_before ps (Some t) l <> None.
Proof.
  intros Ht Hn. unfold move_before.
  destruct (nth_error l t) as [x|] eqn:E; [|apply nth_error_None in E; lia].
  assert (Hin : In (t, x) (without ps (tagl l))).
  { unfold without. apply filter_In. split.
    - rewrite tagl_eq. apply in_tagl. split; [lia|]. now rewrite Nat.sub_0_r.
    - simpl. apply negb_true_iff. now apply memn_false. }
  destruct (pos_of t (without ps (tagl l))) eqn:Ep; [discriminate|].
  exfalso. eapply pos_of_in; eauto.
Qed.

Lemma clean_move tgt srcs l : no_bad kof l = true -> clean (gen_move kof keqb None tgt srcs l).
Proof.
  intros Hb. unfold gen_move.
  destruct (locate_target kof keqb tgt l) as [|i| |] eqn:Et;
    [| |apply clean_raise | exfalso; eapply locate_no_attr; eauto].
  - destruct (validate_sources kof keqb None [] srcs l) as [ps| |] eqn:Ev;
      [apply clean_ok | apply clean_raise | exfalso; eapply validate_no_attr; eauto].
  - destruct (validate_sources kof keqb (Some i) [] srcs l) as [ps| |] eqn:Ev;
      [| apply clean_raise | exfalso; eapply validate_no_attr; eauto].
    destruct (move_before ps (Some i) l) eqn:Em; [apply clean_ok|]. exfalso.
    apply (validate_sources_ok kof keqb) in Ev as (qs & -> & _ & Hq & _). simpl in Em.
    unfold locate_target in Et. destruct tgt as [t|]; [|discriminate].
    destruct (lookup kof keqb (Some t) l) as [j| |] eqn:El; try discriminate. injection Et as <-.
    apply (move_before_some qs j l); [eapply lookup_found_lt; eauto | | assumption].
    intros Hin. destruct (Hq j Hin) as [Ht _]. simpl in Ht. rewrite Nat.eqb_refl in Ht. discriminate.
Qed.

End Generic.

Lemma clean_with_story sid kids missing f :
  no_bad skey kids = true -> clean missing ->
  (forall i s, find_story sid kids = FFound i -> nth_error kids i = Some s -> clean (f (kids_of s))) ->
  clean (with_story sid kids missing f).
Proof.
  intros Hb Hm Hf. unfold with_story.
  destruct (find_story sid kids) as [i| |] eqn:E; [|assumption|].
  - destruct (nth_error kids i) as [s|] eqn:En; [apply clean_map; eauto|].
    exfalso. unfold find_story in E. apply (lookup_found_lt skey str_eqb str_eqb_eq) in E.
    apply nth_error_None in En. lia.
  - exfalso. eapply (lookup_no_attr skey str_eqb); eauto.
Qed.

Section Clean.
Variable o : oracles.

Theorem merge_kids_clean k m b rc :
  wf_rc rc = true -> schema_ok k m = true -> base_of k m = Some b ->
  ro_stories_err o rc = None ->
  clean (merge_kids o k m b rc).
Proof.
  intros Hwf Hs Hbase Hst.
  unfold schema_ok in Hs. apply andb_prop in Hs as [Hm Hs]. rewrite Hbase in Hs.
  assert (Hmex : msg_id_exn m = None) by (unfold msg_ok in Hm; destruct (msg_id_exn m); [discriminate|reflexivity]).
  assert (Hb : no_bad skey (kids_of rc) = true) by (unfold wf_rc in Hwf; now apply andb_prop in Hwf as [H _]).
  assert (Hitems : forall sid i s, find_story sid (kids_of rc) = FFound i ->
                     nth_error (kids_of rc) i = Some s -> no_bad ikey (kids_of s) = true)
    by (intros; eapply wf_rc_story; eauto).
  unfold merge_kids. rewrite Hmex, ?Hst. set (kids := kids_of rc) in *.
  destruct k; try apply clean_ok.
  - destruct (convert_story_send b); [|discriminate].
    destruct (find_story (story_id x) kids) eqn:E;
      [apply clean_ok | apply clean_emit | exfalso; eapply (lookup_no_attr skey str_eqb); eauto].
  - now apply (clean_delete skey str_eqb str_eqb_eq).
  - destruct (find_story (first_story_id b) kids) as [i| |] eqn:E;
      [| apply clean_raise | exfalso; eapply (lookup_no_attr skey str_eqb); eauto].
    apply clean_dups. unfold find_story in E.
    apply (lookup_found_lt skey str_eqb str_eqb_eq) in E. fold kids in E. lia.
  - destruct (story_move_source b); [|apply clean_raise]. now apply (clean_move skey str_eqb str_eqb_eq).
  - destruct (find_story (first_story_id b) kids) eqn:E;
      [| apply clean_raise | exfalso; eapply (lookup_no_attr skey str_eqb); eauto].
    destruct (carried t_story b); [apply clean_raise | apply clean_ok].
  - apply clean_with_story; [assumption | apply clean_raise|]. intros i s Hf Hn.
    apply (clean_delete ikey str_eqb str_eqb_eq). eauto.
  - apply clean_with_story; [assumption | apply clean_raise|]. intros i s Hf Hn.
    apply (clean_insert ikey str_eqb). eauto.
  - destruct (first_story_id b) as [sid0|]; [|apply clean_raise].
    apply clean_with_story; [assumption | apply clean_raise|]. intros i s Hf Hn.
    unfold imm_target. destruct (id_tags t_itemID b) as [|t0 ts] eqn:Et; [discriminate|].
    destruct (rev (t0 :: ts)) eqn:Er.
    + exfalso. apply (f_equal (@length _)) in Er. rewrite rev_length in Er. discriminate.
    + apply (clean_move ikey str_eqb str_eqb_eq). eauto.
  - apply clean_with_story; [assumption | apply clean_raise|]. intros i s Hf Hn.
    apply (clean_replace ikey str_eqb). eauto.
  - now apply (clean_replace skey str_eqb).
  - apply clean_with_story; [assumption | apply clean_raise|]. intros i s Hf Hn.
    apply (clean_replace ikey str_eqb). eauto.
  - now apply (clean_delete skey str_eqb str_eqb_eq).
  - apply clean_with_story; [assumption | apply clean_emit|]. intros i s Hf Hn.
    apply (clean_delete ikey str_eqb str_eqb_eq). eauto.
  - destruct (locate_target skey str_eqb (ea_target_id t_storyID b) kids) as [|i| |] eqn:E;
      [| | apply clean_raise | exfalso; eapply (locate_no_attr skey str_eqb); eauto].
    + apply clean_dups. lia.
    + apply clean_dups. unfold locate_target in E.
      destruct (ea_target_id t_storyID b) as [t|]; [|discriminate].
      destruct (lookup skey str_eqb (Some t) kids) as [j| |] eqn:El; try discriminate.
      injection E as <-. apply (lookup_found_lt skey str_eqb str_eqb_eq) in El. lia.
  - apply clean_with_story; [assumption | apply clean_raise|]. intros i s Hf Hn.
    apply (clean_insert ikey str_eqb). eauto.
  - now apply (clean_swap skey str_eqb).
  - apply clean_with_story; [assumption | apply clean_raise|]. intros i s Hf Hn.
    apply (clean_swap ikey str_eqb). eauto.
  - now apply (clean_move skey str_eqb str_eqb_eq).
  - apply clean_with_story; [assumption | apply clean_raise|]. intros i s Hf Hn.
    apply (clean_move ikey str_eqb str_eqb_eq). eauto.
Qed.

Definition lib_outcome (e : option exn) : Prop :=
  e = None \/ e = Some MosMergeError \/ e = Some MosCompletedMergeError.

(* the timing guard: evaluating ro.stories does not raise (durations and roEdStart, where
   present, are numeric / parseable) *)
Definition timing_ok (ro : xml) : Prop :=
  match rc_of ro with Some rc => ro_stories_err o rc = None | None => True end.

Theorem add_clean ro k m :
  wf_ro ro = true -> schema_ok k m = true -> timing_ok ro ->
  lib_outcome (r_err (add o ro k m)).
Proof.
  intros Hwf Hs Ht. unfold add. destruct (ro_completed ro); [right; now right|].
  unfold wf_ro in Hwf. unfold timing_ok in Ht. destruct (rc_of ro) as [rc|] eqn:Hrc; [|discriminate].
  pose proof Hs as Hs0. unfold schema_ok in Hs. apply andb_prop in Hs as [Hm Hs].
  assert (Hmex : msg_id_exn m = None) by (unfold msg_ok in Hm; destruct (msg_id_exn m); [discriminate|reflexivity]).
  destruct (base_of k m) as [b|] eqn:Hb; [|discriminate].
  destruct (edits_rc k) eqn:Hk.
  - rewrite (merge_lift o k ro m b rc Hk Hb Hrc).
    destruct (merge_kids_clean k m b rc Hwf Hs0 Hb Ht) as [H|H]; cbn [map_res r_err]; rewrite H;
      [now left | right; now left].
  - unfold merge. rewrite Hb. destruct k; try discriminate Hk.
    + unfold raise_merge, Seq.merge_error. rewrite Hmex. right. now left.
    + unfold rc_of in Hrc. destruct (find_index t_roCreate (kids_of ro)) eqn:Ei; [now left|].
      exfalso. clear - Hrc Ei. induction (kids_of ro) as [|c l IH]; simpl in *; [discriminate|].
      destruct (has_tag t_roCreate c); [discriminate|].
      destruct (find_index t_roCreate l); [discriminate | auto].
    + now left.
Qed.

End Clean.
