(* NoDupFacts.v — uniqueness of story IDs is an invariant of merging: if the story IDs of the
   running order are pairwise distinct and the stories a message carries do not clash with them
   (a precise, per-class condition: payload_fresh), they are pairwise distinct afterwards -
   whether the merge succeeds, warns or raises.  With it the order theorems (C01, C02, C06),
   which assume unique IDs in the state they are applied to, hold in every state of a history
   whose messages carry fresh IDs. *)
From Coq Require Import List Bool Arith NArith Lia Permutation.
Import ListNotations.
From Mos Require Import Str Xml Outcome Seq Spec Elements Classify Messages Merge Proto.
From Mos.proofs Require Import ListFacts SeqFacts MoveFacts XmlFacts StoryOrder Lift Atomic WfFacts Clean Warn Frame ItemFacts Others StoryStable.

(* ---- lists of optional IDs *)
Section Ids.
Context {K : Type}.
Variable keqb : K -> K -> bool.
Hypothesis keqb_eq : forall a b, keqb a b = true <-> a = b.

Lemma sp_remove1_incl id (l : list (option K)) x : In x (sp_remove1 keqb id l) -> In x l.
Proof.
  induction l as [|a l IH]; simpl; [tauto|]. destruct (oeq keqb a id); simpl; intuition.
Qed.
Lemma sp_remove1_nodup id (l : list (option K)) : NoDup l -> NoDup (sp_remove1 keqb id l).
Proof.
  induction l as [|a l IH]; intros H; simpl; [constructor|]. inversion H as [|? ? Ha Hl]; subst.
  destruct (oeq keqb a id); [assumption|]. constructor; [|auto].
  intros Hc. apply Ha. eapply sp_remove1_incl; eauto.
Qed.
Lemma sp_delete_nodup ids : forall l : list (option K), NoDup l -> NoDup (sp_delete keqb ids l).
Proof.
  induction ids as [|[id|] ids IH]; intros l H; simpl; auto. apply IH. now apply sp_remove1_nodup.
Qed.

Lemma sp_replace_in t new (l : list (option K)) : forall ks x,
  sp_replace keqb t new l = Some ks -> In x ks -> In x new \/ In x (sp_remove1 keqb t l).
Proof.
  induction l as [|a l IH]; intros ks x H Hx; simpl in *; [discriminate|].
  destruct (oeq keqb a t).
  - injection H as <-. apply in_app_or in Hx. tauto.
  - destruct (sp_replace keqb t new l) as [r'|] eqn:E; [|discriminate]. injection H as <-.
    destruct Hx as [<-|Hx]; [right; now left|]. destruct (IH r' x eq_refl Hx); [now left | right; now right].
Qed.
Lemma sp_replace_nodup t new (l : list (option K)) : forall ks,
  NoDup (sp_remove1 keqb t l ++ new) -> sp_replace keqb t new l = Some ks -> NoDup ks.
Proof.
  induction l as [|a l IH]; intros ks Hnd H; simpl in *; [discriminate|].
  destruct (oeq keqb a t).
  - injection H as <-. eapply Permutation_NoDup; [apply Permutation_app_comm | exact Hnd].
  - destruct (sp_replace keqb t new l) as [r'|] eqn:E; [|discriminate]. injection H as <-.
    inversion Hnd as [|? ? Ha Hl]; subst. constructor; [|now apply IH].
    intros Hc. apply Ha. apply in_or_app. destruct (sp_replace_in t new l r' a E Hc); [now right | now left].
Qed.

(* the IDs insert-with-duplicates-skipped adds are new and pairwise distinct *)
Variable okeqb : option K -> option K -> bool.
Hypothesis okeqb_eq : forall a b, okeqb a b = true <-> a = b.
Lemma existsb_okeqb id seen : existsb (okeqb id) seen = true <-> In id seen.
Proof.
  rewrite existsb_exists. split.
  - intros (x & Hx & E). apply okeqb_eq in E. now subst.
  - intros H. exists id. split; [assumption | now apply okeqb_eq].
Qed.
Lemma sp_fresh_nodup new : forall seen, NoDup seen -> NoDup (sp_fresh okeqb seen new ++ seen).
Proof.
  induction new as [|id new IH]; intros seen H; simpl; [assumption|].
  destruct (existsb (okeqb id) seen) eqn:E; [now apply IH|].
  assert (Hn : ~ In id seen) by (intros Hc; apply existsb_okeqb in Hc; congruence).
  specialize (IH (id :: seen) (NoDup_cons _ Hn H)).
  simpl. eapply Permutation_NoDup; [|exact IH]. symmetry. apply Permutation_middle.
Qed.
End Ids.

(* ---- keys of permuted lists *)
Lemma keys_perm {A K} (kof : A -> kres K) (l l' : list A) :
  Permutation l l' -> Permutation (keys kof l) (keys kof l').
Proof. intros H. unfold keys. now apply Permutation_flat_map. Qed.

(* keys of elements that all carry the tag *)
Lemma keys_tagged tag idtag l :
  forallb (has_tag tag) l = true -> keys (ckey tag idtag) l = map (elem_id idtag) l.
Proof.
  induction l as [|x l IH]; [reflexivity|]. simpl. intros H. apply andb_prop in H as [Hx Hl].
  unfold ckey at 1. rewrite Hx. unfold elem_id at 1.
  destruct (find idtag (kids_of x)); simpl; f_equal; now apply IH.
Qed.
Lemma findall_tagged tag l : forallb (has_tag tag) (findall tag l) = true.
Proof. apply forallb_forall. intros x Hx. unfold findall in Hx. now apply filter_In in Hx. Qed.

Lemma fresh_elems_incl {A K} (id_of : A -> option K) okeqb new : forall seen x,
  In x (fresh_elems id_of okeqb seen new) -> In x new.
Proof.
  induction new as [|s r IH]; intros seen x H; simpl in *; [assumption|].
  destruct (existsb (okeqb (id_of s)) seen); [right; eauto|].
  destruct H as [<-|H]; [now left | right; eauto].
Qed.

(* ---- roMetadataReplace that carries no <story> cannot touch the stories *)
Lemma keys_findall l : keys skey l = keys skey (findall t_story l).
Proof.
  induction l as [|x l IH]; [reflexivity|]. unfold findall in *. simpl.
  destruct (has_tag t_story x) eqn:E; simpl; [now rewrite IH|].
  unfold skey, ckey at 1. now rewrite E.
Qed.

Lemma find_index_nth t (l : list xml) : forall i,
  find_index t l = Some i -> exists x, nth_error l i = Some x /\ has_tag t x = true.
Proof.
  induction l as [|y l IH]; intros i H; simpl in H; [discriminate|].
  destruct (has_tag t y) eqn:E.
  - injection H as <-. now exists y.
  - destruct (find_index t l) as [j|]; [|discriminate]. injection H as <-. now apply IH.
Qed.
Lemma md_schema_index_nth sc (l : list xml) : forall i,
  md_schema_index sc l = Some i -> exists x, nth_error l i = Some x /\ has_tag t_mosExternalMetadata x = true.
Proof.
  induction l as [|y l IH]; intros i H; simpl in H; [discriminate|].
  destruct (has_tag t_mosExternalMetadata y && ostr_eqb (findtext t_mosSchema (kids_of y)) sc) eqn:E.
  - injection H as <-. apply andb_prop in E as [E _]. now exists y.
  - destruct (md_schema_index sc l) as [j|]; [|discriminate]. injection H as <-. now apply IH.
Qed.

Lemma has_tag_two t u x : has_tag t x = true -> has_tag u x = true -> t = u.
Proof. unfold has_tag. intros H1 H2. apply str_eqb_eq in H1, H2. congruence. Qed.

Lemma md_loop_stories srcs : forall kids,
  forallb (fun x => negb (has_tag t_story x)) srcs = true ->
  findall t_story (md_loop srcs kids) = findall t_story kids.
Proof.
  induction srcs as [|s r IH]; intros kids H; simpl; [reflexivity|].
  simpl in H. apply andb_prop in H as [Hs Hr]. apply negb_true_iff in Hs. rewrite IH by assumption.
  destruct (md_index s kids) as [i|] eqn:E.
  - assert (Hx : exists x, nth_error kids i = Some x /\ has_tag t_story x = false).
    { unfold md_index in E. destruct (has_tag t_mosExternalMetadata s) eqn:Em.
      - apply md_schema_index_nth in E as (x & Hn & Hx). exists x. split; [assumption|].
        destruct (has_tag t_story x) eqn:Es; [|reflexivity].
        pose proof (has_tag_two _ _ _ Hx Es) as Hc. vm_compute in Hc. discriminate.
      - apply find_index_nth in E as (x & Hn & Hx). exists x. split; [assumption|].
        destruct (has_tag t_story x) eqn:Es; [|reflexivity].
        pose proof (has_tag_two _ _ _ Hx Es) as Hc.
        unfold has_tag in Hs. rewrite Hc, str_eqb_refl in Hs. discriminate. }
    destruct Hx as (x & Hn & Hx). unfold replace_at, findall.
    rewrite (filter_insert_at (has_tag t_story)) by assumption.
    now apply (filter_remove_at (has_tag t_story) kids i x).
  - unfold findall. rewrite filter_app. simpl. rewrite Hs. apply app_nil_r.
Qed.

(* ---- the invariant on the children of roCreate *)
Section NoDup.
Variable o : oracles.
Notation skeys := (keys skey).

(* the per-class condition: what the message carries does not clash with what is there *)
Definition payload_fresh (k : mclass) (b : xml) (ids : list (option str)) : Prop :=
  match k with
  | StoryAppend => NoDup (ids ++ skeys (carried t_story b))
  | StoryReplace =>
    match first_story_id b with
    | Some t => NoDup (sp_remove1 str_eqb t ids ++ skeys (carried t_story b))
    | None => True
    end
  | EAStoryReplace =>
    match ea_target_id t_storyID b with
    | Some t => NoDup (sp_remove1 str_eqb t ids ++ skeys (ea_carried t_story b))
    | None => True
    end
  | MetaDataReplace => forallb (fun x => negb (has_tag t_story x)) (kids_of b) = true
  | _ => True
  end.

Lemma replace_found_keys t new l i :
  lookup skey str_eqb (Some t) l = FFound i ->
  exists ks, sp_replace str_eqb t (skeys new) (skeys l) = Some ks /\ skeys (replace_with i new l) = ks.
Proof.
  intros E.
  destruct (lookup_found skey str_eqb str_eqb_eq t l i E) as (pre & x & post & -> & -> & Hx & _ & Hpre & Hk & _).
  rewrite Hk, (sp_replace_split str_eqb str_eqb_eq) by exact Hpre. eexists. split; [reflexivity|].
  unfold replace_with. rewrite remove_at_app.
  rewrite insert_loop_many by (rewrite app_length; lia). rewrite insert_many_app.
  now rewrite !(keys_app skey).
Qed.

Lemma dups_nodup i new l :
  i <= length l -> forallb (has_tag t_story) new = true -> NoDup (skeys l) ->
  NoDup (skeys (r_st (insert_dups None story_id ostr_eqb DuplicateStory (known_story_ids l) i new l))).
Proof.
  intros Hi Hnew Hnd.
  pose proof (insert_dups_spec story_id ostr_eqb DuplicateStory (known_story_ids l) i new l Hi) as (_ & Hs & _).
  rewrite Hs.
  eapply Permutation_NoDup; [symmetry; apply keys_perm, insert_many_perm|].
  rewrite (keys_app skey).
  assert (Hf : forallb (has_tag t_story) (fresh_elems story_id ostr_eqb (known_story_ids l) new) = true).
  { apply forallb_forall. intros x Hx. apply fresh_elems_incl in Hx. rewrite forallb_forall in Hnew. now apply Hnew. }
  unfold skey at 1. rewrite (keys_tagged t_story t_storyID _ Hf). fold story_id.
  change (map (elem_id t_storyID)) with (map story_id).
  rewrite (fresh_elems_ids story_id ostr_eqb).
  rewrite (known_ids_keys l (no_bad_ckey _ _ l)).
  apply (sp_fresh_nodup ostr_eqb ostr_eqb_eq). exact Hnd.
Qed.

Theorem story_keys_nodup k m b rc :
  msg_ok m = true -> NoDup (skeys (kids_of rc)) -> payload_fresh k b (skeys (kids_of rc)) ->
  NoDup (skeys (r_st (merge_kids o k m b rc))).
Proof.
  intros Hm Hnd Hfresh.
  assert (Hmex : msg_id_exn m = None) by (unfold msg_ok in Hm; destruct (msg_id_exn m); [discriminate|reflexivity]).
  destruct (is_item_class k) eqn:Hitem; [now rewrite (item_merge_story_keys o k m b rc Hitem)|].
  assert (Hb : no_bad skey (kids_of rc) = true) by apply no_bad_ckey.
  unfold merge_kids. rewrite Hmex. set (kids := kids_of rc) in *.
  destruct k; try discriminate Hitem; cbn [r_st ok]; try assumption.
  - (* StorySend *)
    destruct (convert_story_send b) as [story|] eqn:Ec; [|assumption].
    unfold find_story. destruct (story_id story) as [t|] eqn:Eid; [|assumption].
    destruct (lookup skey str_eqb (Some t) kids) as [i| |] eqn:E; [| assumption | assumption].
    cbn [r_st ok].
    destruct (lookup_found skey str_eqb str_eqb_eq t kids i E) as (pre & x & post & El & Ei & Hx & _ & _ & Hk & _).
    rewrite Hk in Hnd. rewrite El, Ei. unfold replace_with. rewrite remove_at_app.
    rewrite insert_loop_many by (rewrite app_length; lia). rewrite insert_many_app.
    rewrite !(keys_app skey). rewrite (keys_keyed skey story (Some t) (skey_converted b story t Ec Eid)).
    exact Hnd.
  - (* StoryAppend *)
    rewrite (keys_app skey). exact Hfresh.
  - (* StoryDelete *)
    pose proof (proto_delete_sound t_story t_storyID None StoryNotFound (id_tags t_storyID b) kids eq_refl Hb) as (_ & Hk & _).
    fold skey in Hk. rewrite Hk. now apply sp_delete_nodup.
  - (* StoryInsert *)
    unfold find_story. destruct (first_story_id b) as [t|]; [|assumption].
    destruct (lookup skey str_eqb (Some t) kids) as [i| |] eqn:E; [| assumption | assumption].
    destruct (ro_stories_err o rc); [assumption|].
    apply dups_nodup; [|apply findall_tagged | assumption].
    apply Nat.lt_le_incl. eapply (lookup_found_lt skey str_eqb str_eqb_eq); eauto.
  - (* StoryMove *)
    pose proof (story_moves_conserve o StoryMove m b rc (or_introl eq_refl)) as H.
    unfold merge_kids in H. rewrite Hmex in H. fold kids in H.
    destruct (story_move_source b) as [src|]; [|assumption].
    destruct (r_err (gen_move skey str_eqb None (story_move_target b) [src] kids)).
    + now rewrite H.
    + eapply Permutation_NoDup; [symmetry; apply keys_perm; exact H | assumption].
  - (* StoryReplace *)
    unfold find_story. cbn [payload_fresh] in Hfresh. destruct (first_story_id b) as [t|]; [|assumption].
    destruct (lookup skey str_eqb (Some t) kids) as [i| |] eqn:E; [| assumption | assumption].
    destruct (carried t_story b) as [|n0 nr] eqn:En; [assumption|]. cbn [r_st ok].
    destruct (replace_found_keys t (n0 :: nr) kids i E) as (ks & Hsp & ->).
    eapply (sp_replace_nodup str_eqb); eauto.
  - (* MetaDataReplace *)
    cbn [payload_fresh] in Hfresh. rewrite keys_findall, (md_loop_stories _ _ Hfresh), <- keys_findall. assumption.
  - (* EAStoryReplace *)
    cbn [payload_fresh] in Hfresh.
    pose proof (gen_replace_spec skey str_eqb str_eqb_eq (ea_target_id t_storyID b) (ea_carried t_story b) kids Hb) as [_ H].
    destruct (ea_target_id t_storyID b) as [t|].
    + destruct (sp_replace str_eqb t (skeys (ea_carried t_story b)) (skeys kids)) as [ks|] eqn:Es.
      * destruct H as (_ & -> & _). eapply (sp_replace_nodup str_eqb); eauto.
      * destruct H as (_ & ->). assumption.
    + destruct H as (_ & ->). assumption.
  - (* EAStoryDelete *)
    pose proof (proto_delete_sound t_story t_storyID None StoryNotFound (ea_source_ids t_storyID b) kids eq_refl Hb) as (_ & Hk & _).
    fold skey in Hk. rewrite Hk. now apply sp_delete_nodup.
  - (* EAStoryInsert *)
    unfold locate_target. destruct (ea_target_id t_storyID b) as [t|].
    + destruct (lookup skey str_eqb (Some t) kids) as [i| |] eqn:E; [| assumption | assumption].
      destruct (ro_stories_err o rc); [assumption|].
      apply dups_nodup; [| unfold ea_carried; destruct (ea_source b); [apply findall_tagged | reflexivity] | assumption].
      apply Nat.lt_le_incl. eapply (lookup_found_lt skey str_eqb str_eqb_eq); eauto.
    + destruct (ro_stories_err o rc); [assumption|].
      apply dups_nodup; [lia | unfold ea_carried; destruct (ea_source b); [apply findall_tagged | reflexivity] | assumption].
  - (* EAStorySwap *)
    pose proof (story_moves_conserve o EAStorySwap m b rc (or_intror (or_intror eq_refl))) as H.
    unfold merge_kids in H. rewrite Hmex in H. fold kids in H.
    destruct (r_err (gen_swap skey str_eqb None (ea_first_source_ids t_storyID b) kids)).
    + now rewrite H.
    + eapply Permutation_NoDup; [symmetry; apply keys_perm; exact H | assumption].
  - (* EAStoryMove *)
    pose proof (story_moves_conserve o EAStoryMove m b rc (or_intror (or_introl eq_refl))) as H.
    unfold merge_kids in H. rewrite Hmex in H. fold kids in H.
    destruct (r_err (gen_move skey str_eqb None (ea_target_id t_storyID b) (ea_source_ids t_storyID b) kids)).
    + now rewrite H.
    + eapply Permutation_NoDup; [symmetry; apply keys_perm; exact H | assumption].
Qed.

End NoDup.

(* ---- lifted to RunningOrder.__add__ and to histories *)
Section Lifted.
Variable o : oracles.

(* the condition on one message, in the state it is merged into *)
Definition fresh_in (ro : xml) (k : mclass) (m : xml) : Prop :=
  match base_of k m with
  | None => True
  | Some b =>
    match k with
    | RunningOrderReplace => NoDup (keys skey (kids_of b))
    | _ => payload_fresh k b (story_ids ro)
    end
  end.

Theorem add_nodup ro k m :
  rc_of ro <> None -> msg_ok m = true -> NoDup (story_ids ro) -> fresh_in ro k m ->
  rc_of (r_st (add o ro k m)) <> None /\ NoDup (story_ids (r_st (add o ro k m))).
Proof.
  intros Hrc0 Hm Hnd Hf. unfold add. destruct (ro_completed ro); [now split|].
  destruct (rc_of ro) as [rc|] eqn:Hrc; [|congruence]. unfold fresh_in in Hf.
  destruct (base_of k m) as [b|] eqn:Hb; [|unfold merge; rewrite Hb; cbn [r_st fail]; rewrite Hrc; now split].
  destruct (edits_rc k) eqn:Hk.
  - rewrite (merge_lift o k ro m b rc Hk Hb Hrc). cbn [map_res r_st].
    unfold story_ids. rewrite (rc_of_put_kids ro rc _ Hrc). split; [discriminate|].
    unfold story_ids_rc. rewrite kids_set_kids.
    unfold story_ids in Hnd, Hf. rewrite Hrc in Hnd, Hf. unfold story_ids_rc in Hnd, Hf.
    apply story_keys_nodup; try assumption. destruct k; try discriminate Hk; exact Hf.
  - unfold merge. rewrite Hb. destruct k; try discriminate Hk.
    + cbn [r_st raise_merge]. unfold raise_merge. destruct (msg_id_exn m); cbn [r_st fail]; rewrite Hrc; now split.
    + unfold rc_of in Hrc. destruct (find_index t_roCreate (kids_of ro)) as [i|] eqn:Ei;
        [|cbn [r_st fail]; unfold story_ids, rc_of; rewrite Hrc; split; [discriminate | exact Hnd || (unfold story_ids, rc_of in Hnd; now rewrite Hrc in Hnd)]].
      cbn [r_st ok]. unfold story_ids, rc_of. rewrite kids_set_kids.
      destruct (find_index_split _ _ _ Ei) as (pre & e & post & El & <- & He & Hpre).
      rewrite El, replace_at_app.
      rewrite (find_app_first t_roCreate pre _ post (has_tag_set_tag _ _) Hpre).
      split; [discriminate|]. unfold story_ids_rc. now rewrite kids_set_tag.
    + cbn [r_st ok]. unfold story_ids, rc_of in *. rewrite kids_set_kids.
      rewrite (find_app_found _ _ _ _ Hrc). split; [discriminate|]. now rewrite Hrc in Hnd.
Qed.

(* a history whose messages are fresh in the states they meet keeps story IDs unique throughout *)
Fixpoint fresh_along (ro : xml) (h : list (mclass * xml)) : Prop :=
  match h with
  | [] => True
  | (k, m) :: r => msg_ok m = true /\ fresh_in ro k m /\ fresh_along (r_st (add o ro k m)) r
  end.

Theorem history_nodup h : forall ro,
  rc_of ro <> None -> NoDup (story_ids ro) -> fresh_along ro h ->
  NoDup (story_ids (fold_left (fun s km => r_st (add o s (fst km) (snd km))) h ro)).
Proof.
  induction h as [|[k m] h IH]; intros ro Hrc Hnd Hf; [exact Hnd|].
  cbn [fold_left fst snd]. destruct Hf as (Hm & Hfr & Hrest).
  destruct (add_nodup ro k m Hrc Hm Hnd Hfr) as [Hrc' Hnd'].
  now apply IH.
Qed.

End Lifted.
