(* XmlFacts.v — facts about strings, trees and the document-level plumbing of merges *)
From Coq Require Import List Bool Arith NArith Lia.
Import ListNotations.
From Mos Require Import Str Xml Outcome Seq Spec Elements Classify Messages Merge Proto.
From Mos.proofs Require Import ListFacts SeqFacts.

Lemma str_eqb_eq a b : str_eqb a b = true <-> a = b.
Proof.
  revert b. induction a as [|x a IH]; intros [|y b]; simpl; split; try easy.
  - intros H. apply andb_prop in H as [H1 H2]. apply N.eqb_eq in H1. apply IH in H2. congruence.
  - intros H. injection H as -> ->. rewrite N.eqb_refl. simpl. now apply IH.
Qed.
Lemma str_eqb_refl a : str_eqb a a = true.
Proof. now apply str_eqb_eq. Qed.
Lemma ostr_eqb_eq a b : ostr_eqb a b = true <-> a = b.
Proof.
  destruct a as [a|], b as [b|]; simpl; split; try easy.
  - intros H. apply str_eqb_eq in H. congruence.
  - intros H. injection H as ->. apply str_eqb_refl.
Qed.

Lemma set_kids_id e : set_kids e (kids_of e) = e.
Proof. now destruct e. Qed.
Lemma kids_set_kids e k : kids_of (set_kids e k) = k.
Proof. now destruct e. Qed.
Lemma tag_set_kids e k : tag_of (set_kids e k) = tag_of e.
Proof. now destruct e. Qed.
Lemma has_tag_set_kids t e k : has_tag t (set_kids e k) = has_tag t e.
Proof. unfold has_tag. now rewrite tag_set_kids. Qed.

(* the first child with a tag, and updating it *)
Lemma find_split t l e :
  find t l = Some e ->
  exists pre post, l = pre ++ e :: post /\ has_tag t e = true /\
    forall y, In y pre -> has_tag t y = false.
Proof.
  induction l as [|c l IH]; simpl; [discriminate|].
  destruct (has_tag t c) eqn:E.
  - intros H. injection H as <-. exists [], l. repeat split; auto. intros ? [].
  - intros H. destruct (IH H) as (pre & post & -> & He & Hpre).
    exists (c :: pre), post. repeat split; auto. intros y [<-|Hy]; auto.
Qed.

Lemma update_first_split t f pre e post :
  has_tag t e = true -> (forall y, In y pre -> has_tag t y = false) ->
  update_first t f (pre ++ e :: post) = pre ++ f e :: post.
Proof.
  intros He Hpre. induction pre as [|c pre IH]; simpl.
  - now rewrite He.
  - rewrite (Hpre c (or_introl eq_refl)). f_equal. apply IH. intros y Hy. apply Hpre. now right.
Qed.

Lemma find_app_first t pre e post :
  has_tag t e = true -> (forall y, In y pre -> has_tag t y = false) ->
  find t (pre ++ e :: post) = Some e.
Proof.
  intros He Hpre. induction pre as [|c pre IH]; simpl.
  - now rewrite He.
  - rewrite (Hpre c (or_introl eq_refl)). apply IH. intros y Hy. apply Hpre. now right.
Qed.

(* updating the roCreate child with its own children changes nothing *)
Lemma update_first_id t l e :
  find t l = Some e -> update_first t (fun x => set_kids x (kids_of e)) l = l.
Proof.
  intros H. destruct (find_split t l e H) as (pre & post & -> & He & Hpre).
  rewrite update_first_split by assumption. now rewrite set_kids_id.
Qed.

(* after the update, the roCreate child is the updated one *)
Lemma find_update_first t l e k :
  find t l = Some e ->
  find t (update_first t (fun x => set_kids x k) l) = Some (set_kids e k).
Proof.
  intros H. destruct (find_split t l e H) as (pre & post & -> & He & Hpre).
  rewrite update_first_split by assumption.
  apply find_app_first; [now rewrite has_tag_set_kids | assumption].
Qed.

Lemma update_nth_id {A} i (f : A -> A) l x :
  nth_error l i = Some x -> f x = x -> update_nth i f l = l.
Proof.
  revert i. induction l as [|y l IH]; intros [|i] H Hf; simpl in *; try discriminate.
  - injection H as ->. now rewrite Hf.
  - f_equal. eauto.
Qed.

(* keys of carried elements that all carry their ID tag *)
Lemma ckey_keyed tag idtag x :
  is_keyed (ckey tag idtag) x = true -> ckey tag idtag x = KKey (elem_id idtag x).
Proof.
  unfold is_keyed, ckey, elem_id. destruct (has_tag tag x); [|discriminate].
  destruct (find idtag (kids_of x)); [reflexivity | discriminate].
Qed.

Lemma keys_carried tag idtag l :
  carried_ok tag idtag l = true -> keys (ckey tag idtag) l = map (elem_id idtag) l.
Proof.
  induction l as [|x l IH]; [reflexivity|]. simpl. intros H. apply andb_prop in H as [Hx Hl].
  rewrite (ckey_keyed _ _ _ Hx). simpl. f_equal. now apply IH.
Qed.
Lemma carried_all_keyed tag idtag l :
  carried_ok tag idtag l = true -> all_keyed (ckey tag idtag) l = true.
Proof. intros H. exact H. Qed.

(* {story.id for story in ro.stories} is the list of story keys *)
Lemma known_ids_keys kids :
  no_bad skey kids = true -> known_story_ids kids = keys skey kids.
Proof.
  induction kids as [|c l IH]; [reflexivity|]. simpl. intros H. apply andb_prop in H as [Hc Hl].
  unfold known_story_ids, findall in *. simpl. unfold skey, ckey in *.
  destruct (has_tag t_story c) eqn:E; simpl.
  - unfold story_id, elem_id. destruct (find t_storyID (kids_of c)); [|discriminate].
    simpl. f_equal. now apply IH.
  - now apply IH.
Qed.
