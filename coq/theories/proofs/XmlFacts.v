(* XmlFacts.v — facts about strings, trees and the document-level plumbing of merges *)
From Coq Require Import List Bool Arith NArith Lia.
Import ListNotations.
From Mos Require Import Str Xml Outcome Seq Spec Elements Classify Messages Merge Proto.
From Mos.proofs Require Import ListFacts SeqFacts.

Lemma str_eqb_eq a b : str_eqb a b = true <-> a = b.
Proof.
  revert b. induction a as [|x a IH]; intros [|y b]; simpl; split; try easy.
  - intros H. apply andb_prop in H as [H1 H2]. apply N.eqb_eq in H1. apply IH in H2. congruence.
  - intros H. injection H as -> ->. rewrite N.eqb_refl. simpl. now apply IH.
Qed.
Lemma str_eqb_refl a : str_eqb a a = true.
Proof. now apply str_eqb_eq. Qed.
Lemma ostr_eqb_eq a b : ostr_eqb a b = true <-> a = b.
Proof.
  destruct a as [a|], b as [b|]; simpl; split; try easy.
  - intros H. apply str_eqb_eq in H. congruence.
  - intros H. injection H as ->. apply str_eqb_refl.
Qed.

Lemma set_kids_id e : set_kids e (kids_of e) = e.
Proof. now destruct e. Qed.
Lemma kids_set_kids e k : kids_of (set_kids e k) = k.
Proof. now destruct e. Qed.
Lemma tag_set_kids e k : tag_of (set_kids e k) = tag_of e.
Proof. now destruct e. Qed.
Lemma has_tag_set_kids t e k : has_tag t (set_kids e k) = has_tag t e.
Proof. unfold has_tag. now rewrite tag_set_kids. Qed.

(* the first child with a tag, and updating it *)
Lemma find_split t l e :
  find t l = Some e ->
  exists pre post, l = pre ++ e :: post /\ has_tag t e = true /\
    forall y, In y pre -> has_tag t y = false.
Proof.
  induction l as [|c l IH]; simpl; [discriminate|].
  destruct (has_tag t c) eqn:E.
  - intros H. injection H as <-. exists [], l. repeat split; auto. intros ? [].
  - intros H. destruct (IH H) as (pre & post & -> & He & Hpre).
    exists (c :: pre), post. repeat split; auto. intros y [<-|Hy]; auto.
Qed.

Lemma update_first_split t f pre e post :
  has_tag t e = true -> (forall y, In y pre -> has_tag t y = false) ->
  update_first t f (pre ++ e :: post) = pre ++ f e :: post.
Proof.
  intros He Hpre. induction pre as [|c pre IH]; simpl.
  - now rewrite He.
  - rewrite (Hpre c (or_introl eq_refl)). f_equal. apply IH. intros y Hy. apply Hpre. now right.
Qed.

Lemma find_app_first t pre e post :
  has_tag t e = true -> (forall y, In y pre -> has_tag t y = false) ->
  find t (pre ++ e :: post) = Some e.
Proof.
  intros He Hpre. induction pre as [|c pre IH]; simpl.
  - now rewrite He.
  - rewrite (Hpre c (or_introl eq_refl)). apply IH. intros y Hy. apply Hpre. now right.
Qed.

(* updating the roCreate child with its own children changes nothing *)
Lemma update_first_id t l e :
  find t l = Some e -> update_first t (fun x => set_kids x (kids_of e)) l = l.
Proof.
  intros H. destruct (find_split t l e H) as (pre & post & -> & He & Hpre).
  rewrite update_first_split by assumption. now rewrite set_kids_id.
Qed.

(* after the update, the roCreate child is the updated one *)
Lemma find_update_first t l e k :
  find t l = Some e ->
  find t (update_first t (fun x => set_kids x k) l) = Some (set_kids e k).
Proof.
  intros H. destruct (find_split t l e H) as (pre & post & -> & He & Hpre).
  rewrite update_first_split by assumption.
  apply find_app_first; [now rewrite has_tag_set_kids | assumption].
Qed.

Lemma update_nth_id {A} i (f : A -> A) l x :
  nth_error l i = Some x -> f x = x -> update_nth i f l = l.
Proof.
  revert i. induction l as [|y l IH]; intros [|i] H Hf; simpl in *; try discriminate.
  - injection H as ->. now rewrite Hf.
  - f_equal. eauto.
Qed.

(* keys of carried elements that all carry their ID tag *)
Lemma ckey_keyed tag idtag x :
  has_id tag idtag x = true -> ckey tag idtag x = KKey (elem_id idtag x).
Proof.
  unfold has_id, ckey, elem_id. destruct (has_tag tag x); [|discriminate].
  destruct (find idtag (kids_of x)); [reflexivity | discriminate].
Qed.

(* after the find_child repair no child makes a lookup raise *)
Lemma no_bad_ckey tag idtag l : no_bad (ckey tag idtag) l = true.
Proof.
  unfold no_bad. apply forallb_forall. intros x _. unfold ckey.
  destruct (has_tag tag x); [|reflexivity]. destruct (find idtag (kids_of x)); reflexivity.
Qed.

Lemma keys_carried tag idtag l :
  carried_ok tag idtag l = true -> keys (ckey tag idtag) l = map (elem_id idtag) l.
Proof.
  induction l as [|x l IH]; [reflexivity|]. simpl. intros H. apply andb_prop in H as [Hx Hl].
  rewrite (ckey_keyed _ _ _ Hx). simpl. f_equal. now apply IH.
Qed.
Lemma carried_all_keyed tag idtag l :
  carried_ok tag idtag l = true -> all_keyed (ckey tag idtag) l = true.
Proof.
  unfold carried_ok, all_keyed. intros H. apply forallb_forall. intros x Hx.
  unfold is_keyed. rewrite (ckey_keyed tag idtag x); [reflexivity|].
  eapply forallb_forall in H; eauto.
Qed.

(* hence every element is "well formed" in the sense the lookups need *)
Lemma wf_story_true x : wf_story x = true.
Proof. unfold wf_story. destruct (has_tag t_story x); [apply no_bad_ckey | reflexivity]. Qed.
Lemma story_elem_ok_true x : story_elem_ok x = true.
Proof.
  unfold story_elem_ok. rewrite wf_story_true, andb_true_r. unfold skey, ckey.
  destruct (has_tag t_story x); [|reflexivity]. destruct (find t_storyID (kids_of x)); reflexivity.
Qed.
Lemma wf_rc_true rc : wf_rc rc = true.
Proof.
  unfold wf_rc. apply andb_true_intro. split; [apply no_bad_ckey|].
  apply forallb_forall. intros x _. apply wf_story_true.
Qed.
(* a document is a well-formed running order exactly when it has a roCreate element *)
Lemma wf_ro_iff ro : wf_ro ro = true <-> rc_of ro <> None.
Proof.
  unfold wf_ro. destruct (rc_of ro) as [rc|]; [rewrite wf_rc_true|]; split; congruence.
Qed.

(* {story.id for story in ro.stories} is the list of story keys *)
Lemma known_ids_keys kids :
  no_bad skey kids = true -> known_story_ids kids = keys skey kids.
Proof.
  induction kids as [|c l IH]; [reflexivity|]. simpl. intros H. apply andb_prop in H as [Hc Hl].
  unfold known_story_ids, findall in *. simpl. unfold skey, ckey in *.
  destruct (has_tag t_story c) eqn:E; simpl.
  - unfold story_id, elem_id. destruct (find t_storyID (kids_of c)); simpl; f_equal; now apply IH.
  - now apply IH.
Qed.
