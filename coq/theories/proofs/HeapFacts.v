(* HeapFacts.v — C13: under the copy discipline a message's nodes are never mutated, so the
   tree every message location denotes is constant, whatever is done to the running order. *)
From Coq Require Import List Arith Bool Lia.
Import ListNotations.
From Mos Require Import Heap.

Section Facts.
Variable D : Type.
Notation heap := (heap D).
Notation node := (node D).
Notation lookup := (lookup D).
Notation view := (view D).
Notation set_kids := (set_kids D).
Notation alloc := (alloc D).
Notation alloc_list := (alloc_list D).
Notation tree := (tree D).

(* a set of locations closed under "child of" *)
Definition closed (h : heap) (S : loc -> Prop) : Prop :=
  forall l n, S l -> lookup h l = Some n -> forall k, In k (kids D n) -> S k.

(* two heaps that agree on a closed set denote the same trees there *)
Lemma view_agree (S : loc -> Prop) h h' :
  closed h S -> (forall l, S l -> lookup h' l = lookup h l) ->
  forall f m, S m -> view f h' m = view f h m.
Proof.
  intros Hc Hl f. induction f as [|f IH]; intros m Hm; [reflexivity|].
  simpl. rewrite (Hl m Hm). destruct (lookup h m) as [n|] eqn:E; [|reflexivity].
  f_equal. f_equal. apply map_ext_in. intros k Hk. apply IH. eapply Hc; eauto.
Qed.

Lemma lookup_set_kids_other h p ks l : l <> p -> lookup (set_kids h p ks) l = lookup h l.
Proof.
  intros Hne. unfold Heap.set_kids. destruct (lookup h p) eqn:E; [|reflexivity].
  unfold Heap.lookup. simpl. destruct (Nat.eqb p l) eqn:E2; [apply Nat.eqb_eq in E2; congruence | reflexivity].
Qed.

(* FRAME: mutating a node outside a closed set leaves every tree of the set unchanged *)
Theorem frame (S : loc -> Prop) h p ks :
  closed h S -> ~ S p -> forall f m, S m -> view f (set_kids h p ks) m = view f h m.
Proof.
  intros Hc Hp. apply (view_agree S); [assumption|].
  intros l Hl. apply lookup_set_kids_other. intros ->. contradiction.
Qed.

Lemma closed_set_kids (S : loc -> Prop) h p ks : closed h S -> ~ S p -> closed (set_kids h p ks) S.
Proof.
  intros Hc Hp l n Hl Hn k Hk. rewrite lookup_set_kids_other in Hn by (intros ->; contradiction).
  eapply Hc; eauto.
Qed.

(* ---- allocation is fresh *)
Section TreeInd.
  Variable P : tree -> Prop.
  Hypothesis H : forall d ks, Forall P ks -> P (T D d ks).
  Fixpoint tree_ind' (t : tree) : P t :=
    match t with
    | T _ d ks =>
      H d ks ((fix go (l : list tree) : Forall P l :=
                 match l with [] => Forall_nil P | k :: r => Forall_cons k (tree_ind' k) (go r) end) ks)
    end.
End TreeInd.

Lemma alloc_unfold d ks h :
  alloc (T D d ks) h =
  let '(h1, roots) := alloc_list ks h in
  ({| cells := (next D h1, {| dat := d; kids := roots |}) :: cells D h1; next := S (next D h1) |}, next D h1).
Proof. reflexivity. Qed.

Lemma alloc_list_cons t r h :
  alloc_list (t :: r) h =
  let '(h', root) := alloc t h in let '(h'', roots) := alloc_list r h' in (h'', root :: roots).
Proof. reflexivity. Qed.

Definition fresh_spec (h h' : heap) : Prop :=
  next D h <= next D h' /\ forall l, l < next D h -> lookup h' l = lookup h l.

Lemma fresh_refl h : fresh_spec h h.
Proof. split; auto. Qed.
Lemma fresh_trans h1 h2 h3 : fresh_spec h1 h2 -> fresh_spec h2 h3 -> fresh_spec h1 h3.
Proof.
  intros [H1 L1] [H2 L2]. split; [lia|]. intros l Hl. rewrite L2 by lia. now apply L1.
Qed.

(* deep copy: nothing that existed is touched; the copy lives at locations that did not exist *)
Theorem alloc_fresh t : forall h,
  fresh_spec h (fst (alloc t h)) /\ next D h <= snd (alloc t h) < next D (fst (alloc t h)).
Proof.
  induction t as [d ks IH] using tree_ind'. intros h. rewrite alloc_unfold.
  assert (Hl : forall h, fresh_spec h (fst (alloc_list ks h))).
  { clear h. induction IH as [|t r Ht _ IHr]; intros h; [apply fresh_refl|].
    rewrite alloc_list_cons. destruct (alloc t h) as [h' root] eqn:E1.
    destruct (alloc_list r h') as [h'' roots] eqn:E2. simpl.
    eapply fresh_trans; [|specialize (IHr h'); rewrite E2 in IHr; exact IHr].
    specialize (Ht h). rewrite E1 in Ht. apply Ht. }
  specialize (Hl h). destruct (alloc_list ks h) as [h1 roots]. simpl in *.
  destruct Hl as [Hn Hlk]. split; [split|]; simpl; try lia.
  intros l Hlt. unfold Heap.lookup. simpl.
  destruct (Nat.eqb (next D h1) l) eqn:E; [apply Nat.eqb_eq in E; lia|]. now apply Hlk.
Qed.

(* ---- the discipline *)
Definition in_region (r : region) (l : loc) : Prop := inb l r = true.

(* invariant: the message's locations M are closed, all allocated, and disjoint from the
   running order's region *)
Definition Inv (M : loc -> Prop) (hr : heap * region) : Prop :=
  closed (fst hr) M /\ (forall l, M l -> l < next D (fst hr)) /\ (forall l, M l -> inb l (snd hr) = false).

Lemma inb_app l a b : inb l (a ++ b) = inb l a || inb l b.
Proof. unfold inb. apply existsb_app. Qed.

Lemma inb_new_locs l lo hi : inb l (new_locs lo hi) = true -> lo <= l.
Proof.
  unfold inb, new_locs. intros H. apply existsb_exists in H as (x & Hx & E).
  apply Nat.eqb_eq in E. subst. apply in_seq in Hx. lia.
Qed.

Lemma step_inv M hr o :
  Inv M hr -> disciplined (snd hr) o = true ->
  Inv M (step D hr o) /\ forall f m, M m -> view f (fst (step D hr o)) m = view f (fst hr) m.
Proof.
  destruct hr as [h r]. intros (Hc & Hn & Hd) Ho. destruct o as [p ks|fu src]; simpl in *.
  - apply andb_prop in Ho as [Hp _].
    assert (Hnp : ~ M p) by (intros Hm; rewrite (Hd p Hm) in Hp; discriminate).
    split; [|intros f m Hm; now apply (frame M)].
    split; [now apply closed_set_kids|]. split; [|assumption].
    intros l Hl. unfold Heap.set_kids. destruct (lookup h p); simpl; auto.
  - unfold deepcopy. destruct (view fu h src) as [t|]; [|split; [now repeat split | reflexivity]].
    destruct (alloc_fresh t h) as [[Hnx Hlk] _]. destruct (alloc t h) as [h' root] eqn:E. simpl in *.
    assert (Hsame : forall l, M l -> lookup h' l = lookup h l) by (intros l Hl; apply Hlk; auto).
    split; [|intros f m Hm; now apply (view_agree M)].
    split; [|split].
    + intros l n Hl Hln k Hk. rewrite Hsame in Hln by assumption. eapply Hc; eauto.
    + intros l Hl. specialize (Hn l Hl). cbn [fst]. lia.
    + intros l Hl. cbn [snd]. rewrite inb_app, (Hd l Hl), orb_false_r.
      destruct (inb l (new_locs (next D h) (next D h'))) eqn:Ei; [|reflexivity].
      apply inb_new_locs in Ei. specialize (Hn l Hl). lia.
Qed.

(* whatever disciplined sequence of primitives edits the running order - this merge, later
   merges, merges into another running order - every message location denotes the same tree *)
Theorem discipline M ops : forall hr,
  Inv M hr -> all_disciplined D hr ops = true ->
  Inv M (run D hr ops) /\ forall f m, M m -> view f (fst (run D hr ops)) m = view f (fst hr) m.
Proof.
  induction ops as [|o ops IH]; intros hr Hi Ha; [split; [assumption | reflexivity]|].
  simpl in *. apply andb_prop in Ha as [Ho Ha].
  destruct (step_inv M hr o Hi Ho) as [Hi' Hv].
  destruct (IH _ Hi' Ha) as [Hi'' Hv']. split; [assumption|].
  intros f m Hm. rewrite Hv' by assumption. now apply Hv.
Qed.

End Facts.

(* without the copy: insert the message's story node into the running order by reference,
   then delete an item of that story through the running order - the message has changed *)
Definition h0 : heap nat :=
  {| cells := [(0, {| dat := 100; kids := [1] |});       (* message root, carries story 1 *)
               (1, {| dat := 101; kids := [2] |});       (* the story, with item 2 *)
               (2, {| dat := 102; kids := [] |});
               (3, {| dat := 200; kids := [] |})];       (* the running order *)
     next := 4 |}.
Definition by_reference : list op := [OSet 3 [1]; OSet 1 []].
Lemma sharing_refuted :
  view nat 5 (fst (run nat (h0, [3]) by_reference)) 0 <> view nat 5 h0 0 /\
  all_disciplined nat (h0, [3]) by_reference = false.
Proof. split; [vm_compute; discriminate | vm_compute; reflexivity]. Qed.

(* with the copy the same history is disciplined and the message is intact *)
Definition by_copy : list op := [OCopy 5 1; OSet 3 [5]; OSet 5 []].
Lemma copy_example :
  all_disciplined nat (h0, [3]) by_copy = true /\
  view nat 5 (fst (run nat (h0, [3]) by_copy)) 0 = view nat 5 h0 0.
Proof. split; vm_compute; reflexivity. Qed.
