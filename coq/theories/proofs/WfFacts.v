(* WfFacts.v — well-formedness of the running order is an invariant of merging. *)
From Coq Require Import List Bool Arith NArith Lia Permutation.
Import ListNotations.
From Mos Require Import Str Xml Outcome Seq Spec Elements Classify Messages Merge Proto.
From Mos.proofs Require Import ListFacts SeqFacts MoveFacts XmlFacts StoryOrder Lift Atomic.

(* ---- where the elements of an edited list come from, and which elements survive *)
Section Incl.
Context {A K : Type}.
Variable kof : A -> kres K.
Variable keqb : K -> K -> bool.
Hypothesis keqb_eq : forall a b, keqb a b = true <-> a = b.

Definition from (new l l' : list A) : Prop := forall x, In x l' -> In x l \/ In x new.
Definition keeps_unkeyed (l l' : list A) : Prop :=
  forall x, In x l -> is_keyed kof x = false -> In x l'.

Lemma in_remove_at {B} i (l : list B) x : In x (remove_at i l) -> In x l.
Proof.
  revert i. induction l as [|y l IH]; intros [|i] H; simpl in *; auto.
  destruct H as [->|H]; eauto.
Qed.
Lemma in_insert_many {B} i (xs l : list B) x : In x (insert_many i xs l) <-> In x xs \/ In x l.
Proof.
  unfold insert_many. rewrite !in_app_iff.
  assert (H : In x l <-> In x (firstn i l) \/ In x (skipn i l))
    by (rewrite <- (firstn_skipn i l) at 1; apply in_app_iff).
  tauto.
Qed.

Lemma from_refl new l : from new l l.
Proof. intros x H. now left. Qed.
Lemma keeps_refl l : keeps_unkeyed l l.
Proof. now intros x H _. Qed.

Lemma lookup_found_keyed id l i x :
  lookup kof keqb id l = FFound i -> nth_error l i = Some x -> is_keyed kof x = true.
Proof.
  destruct id as [s|]; [|discriminate]. intros H Hn.
  destruct (lookup_found_nth kof keqb keqb_eq s l i H) as (y & Hy & Hk).
  rewrite Hn in Hy. injection Hy as <-. unfold is_keyed. now rewrite Hk.
Qed.

Lemma keeps_remove_at id l i :
  lookup kof keqb id l = FFound i -> keeps_unkeyed l (remove_at i l).
Proof.
  intros H x Hx Hk. destruct id as [s|]; [|discriminate].
  destruct (lookup_found kof keqb keqb_eq s l i H) as (pre & y & post & -> & -> & Hy & _).
  rewrite remove_at_app. apply in_app_or in Hx as [Hx|[<-|Hx]]; apply in_or_app; auto.
  unfold is_keyed in Hk. rewrite Hy in Hk. discriminate.
Qed.

Lemma delete_loop_from mex w ids l : from [] l (r_st (delete_loop kof keqb mex w ids l)).
Proof.
  revert l. induction ids as [|id ids IH]; intros l; simpl; [apply from_refl|].
  destruct (lookup kof keqb id l) as [i| |]; [| |apply from_refl].
  - intros x Hx. destruct (IH _ x Hx) as [H|[]]. left. eapply in_remove_at; eauto.
  - unfold bind, emit. cbn [r_err r_st]. apply IH.
Qed.

Lemma delete_loop_keeps mex w ids l : keeps_unkeyed l (r_st (delete_loop kof keqb mex w ids l)).
Proof.
  revert l. induction ids as [|id ids IH]; intros l; simpl; [apply keeps_refl|].
  destruct (lookup kof keqb id l) as [i| |] eqn:E; [| |apply keeps_refl].
  - intros x Hx Hk. apply IH; [|assumption]. eapply keeps_remove_at; eauto.
  - unfold bind, emit. cbn [r_err r_st]. apply IH.
Qed.

Lemma insert_dups_from mex (id_of : A -> option K) okeqb w seen i new l :
  from new l (r_st (insert_dups mex id_of okeqb w seen i new l)).
Proof.
  revert seen i l. induction new as [|s new IH]; intros seen i l; simpl; [apply from_refl|].
  destruct (existsb (okeqb (id_of s)) seen).
  - unfold bind, emit. cbn [r_err r_st].
    intros x Hx. destruct (IH _ _ _ x Hx); auto. right. now right.
  - intros x Hx. destruct (IH _ _ _ x Hx) as [H|H]; [|right; now right].
    rewrite insert_at_many in H. apply in_insert_many in H as [[<-|[]]|H]; [right; now left | now left].
Qed.

Lemma insert_dups_keeps mex (id_of : A -> option K) okeqb w seen i new l :
  forall x, In x l -> In x (r_st (insert_dups mex id_of okeqb w seen i new l)).
Proof.
  revert seen i l. induction new as [|s new IH]; intros seen i l x Hx; simpl; [assumption|].
  destruct (existsb (okeqb (id_of s)) seen).
  - unfold bind, emit. cbn [r_err r_st]. now apply IH.
  - apply IH. rewrite insert_at_many. apply in_insert_many. now right.
Qed.

Lemma perm_or_same_from (r : res (list A)) l :
  match r_err r with None => Permutation (r_st r) l | Some _ => r_st r = l end ->
  from [] l (r_st r) /\ keeps_unkeyed l (r_st r).
Proof.
  intros H. destruct (r_err r).
  - rewrite H. split; [apply from_refl | apply keeps_refl].
  - split.
    + intros x Hx. left. eapply Permutation_in; eauto.
    + intros x Hx _. eapply Permutation_in; [apply Permutation_sym|]; eauto.
Qed.

Lemma perm_from (r : res (list A)) l :
  match r_err r with None => Permutation (r_st r) l | Some _ => r_st r = l end ->
  from [] l (r_st r).
Proof. intros H. now apply perm_or_same_from. Qed.

Lemma gen_replace_from mex tgt new l :
  from new l (r_st (gen_replace kof keqb mex tgt new l)) /\
  keeps_unkeyed l (r_st (gen_replace kof keqb mex tgt new l)).
Proof.
  unfold gen_replace. destruct (lookup kof keqb tgt l) as [i| |] eqn:E;
    cbn [r_st ok fail raise_merge]; try (split; [apply from_refl | apply keeps_refl]).
  destruct tgt as [t|]; [|discriminate].
  destruct (lookup_found kof keqb keqb_eq t l i E) as (pre & y & post & -> & -> & Hy & _).
  unfold replace_with. rewrite remove_at_app.
  rewrite insert_loop_many by (rewrite app_length; lia). rewrite insert_many_app. split.
  - intros x Hx. rewrite !in_app_iff in Hx. rewrite in_app_iff. simpl. tauto.
  - intros x Hx Hk. rewrite in_app_iff in Hx. rewrite !in_app_iff.
    destruct Hx as [Hx|[<-|Hx]]; auto. unfold is_keyed in Hk. rewrite Hy in Hk. discriminate.
Qed.

Lemma insert_loop_in {B} i (xs l : list B) x : In x (insert_loop i xs l) <-> In x xs \/ In x l.
Proof.
  revert i l. induction xs as [|y xs IH]; intros i l; simpl; [tauto|].
  rewrite IH. unfold insert_at. rewrite in_app_iff. simpl.
  assert (H : In x l <-> In x (firstn i l) \/ In x (skipn i l))
    by (rewrite <- (firstn_skipn i l) at 1; apply in_app_iff).
  tauto.
Qed.

Lemma gen_insert_from mex tgt new l :
  from new l (r_st (gen_insert kof keqb mex tgt new l)) /\
  (forall x, In x l -> In x (r_st (gen_insert kof keqb mex tgt new l))).
Proof.
  unfold gen_insert. destruct (locate_target kof keqb tgt l);
    cbn [r_st ok fail raise_merge]; try (split; [apply from_refl | auto]).
  - split; [intros x Hx; apply insert_loop_in in Hx; tauto | intros x Hx; apply insert_loop_in; tauto].
  - split; [intros x Hx; apply insert_loop_in in Hx; tauto | intros x Hx; apply insert_loop_in; tauto].
Qed.

End Incl.

(* ---- the invariant on roCreate's children *)
Lemma wf_rc_forall rc : wf_rc rc = forallb story_elem_ok (kids_of rc).
Proof.
  unfold wf_rc, no_bad, story_elem_ok. induction (kids_of rc) as [|c l IH]; [reflexivity|].
  simpl. rewrite <- IH. destruct (skey c); simpl; try reflexivity;
    destruct (wf_story c); simpl; rewrite ?andb_false_r; reflexivity.
Qed.

Lemma forallb_from {B} (Q : B -> bool) new l l' :
  forallb Q l = true -> forallb Q new = true ->
  (forall x, In x l' -> In x l \/ In x new) -> forallb Q l' = true.
Proof.
  intros Hl Hn H. rewrite forallb_forall in *. intros x Hx. destruct (H x Hx); auto.
Qed.

Lemma forallb_update_nth {B} (Q : B -> bool) i f (l : list B) :
  forallb Q l = true -> (forall x, nth_error l i = Some x -> Q (f x) = true) ->
  forallb Q (update_nth i f l) = true.
Proof.
  revert i. induction l as [|y l IH]; intros [|i] Hl Hf; simpl in *; auto;
    apply andb_prop in Hl as [Hy Hl]; apply andb_true_intro; split; auto.
Qed.

Lemma carried_story_ok l :
  carried_ok t_story t_storyID l = true -> forallb wf_story l = true ->
  forallb story_elem_ok l = true.
Proof. intros _ _. apply forallb_forall. intros x _. apply story_elem_ok_true. Qed.

Lemma carried_item_not_bad l :
  carried_ok t_item t_itemID l = true -> no_bad ikey l = true.
Proof. intros _. apply no_bad_ckey. Qed.

(* an item-level edit keeps the story well formed *)
Lemma item_edit_ok s new ik' :
  story_elem_ok s = true -> has_tag t_story s = true -> no_bad ikey new = true ->
  from new (kids_of s) ik' -> keeps_unkeyed ikey (kids_of s) ik' ->
  story_elem_ok (set_kids s ik') = true.
Proof. intros. apply story_elem_ok_true. Qed.

Lemma with_story_ok sid kids missing f :
  forallb story_elem_ok kids = true -> r_st missing = kids ->
  (forall i s, find_story sid kids = FFound i -> nth_error kids i = Some s ->
               story_elem_ok (set_kids s (r_st (f (kids_of s)))) = true) ->
  forallb story_elem_ok (r_st (with_story sid kids missing f)) = true.
Proof.
  intros Hk Hm Hf. unfold with_story.
  destruct (find_story sid kids) as [i| |] eqn:E; [|now rewrite Hm | assumption].
  destruct (nth_error kids i) as [s|] eqn:En; [|assumption].
  cbn [map_res r_st]. apply forallb_update_nth; [assumption|].
  intros x Hx. rewrite En in Hx. injection Hx as <-. now apply (Hf i s).
Qed.

Lemma md_loop_from srcs kids : from srcs kids (md_loop srcs kids).
Proof.
  revert kids. induction srcs as [|s srcs IH]; intros kids; simpl; [apply from_refl|].
  intros x Hx. destruct (IH _ x Hx) as [H|H]; [|right; now right].
  destruct (md_index s kids) as [i|].
  - unfold replace_at in H. rewrite insert_at_many in H. apply in_insert_many in H as [[<-|[]]|H].
    + right. now left.
    + left. eapply in_remove_at; eauto.
  - apply in_app_or in H as [H|[<-|[]]]; [now left | right; now left].
Qed.

Section Wf.
Variable o : oracles.

Theorem merge_kids_wf k m b rc :
  wf_rc rc = true -> schema_ok k m = true -> payload_wf k m = true -> base_of k m = Some b ->
  forallb story_elem_ok (r_st (merge_kids o k m b rc)) = true.
Proof.
  intros Hwf Hs Hp Hbase. rewrite wf_rc_forall in Hwf.
  unfold schema_ok in Hs. apply andb_prop in Hs as [Hm Hs]. rewrite Hbase in Hs.
  unfold payload_wf in Hp. rewrite Hbase in Hp.
  set (kids := kids_of rc) in *.
  assert (Hstory : forall sid i s, find_story sid kids = FFound i -> nth_error kids i = Some s ->
                     story_elem_ok s = true /\ has_tag t_story s = true).
  { intros sid i s Hf Hn. split; [|eapply found_story_is_story; eauto].
    rewrite forallb_forall in Hwf. apply Hwf. eapply nth_error_In; eauto. }
  (* item-level edits *)
  assert (Hitem : forall sid missing f new,
            r_st missing = kids -> no_bad ikey new = true ->
            (forall ik, from new ik (r_st (f ik)) /\ keeps_unkeyed ikey ik (r_st (f ik))) ->
            forallb story_elem_ok (r_st (with_story sid kids missing f)) = true).
  { intros sid missing f new Hmiss Hnew Hf. apply with_story_ok; auto.
    intros i s Hfs Hn. destruct (Hstory sid i s Hfs Hn) as [Hok Htag].
    destruct (Hf (kids_of s)) as [H1 H2]. exact (item_edit_ok s new _ Hok Htag Hnew H1 H2). }
  assert (Hfrom_story : forall new l', forallb story_elem_ok new = true -> from new kids l' ->
                          forallb story_elem_ok l' = true).
  { intros new l' Hn Hf. apply (forallb_from _ new kids l'); auto. }
  unfold merge_kids. fold kids.
  destruct k; cbn [r_st ok].
  - assumption.
  - (* StorySend *)
    destruct (convert_story_send b) as [s|] eqn:Ec; [|assumption].
    destruct (find_story (story_id s) kids) as [i| |] eqn:E; [|destruct (msg_id_exn m); assumption|assumption].
    cbn [r_st ok]. unfold find_story in E. destruct (story_id s) as [t|] eqn:Et; [|discriminate].
    pose proof (gen_replace_from skey str_eqb str_eqb_eq None (Some t) [s] kids) as [Hf _].
    unfold gen_replace in Hf. rewrite E in Hf. cbn [r_st ok] in Hf.
    apply (Hfrom_story [s]); [|assumption]. simpl. rewrite andb_true_r. unfold story_elem_ok.
    rewrite (skey_converted b s t Ec Et). now rewrite Hp.
  - (* StoryAppend *)
    rewrite forallb_app, Hwf. now apply carried_story_ok.
  - apply (Hfrom_story []); [reflexivity | apply delete_loop_from].
  - (* StoryInsert *)
    destruct (find_story (first_story_id b) kids); [|destruct (msg_id_exn m); assumption|assumption].
    destruct (ro_stories_err o rc); [assumption|].
    apply (Hfrom_story (carried t_story b)); [now apply carried_story_ok | apply insert_dups_from].
  - (* StoryMove *)
    destruct (story_move_source b); [|destruct (msg_id_exn m); assumption].
    apply (Hfrom_story []); [reflexivity|].
    apply (perm_from skey). apply (gen_move_total skey str_eqb str_eqb_eq).
  - (* StoryReplace *)
    destruct (find_story (first_story_id b) kids) as [i| |] eqn:E;
      [|destruct (msg_id_exn m); assumption|assumption].
    destruct (carried t_story b) as [|n0 nr] eqn:Ecar; [destruct (msg_id_exn m); assumption|].
    cbn [r_st ok]. unfold find_story in E. destruct (first_story_id b) as [t|]; [|discriminate].
    pose proof (gen_replace_from skey str_eqb str_eqb_eq None (Some t) (n0 :: nr) kids) as [Hf _].
    unfold gen_replace in Hf. rewrite E in Hf. cbn [r_st ok] in Hf.
    apply (Hfrom_story (n0 :: nr)); [now apply carried_story_ok | assumption].
  - (* ItemDelete *)
    apply (Hitem _ _ _ []); [destruct (msg_id_exn m); reflexivity | reflexivity|].
    intros ik. split; [apply delete_loop_from | apply (delete_loop_keeps ikey str_eqb str_eqb_eq)].
  - (* ItemInsert *)
    apply (Hitem _ _ _ (carried t_item b));
      [destruct (msg_id_exn m); reflexivity | now apply carried_item_not_bad|].
    intros ik. destruct (gen_insert_from ikey str_eqb (msg_id_exn m) (first_item_id b) (carried t_item b) ik) as [H1 H2].
    split; [assumption | intros x Hx _; auto].
  - (* ItemMoveMultiple *)
    destruct (first_story_id b) as [sid0|]; [|destruct (msg_id_exn m); assumption].
    apply (Hitem _ _ _ []); [destruct (msg_id_exn m); reflexivity | reflexivity|].
    intros ik. destruct (imm_target b); [|split; [apply from_refl | apply keeps_refl]].
    apply (perm_or_same_from ikey). apply (gen_move_total ikey str_eqb str_eqb_eq).
  - (* ItemReplace *)
    apply (Hitem _ _ _ (carried t_item b));
      [destruct (msg_id_exn m); reflexivity | now apply carried_item_not_bad|].
    intros ik. apply (gen_replace_from ikey str_eqb str_eqb_eq).
  - assumption.
  - (* MetaDataReplace *)
    apply (Hfrom_story (kids_of b)); [assumption | apply md_loop_from].
  - assumption.
  - assumption.
  - (* EAStoryReplace *)
    apply (Hfrom_story (ea_carried t_story b)); [now apply carried_story_ok|].
    apply (gen_replace_from skey str_eqb str_eqb_eq).
  - (* EAItemReplace *)
    apply (Hitem _ _ _ (ea_carried t_item b));
      [destruct (msg_id_exn m); reflexivity | now apply carried_item_not_bad|].
    intros ik. apply (gen_replace_from ikey str_eqb str_eqb_eq).
  - apply (Hfrom_story []); [reflexivity | apply delete_loop_from].
  - (* EAItemDelete *)
    apply (Hitem _ _ _ []); [destruct (msg_id_exn m); reflexivity | reflexivity|].
    intros ik. split; [apply delete_loop_from | apply (delete_loop_keeps ikey str_eqb str_eqb_eq)].
  - (* EAStoryInsert *)
    destruct (locate_target skey str_eqb (ea_target_id t_storyID b) kids);
      try (destruct (msg_id_exn m); assumption); try assumption.
    + destruct (ro_stories_err o rc); [assumption|].
      apply (Hfrom_story (ea_carried t_story b)); [now apply carried_story_ok | apply insert_dups_from].
    + destruct (ro_stories_err o rc); [assumption|].
      apply (Hfrom_story (ea_carried t_story b)); [now apply carried_story_ok | apply insert_dups_from].
  - (* EAItemInsert *)
    apply (Hitem _ _ _ (ea_carried t_item b));
      [destruct (msg_id_exn m); reflexivity | now apply carried_item_not_bad|].
    intros ik. destruct (gen_insert_from ikey str_eqb (msg_id_exn m) (ea_target_id t_itemID b) (ea_carried t_item b) ik) as [H1 H2].
    split; [assumption | intros x Hx _; auto].
  - (* EAStorySwap *)
    apply (Hfrom_story []); [reflexivity|].
    apply (perm_from skey). apply (gen_swap_total skey str_eqb str_eqb_eq).
  - (* EAItemSwap *)
    apply (Hitem _ _ _ []); [destruct (msg_id_exn m); reflexivity | reflexivity|].
    intros ik. apply (perm_or_same_from ikey). apply (gen_swap_total ikey str_eqb str_eqb_eq).
  - (* EAStoryMove *)
    apply (Hfrom_story []); [reflexivity|].
    apply (perm_from skey). apply (gen_move_total skey str_eqb str_eqb_eq).
  - (* EAItemMove *)
    apply (Hitem _ _ _ []); [destruct (msg_id_exn m); reflexivity | reflexivity|].
    intros ik. apply (perm_or_same_from ikey). apply (gen_move_total ikey str_eqb str_eqb_eq).
Qed.

End Wf.

(* ---- the invariant on the document *)
Lemma find_index_split t l i :
  find_index t l = Some i ->
  exists pre e post, l = pre ++ e :: post /\ length pre = i /\ has_tag t e = true /\
    forall y, In y pre -> has_tag t y = false.
Proof.
  revert i. induction l as [|c l IH]; intros i H; simpl in H; [discriminate|].
  destruct (has_tag t c) eqn:E.
  - injection H as <-. exists [], c, l. repeat split; auto. intros ? [].
  - destruct (find_index t l) as [j|]; [|discriminate]. injection H as <-.
    destruct (IH j eq_refl) as (pre & e & post & -> & <- & He & Hpre).
    exists (c :: pre), e, post. repeat split; auto. intros y [<-|Hy]; auto.
Qed.

Lemma find_app_found t l l' e : find t l = Some e -> find t (l ++ l') = Some e.
Proof.
  induction l as [|c l IH]; simpl; [discriminate|]. destruct (has_tag t c); auto.
Qed.

Lemma has_tag_set_tag t e : has_tag t (set_tag e t) = true.
Proof. destruct e. unfold has_tag. simpl. apply str_eqb_refl. Qed.
Lemma kids_set_tag e t : kids_of (set_tag e t) = kids_of e.
Proof. now destruct e. Qed.

Section WfDoc.
Variable o : oracles.

Theorem add_wf ro k m :
  wf_ro ro = true -> schema_ok k m = true -> payload_wf k m = true ->
  wf_ro (r_st (add o ro k m)) = true.
Proof.
  intros Hwf Hs Hp. unfold add. destruct (ro_completed ro); [assumption|].
  pose proof Hwf as Hwf0. unfold wf_ro in Hwf. destruct (rc_of ro) as [rc|] eqn:Hrc; [|discriminate].
  pose proof Hs as Hs0. unfold schema_ok in Hs. apply andb_prop in Hs as [Hm Hs].
  destruct (base_of k m) as [b|] eqn:Hb; [|discriminate].
  destruct (edits_rc k) eqn:Hk.
  - rewrite (merge_lift o k ro m b rc Hk Hb Hrc). cbn [map_res r_st].
    unfold wf_ro. rewrite (rc_of_put_kids ro rc _ Hrc). rewrite wf_rc_forall, kids_set_kids.
    now apply merge_kids_wf.
  - unfold merge. rewrite Hb. destruct k; try discriminate Hk.
    + assumption.
    + unfold rc_of in Hrc. destruct (find_index t_roCreate (kids_of ro)) as [i|] eqn:Ei; [|assumption].
      cbn [r_st ok]. unfold wf_ro, rc_of. rewrite kids_set_kids.
      destruct (find_index_split _ _ _ Ei) as (pre & e & post & El & <- & He & Hpre).
      rewrite El, replace_at_app.
      rewrite (find_app_first t_roCreate pre _ post (has_tag_set_tag _ _) Hpre).
      unfold wf_rc in *. now rewrite kids_set_tag.
    + cbn [r_st ok]. unfold wf_ro, rc_of in *. rewrite kids_set_kids.
      now rewrite (find_app_found _ _ _ _ Hrc).
Qed.

(* along any history of schema-shaped messages the running order stays well formed *)
Definition msg_wf (km : mclass * xml) : bool := schema_ok (fst km) (snd km) && payload_wf (fst km) (snd km).

Theorem history_wf ro (h : list (mclass * xml)) :
  wf_ro ro = true -> forallb msg_wf h = true ->
  wf_ro (fold_left (fun s km => r_st (add o s (fst km) (snd km))) h ro) = true.
Proof.
  revert ro. induction h as [|[k m] h IH]; intros ro Hwf Hh; [assumption|].
  simpl in *. apply andb_prop in Hh as [Hkm Hh]. unfold msg_wf in Hkm. simpl in Hkm.
  apply andb_prop in Hkm as [H1 H2]. apply IH; [|assumption]. now apply add_wf.
Qed.

End WfDoc.
