(* SeqFacts.v — the generic edits of Seq.v meet the protocol of Spec.v on IDs,
   leave the un-keyed children alone, and keep every element they do not name. *)
From Coq Require Import List Bool Arith Lia Permutation.
Import ListNotations.
From Mos Require Import Str Xml Outcome Seq Spec.
From Mos.proofs Require Import ListFacts.

Section Facts.
Context {A K : Type}.
Variable kof : A -> kres K.
Variable keqb : K -> K -> bool.
Hypothesis keqb_eq : forall a b, keqb a b = true <-> a = b.

Notation key_is := (key_is kof keqb).
Notation lookup := (lookup kof keqb).
Notation keys := (keys kof).
Notation others := (others kof).
Notation no_bad := (no_bad kof).
Notation oeq := (oeq keqb).

Lemma keqb_refl a : keqb a a = true.
Proof. now apply keqb_eq. Qed.

(* ---- keys / others distribute *)
Lemma keys_app l1 l2 : keys (l1 ++ l2) = keys l1 ++ keys l2.
Proof. apply flat_map_app. Qed.
Lemma others_app l1 l2 : others (l1 ++ l2) = others l1 ++ others l2.
Proof. apply filter_app. Qed.
Lemma no_bad_app l1 l2 : no_bad (l1 ++ l2) = no_bad l1 && no_bad l2.
Proof. apply forallb_app. Qed.

Lemma keys_cons x l : keys (x :: l) = keys [x] ++ keys l.
Proof. apply (keys_app [x] l). Qed.
Lemma others_cons x l : others (x :: l) = others [x] ++ others l.
Proof. apply (others_app [x] l). Qed.

Lemma keys_keyed x k : kof x = KKey k -> keys [x] = [k].
Proof. unfold Seq.keys. simpl. now intros ->. Qed.
Lemma others_keyed x k : kof x = KKey k -> others [x] = [].
Proof. unfold Seq.others, is_keyed. simpl. now intros ->. Qed.

(* all elements keyed: nothing among the others *)
Definition all_keyed (l : list A) : bool := forallb (is_keyed kof) l.
Lemma others_all_keyed l : all_keyed l = true -> others l = [].
Proof.
  induction l as [|x l IH]; simpl; [reflexivity|].
  intros H. apply andb_prop in H as [Hx Hl]. unfold Seq.others in *. simpl.
  rewrite Hx. simpl. now apply IH.
Qed.
Lemma no_bad_all_keyed l : all_keyed l = true -> no_bad l = true.
Proof.
  induction l as [|x l IH]; simpl; [reflexivity|].
  intros H. apply andb_prop in H as [Hx Hl]. rewrite (IH Hl), andb_true_r.
  unfold is_keyed in Hx. now destruct (kof x).
Qed.

(* ---- find_from / lookup *)
Lemma key_is_oeq x k id : kof x = KKey k -> key_is id x = oeq k id.
Proof. unfold Seq.key_is, Spec.oeq. now intros ->. Qed.

Lemma find_from_found id l n i :
  find_from kof keqb id l n = FFound i ->
  exists pre x post, l = pre ++ x :: post /\ i = n + length pre /\ kof x = KKey (Some id) /\
    (forall y, In y pre -> key_is id y = false).
Proof.
  revert n. induction l as [|c r IH]; intros n H; simpl in H; [discriminate|].
  destruct (kof c) as [| |k] eqn:E.
  - apply IH in H as (pre & x & post & -> & -> & Hk & Hpre).
    exists (c :: pre), x, post. split; [reflexivity|]. split; [simpl; lia|]. split; [assumption|].
    intros y [<-|Hy]; auto. unfold Seq.key_is. now rewrite E.
  - discriminate.
  - destruct k as [k'|].
    + destruct (keqb k' id) eqn:Ek.
      * injection H as <-. apply keqb_eq in Ek as ->.
        exists [], c, r. split; [reflexivity|]. split; [simpl; lia|]. split; [assumption | intros ? []].
      * apply IH in H as (pre & x & post & -> & -> & Hk & Hpre).
        exists (c :: pre), x, post. split; [reflexivity|]. split; [simpl; lia|]. split; [assumption|].
        intros y [<-|Hy]; auto. unfold Seq.key_is. now rewrite E.
    + apply IH in H as (pre & x & post & -> & -> & Hk & Hpre).
      exists (c :: pre), x, post. split; [reflexivity|]. split; [simpl; lia|]. split; [assumption|].
      intros y [<-|Hy]; auto. unfold Seq.key_is. now rewrite E.
Qed.

Lemma find_from_none id l n :
  find_from kof keqb id l n = FNone -> forall y, In y l -> key_is id y = false.
Proof.
  revert n. induction l as [|c r IH]; intros n H y Hy; simpl in *; [destruct Hy|].
  unfold Seq.key_is in *.
  destruct (kof c) as [| |k] eqn:E; try discriminate.
  - destruct Hy as [<-|Hy]; [now rewrite E | eauto].
  - destruct k as [k'|].
    + destruct (keqb k' id) eqn:Ek; [discriminate|].
      destruct Hy as [<-|Hy]; [now rewrite E | eauto].
    + destruct Hy as [<-|Hy]; [now rewrite E | eauto].
Qed.

Lemma find_from_no_attr id l n : no_bad l = true -> find_from kof keqb id l n <> FAttr.
Proof.
  revert n. induction l as [|c r IH]; intros n H; simpl in *; [discriminate|].
  apply andb_prop in H as [Hc Hr].
  destruct (kof c) as [| |k]; try discriminate; auto.
  destruct (match k with Some k' => keqb k' id | None => false end); [discriminate|auto].
Qed.

(* find_from in a list split at the first match *)
Lemma find_from_split id pre x post n :
  (forall y, In y pre -> key_is id y = false) -> no_bad pre = true ->
  kof x = KKey (Some id) ->
  find_from kof keqb id (pre ++ x :: post) n = FFound (n + length pre).
Proof.
  revert n. induction pre as [|c pre IH]; intros n Hpre Hb Hx; simpl.
  - rewrite Hx, keqb_refl. f_equal. lia.
  - simpl in Hb. apply andb_prop in Hb as [Hc Hb].
    assert (Hk := Hpre c (or_introl eq_refl)). unfold Seq.key_is in Hk.
    destruct (kof c) as [| |k]; try discriminate.
    + rewrite IH; auto; [f_equal; lia | intros y Hy; apply Hpre; now right].
    + rewrite Hk. rewrite IH; auto; [f_equal; lia | intros y Hy; apply Hpre; now right].
Qed.

Lemma find_from_absent id l n :
  (forall y, In y l -> key_is id y = false) -> no_bad l = true ->
  find_from kof keqb id l n = FNone.
Proof.
  revert n. induction l as [|c l IH]; intros n Hl Hb; simpl; [reflexivity|].
  simpl in Hb. apply andb_prop in Hb as [Hc Hb].
  assert (Hk := Hl c (or_introl eq_refl)). unfold Seq.key_is in Hk.
  destruct (kof c) as [| |k]; try discriminate.
  - apply IH; auto. intros y Hy. apply Hl. now right.
  - rewrite Hk. apply IH; auto. intros y Hy. apply Hl. now right.
Qed.

(* ---- the ID view of "no element before has this ID" *)
Lemma keys_not_id id l :
  (forall y, In y l -> key_is id y = false) -> forall a, In a (keys l) -> oeq a id = false.
Proof.
  induction l as [|y l IH]; intros H a Ha; simpl in Ha; [destruct Ha|].
  apply in_app_or in Ha as [Ha|Ha].
  - specialize (H y (or_introl eq_refl)). unfold Seq.key_is in H.
    destruct (kof y) as [| |k]; simpl in Ha; [destruct Ha | destruct Ha | destruct Ha as [<-|[]]; exact H].
  - apply IH; auto. intros z Hz. apply H. now right.
Qed.

Lemma not_id_keys id l :
  no_bad l = true -> (forall a, In a (keys l) -> oeq a id = false) ->
  forall y, In y l -> key_is id y = false.
Proof.
  induction l as [|x l IH]; intros Hb H y Hy; [destruct Hy|].
  simpl in Hb. apply andb_prop in Hb as [Hx Hb]. simpl in H.
  destruct Hy as [<-|Hy].
  - unfold Seq.key_is. destruct (kof x) as [| |k] eqn:E; auto.
    apply H. apply in_or_app. left. now left.
  - apply IH; auto. intros a Ha. apply H. apply in_or_app. now right.
Qed.

Lemma sp_mem_false id l : (forall a, In a l -> oeq a id = false) -> sp_mem keqb id l = false.
Proof.
  induction l as [|a l IH]; intros H; simpl; [reflexivity|].
  rewrite (H a (or_introl eq_refl)). apply IH. intros b Hb. apply H. now right.
Qed.

Lemma sp_mem_app id l1 l2 : sp_mem keqb id (l1 ++ l2) = sp_mem keqb id l1 || sp_mem keqb id l2.
Proof. apply existsb_app. Qed.

(* ---- spec-level list facts *)
Lemma sp_remove1_absent id l : (forall a, In a l -> oeq a id = false) -> sp_remove1 keqb id l = l.
Proof.
  induction l as [|a l IH]; intros H; simpl; [reflexivity|].
  rewrite (H a (or_introl eq_refl)). f_equal. apply IH. intros b Hb. apply H. now right.
Qed.

Lemma sp_remove1_split id pre post :
  (forall a, In a pre -> oeq a id = false) ->
  sp_remove1 keqb id (pre ++ Some id :: post) = pre ++ post.
Proof.
  induction pre as [|a pre IH]; intros H; simpl.
  - now rewrite keqb_refl.
  - rewrite (H a (or_introl eq_refl)). f_equal. apply IH. intros b Hb. apply H. now right.
Qed.

Lemma sp_mem_split id pre post : sp_mem keqb id (pre ++ Some id :: post) = true.
Proof. rewrite sp_mem_app. simpl. rewrite keqb_refl. simpl. apply orb_true_r. Qed.

Lemma sp_insert_before_split t new pre post :
  (forall a, In a pre -> oeq a t = false) ->
  sp_insert_before keqb t new (pre ++ Some t :: post) = Some (pre ++ new ++ Some t :: post).
Proof.
  induction pre as [|a pre IH]; intros H; simpl.
  - now rewrite keqb_refl.
  - rewrite (H a (or_introl eq_refl)). rewrite IH; [reflexivity|]. intros b Hb. apply H. now right.
Qed.

Lemma sp_replace_split t new pre post :
  (forall a, In a pre -> oeq a t = false) ->
  sp_replace keqb t new (pre ++ Some t :: post) = Some (pre ++ new ++ post).
Proof.
  induction pre as [|a pre IH]; intros H; simpl.
  - now rewrite keqb_refl.
  - rewrite (H a (or_introl eq_refl)). rewrite IH; [reflexivity|]. intros b Hb. apply H. now right.
Qed.

(* ---- the split form of a successful lookup, on elements and on IDs *)
Lemma lookup_found id l i :
  lookup (Some id) l = FFound i ->
  exists pre x post, l = pre ++ x :: post /\ i = length pre /\ kof x = KKey (Some id) /\
    (forall y, In y pre -> key_is id y = false) /\
    (forall a, In a (keys pre) -> oeq a id = false) /\
    keys l = keys pre ++ Some id :: keys post /\
    others l = others pre ++ others post.
Proof.
  intros H. apply find_from_found in H as (pre & x & post & -> & -> & Hx & Hpre).
  exists pre, x, post. repeat (split; [easy|]). split; [now apply keys_not_id|]. split.
  - rewrite keys_app. f_equal. change (x :: post) with ([x] ++ post).
    rewrite keys_app, (keys_keyed _ _ Hx). reflexivity.
  - rewrite others_app. f_equal. change (x :: post) with ([x] ++ post).
    rewrite others_app, (others_keyed _ _ Hx). reflexivity.
Qed.

Lemma lookup_none id l :
  lookup (Some id) l = FNone -> forall a, In a (keys l) -> oeq a id = false.
Proof. intros H. apply keys_not_id. eapply find_from_none. exact H. Qed.

Lemma lookup_no_attr id l : no_bad l = true -> lookup id l <> FAttr.
Proof. destruct id as [s|]; simpl; [apply find_from_no_attr | discriminate]. Qed.

Lemma no_bad_remove_at i l : no_bad l = true -> no_bad (remove_at i l) = true.
Proof.
  revert i. induction l as [|x l IH]; intros [|i] H; simpl in *; auto.
  - now apply andb_prop in H.
  - apply andb_prop in H as [Hx Hl]. rewrite Hx. simpl. now apply IH.
Qed.

(* ---- delete *)
Section NoMex.
(* the message ID is an integer: raising and warning work (schema-shaped message) *)
Notation delete_loop := (delete_loop kof keqb None).

Lemma delete_loop_spec w ids l :
  no_bad l = true ->
  let r := delete_loop w ids l in
  r_err r = None /\ keys (r_st r) = sp_delete keqb ids (keys l) /\ others (r_st r) = others l
  /\ r_ws r = repeat w (sp_missing keqb ids (keys l)) /\ no_bad (r_st r) = true.
Proof.
  revert l. induction ids as [|id ids IH]; intros l Hb; simpl.
  - repeat split; auto.
  - destruct id as [id|].
    + destruct (lookup (Some id) l) as [i| |] eqn:E.
      * destruct (lookup_found _ _ _ E) as (pre & x & post & -> & -> & Hx & _ & Hpre & Hk & Ho).
        rewrite remove_at_app.
        rewrite no_bad_app in Hb. simpl in Hb. apply andb_prop in Hb as [Hb1 Hb2].
        apply andb_prop in Hb2 as [_ Hb2].
        destruct (IH (pre ++ post)) as (He & Hkeys & Hoth & Hws & Hnb).
        { rewrite no_bad_app. now rewrite Hb1, Hb2. }
        rewrite Hk, sp_mem_split, sp_remove1_split by exact Hpre.
        rewrite He, Hkeys, Hoth, Hws, keys_app, others_app, Ho. repeat split; auto.
      * assert (Hn := lookup_none _ _ E).
        rewrite (sp_mem_false _ _ Hn), (sp_remove1_absent _ _ Hn).
        destruct (IH l Hb) as (He & Hkeys & Hoth & Hws & Hnb).
        unfold bind, emit. simpl. rewrite He, Hkeys, Hoth, Hws. repeat split; auto.
      * exfalso. eapply lookup_no_attr; eauto.
    + destruct (IH l Hb) as (He & Hkeys & Hoth & Hws & Hnb).
      unfold bind, emit. simpl. rewrite He, Hkeys, Hoth, Hws. repeat split; auto.
Qed.

(* what remains when the elements named by ids are dropped: unchanged by the deletion *)
Definition named_by (ids : list (option K)) (x : A) : bool :=
  existsb (fun id => match id with Some i => key_is i x | None => false end) ids.

Lemma delete_loop_frame w ids l :
  no_bad l = true ->
  filter (fun x => negb (named_by ids x)) (r_st (delete_loop w ids l))
  = filter (fun x => negb (named_by ids x)) l.
Proof.
  assert (Hgen : forall ids0 ids l, no_bad l = true ->
            (forall id, In id ids -> In id ids0) ->
            filter (fun x => negb (named_by ids0 x)) (r_st (delete_loop w ids l))
            = filter (fun x => negb (named_by ids0 x)) l).
  { clear ids l. intros ids0 ids. induction ids as [|id ids IH]; intros l Hb Hin; simpl; [reflexivity|].
    destruct id as [id|].
    - destruct (lookup (Some id) l) as [i| |] eqn:E.
      + destruct (lookup_found _ _ _ E) as (pre & x & post & -> & -> & Hx & _).
        rewrite remove_at_app.
        rewrite no_bad_app in Hb. simpl in Hb. apply andb_prop in Hb as [Hb1 Hb2].
        apply andb_prop in Hb2 as [_ Hb2].
        rewrite IH; [| rewrite no_bad_app; now rewrite Hb1, Hb2 | intros; apply Hin; now right].
        rewrite !filter_app. f_equal. simpl.
        assert (Hn : named_by ids0 x = true).
        { unfold named_by. apply existsb_exists. exists (Some id). split; [apply Hin; now left|].
          unfold Seq.key_is. rewrite Hx. apply keqb_refl. }
        now rewrite Hn.
      + unfold bind, emit. simpl. apply IH; auto. intros; apply Hin; now right.
      + exfalso. eapply lookup_no_attr; eauto.
    - unfold bind, emit. simpl. apply IH; auto. intros; apply Hin; now right. }
  intros Hb. apply Hgen; auto.
Qed.

(* ---- insert *)
Lemma sp_insert_before_absent t new l :
  (forall a, In a l -> oeq a t = false) -> sp_insert_before keqb t new l = None.
Proof.
  induction l as [|a l IH]; intros H; simpl; [reflexivity|].
  rewrite (H a (or_introl eq_refl)). rewrite IH; [reflexivity|]. intros b Hb. apply H. now right.
Qed.
Lemma sp_replace_absent t new l :
  (forall a, In a l -> oeq a t = false) -> sp_replace keqb t new l = None.
Proof.
  induction l as [|a l IH]; intros H; simpl; [reflexivity|].
  rewrite (H a (or_introl eq_refl)). rewrite IH; [reflexivity|]. intros b Hb. apply H. now right.
Qed.

Lemma gen_insert_spec tgt new l :
  no_bad l = true ->
  let r := gen_insert kof keqb None tgt new l in
  r_ws r = [] /\
  match sp_insert keqb tgt (keys new) (keys l) with
  | Some ks =>
    r_err r = None /\ keys (r_st r) = ks /\
    (exists pre post, l = pre ++ post /\ r_st r = pre ++ new ++ post)
  | None => r_err r = Some MosMergeError /\ r_st r = l
  end.
Proof.
  intros Hb. unfold gen_insert, locate_target. destruct tgt as [t|]; simpl.
  - destruct (find_from kof keqb t l 0) as [i| |] eqn:E.
    + destruct (lookup_found t l i E) as (pre & x & post & -> & -> & Hx & _ & Hpre & Hk & _).
      rewrite Hk, sp_insert_before_split by exact Hpre. simpl.
      rewrite insert_loop_many by (rewrite app_length; lia). rewrite insert_many_app.
      split; [reflexivity|]. split; [reflexivity|]. split.
      * rewrite !keys_app. f_equal. f_equal. change (x :: post) with ([x] ++ post).
        now rewrite keys_app, (keys_keyed _ _ Hx).
      * now exists pre, (x :: post).
    + rewrite sp_insert_before_absent by (apply (lookup_none t l E)). simpl. auto.
    + exfalso. now apply (find_from_no_attr t l 0 Hb).
  - rewrite insert_loop_many by lia. rewrite insert_many_end. simpl.
    split; [reflexivity|]. split; [reflexivity|]. split; [apply keys_app|].
    exists l, []. now rewrite !app_nil_r.
Qed.

(* ---- replace *)
Lemma gen_replace_spec tgt new l :
  no_bad l = true ->
  let r := gen_replace kof keqb None tgt new l in
  r_ws r = [] /\
  match (match tgt with Some t => sp_replace keqb t (keys new) (keys l) | None => None end) with
  | Some ks =>
    r_err r = None /\ keys (r_st r) = ks /\
    (exists pre x post, l = pre ++ x :: post /\ kof x = KKey tgt /\
       (forall y, In y pre -> kof y <> KKey tgt) /\ r_st r = pre ++ new ++ post)
  | None => r_err r = Some MosMergeError /\ r_st r = l
  end.
Proof.
  intros Hb. unfold gen_replace. destruct tgt as [t|]; simpl; [|auto].
  destruct (find_from kof keqb t l 0) as [i| |] eqn:E.
  - destruct (lookup_found t l i E) as (pre & x & post & -> & -> & Hx & Hpre0 & Hpre & Hk & _).
    rewrite Hk, sp_replace_split by exact Hpre. simpl.
    unfold replace_with. rewrite remove_at_app.
    rewrite insert_loop_many by (rewrite app_length; lia). rewrite insert_many_app.
    split; [reflexivity|]. split; [reflexivity|]. split.
    + now rewrite !keys_app.
    + exists pre, x, post. repeat split; auto.
      intros y Hy Hky. specialize (Hpre0 y Hy). unfold Seq.key_is in Hpre0.
      rewrite Hky, keqb_refl in Hpre0. discriminate.
  - rewrite sp_replace_absent by (apply (lookup_none t l E)). simpl. auto.
  - exfalso. now apply (find_from_no_attr t l 0 Hb).
Qed.

(* ---- insert with duplicates skipped *)
Section Dups.
Variable id_of : A -> option K.
Variable okeqb : option K -> option K -> bool.

Fixpoint fresh_elems (seen : list (option K)) (new : list A) : list A :=
  match new with
  | [] => []
  | s :: r =>
    if existsb (okeqb (id_of s)) seen then fresh_elems seen r
    else s :: fresh_elems (id_of s :: seen) r
  end.

Lemma fresh_elems_ids seen new :
  map id_of (fresh_elems seen new) = sp_fresh okeqb seen (map id_of new).
Proof.
  revert seen. induction new as [|s r IH]; intros seen; simpl; [reflexivity|].
  destruct (existsb (okeqb (id_of s)) seen); simpl; now rewrite IH.
Qed.

Lemma insert_dups_spec w seen i new l :
  i <= length l ->
  let r := insert_dups None id_of okeqb w seen i new l in
  r_err r = None /\ r_st r = insert_many i (fresh_elems seen new) l /\
  r_ws r = repeat w (sp_dups okeqb seen (map id_of new)).
Proof.
  revert seen i l. induction new as [|s r IH]; intros seen i l Hi; simpl.
  - repeat split; auto. symmetry. now apply insert_many_nil.
  - destruct (existsb (okeqb (id_of s)) seen).
    + destruct (IH seen i l Hi) as (He & Hs & Hw).
      unfold bind, emit. simpl. rewrite He, Hs, Hw. repeat split; auto.
    + destruct (IH (id_of s :: seen) (S i) (insert_at i s l)) as (He & Hs & Hw).
      { rewrite insert_at_length. lia. }
      rewrite He, Hs, Hw. repeat split; auto. now apply insert_many_cons.
Qed.
End Dups.

End NoMex.

End Facts.
