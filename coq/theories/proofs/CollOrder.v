(* CollOrder.v — the whole collection pipeline (readers, sorting, validation, merge loop) is
   independent of the order of the supplied documents (C10), and acceptance depends only on
   the multiset of readers (C11). *)
From Coq Require Import List Bool NArith Permutation Lia.
Import ListNotations.
From Mos Require Import Str Xml Outcome Elements Classify Messages Merge Collection.
From Mos.proofs Require Import CollFacts.

(* ---- make_readers is a map that stops at the first failure *)
Lemma make_readers_cons d ds rs :
  make_readers (d :: ds) = inr rs ->
  exists r xs, make_reader d = inr r /\ make_readers ds = inr xs /\ rs = r :: xs.
Proof.
  cbn [make_readers]. destruct (make_reader d) as [e|r]; [discriminate|].
  destruct (make_readers ds) as [e|xs]; [discriminate|].
  intros H. injection H as <-. eauto.
Qed.

Lemma make_readers_cons_ok d ds r xs :
  make_reader d = inr r -> make_readers ds = inr xs -> make_readers (d :: ds) = inr (r :: xs).
Proof. intros H1 H2. cbn [make_readers]. now rewrite H1, H2. Qed.

Lemma make_readers_perm ds ds' :
  Permutation ds ds' ->
  forall rs, make_readers ds = inr rs ->
  exists rs', make_readers ds' = inr rs' /\ Permutation rs rs'.
Proof.
  induction 1 as [|x l l' Hp IH|x y l|l l' l'' Hp1 IH1 Hp2 IH2]; intros rs Hrs.
  - exists rs. split; [exact Hrs | apply Permutation_refl].
  - apply make_readers_cons in Hrs. destruct Hrs as (r & xs & Hr & Hxs & ->).
    destruct (IH xs Hxs) as (xs' & Hxs' & Hperm).
    exists (r :: xs'). split; [now apply make_readers_cons_ok | now apply perm_skip].
  - apply make_readers_cons in Hrs. destruct Hrs as (ry & xs0 & Hy & Hxs0 & ->).
    apply make_readers_cons in Hxs0. destruct Hxs0 as (rx & xs & Hx & Hxs & ->).
    exists (rx :: ry :: xs). split; [|apply perm_swap].
    apply make_readers_cons_ok; [exact Hx|]. now apply make_readers_cons_ok.
  - destruct (IH1 rs Hrs) as (rs1 & H1 & P1). destruct (IH2 rs1 H1) as (rs2 & H2 & P2).
    exists rs2. split; [exact H2 | eapply Permutation_trans; eassumption].
Qed.

(* ---- C10 end to end: every ordering of the documents gives the same outcome - the same
   rejection, or the same merged running order with the same warnings and the same error *)
Theorem collection_merge_perm (o : oracles) ds ds' rs inc strict :
  Permutation ds ds' -> make_readers ds = inr rs -> NoDup (map rd_mid rs) ->
  collection_merge o ds' inc strict = collection_merge o ds inc strict.
Proof.
  intros Hp Hrs Hnd. destruct (make_readers_perm ds ds' Hp rs Hrs) as (rs' & Hrs' & Hperm).
  unfold collection_merge. rewrite Hrs, Hrs'.
  now rewrite (sort_readers_perm_invariant rs rs' Hperm Hnd).
Qed.

(* ---- C11: acceptance is a property of the multiset of readers *)
Lemma filter_perm {A} (f : A -> bool) l l' :
  Permutation l l' -> Permutation (filter f l) (filter f l').
Proof.
  induction 1 as [|x l l' Hp IH|x y l|l l' l'' Hp1 IH1 Hp2 IH2]; cbn [filter].
  - apply perm_nil.
  - destruct (f x); [now apply perm_skip | exact IH].
  - destruct (f x), (f y); try apply Permutation_refl. apply perm_swap.
  - eapply Permutation_trans; eassumption.
Qed.

Lemma count_class_perm k rs rs' : Permutation rs rs' -> count_class k rs = count_class k rs'.
Proof. intros Hp. unfold count_class. now apply Permutation_length, filter_perm. Qed.

Lemma accepts_perm_true rs rs' inc :
  Permutation rs rs' -> accepts rs inc = true -> accepts rs' inc = true.
Proof.
  intros Hp Ha. apply accepts_iff in Ha. destruct Ha as (Hne & Hid & H1 & H2 & H3).
  apply accepts_iff. rewrite <- !(count_class_perm _ rs rs' Hp).
  repeat split; try assumption.
  - intros ->. apply Hne. now apply Permutation_nil, Permutation_sym.
  - intros r0' r' Hh Hr'.
    destruct rs as [|r0 rs0]; [now contradiction Hne|].
    assert (Hall : forall r, In r (r0 :: rs0) -> rd_roid r = rd_roid r0)
      by (intros r Hr; now apply (Hid r0 r)).
    assert (In r0' rs') by (destruct rs'; [discriminate|]; injection Hh as ->; now left).
    rewrite (Hall r') by (eapply Permutation_in; [apply Permutation_sym|]; eassumption).
    rewrite (Hall r0') by (eapply Permutation_in; [apply Permutation_sym|]; eassumption).
    reflexivity.
Qed.

Theorem accepts_perm rs rs' inc : Permutation rs rs' -> accepts rs inc = accepts rs' inc.
Proof.
  intros Hp. destruct (accepts rs inc) eqn:E1.
  - symmetry. now apply (accepts_perm_true rs rs').
  - destruct (accepts rs' inc) eqn:E2; [|reflexivity].
    apply (accepts_perm_true rs' rs inc (Permutation_sym Hp)) in E2. congruence.
Qed.

(* ---- C10: the sort is stable, like Python's sorted(): readers with the same message ID
   keep the order in which they were supplied *)
Definition has_mid (k : N) (r : reader) : bool := N.eqb (rd_mid r) k.

Lemma insert_reader_filter k x l :
  filter (has_mid k) (insert_reader x l) =
  if has_mid k x then x :: filter (has_mid k) l else filter (has_mid k) l.
Proof.
  induction l as [|y r IH]; cbn [insert_reader].
  - cbn [filter]. reflexivity.
  - destruct (N.ltb (rd_mid y) (rd_mid x)) eqn:E.
    + cbn [filter]. rewrite IH. unfold has_mid in *.
      destruct (N.eqb_spec (rd_mid x) k) as [Ex|Ex], (N.eqb_spec (rd_mid y) k) as [Ey|Ey];
        try reflexivity.
      apply N.ltb_lt in E. lia.
    + cbn [filter]. reflexivity.
Qed.

Theorem sort_readers_stable k l :
  filter (has_mid k) (sort_readers l) = filter (has_mid k) l.
Proof.
  induction l as [|x l IH]; [reflexivity|].
  change (sort_readers (x :: l)) with (insert_reader x (sort_readers l)).
  rewrite insert_reader_filter, IH. cbn [filter]. reflexivity.
Qed.

(* ---- C11: acceptance loses no message: the readers are the selected roCreate plus the
   others, and none of the others is a roCreate *)
Lemma filter_split_perm {A} (f : A -> bool) l :
  Permutation l (filter f l ++ filter (fun x => negb (f x)) l).
Proof.
  induction l as [|x l IH]; cbn [filter]; [apply perm_nil|].
  destruct (f x); cbn [negb app].
  - now apply perm_skip.
  - now apply Permutation_cons_app.
Qed.

Theorem validate_partition rs inc rc others :
  validate rs inc = inr (rc, others) ->
  Permutation rs (rc :: others) /\ is_class RunningOrder rc = true /\
  (forall r, In r others -> is_class RunningOrder r = false).
Proof.
  intros Hv. pose proof (validate_outcome rs inc) as Ho. rewrite Hv in Ho.
  destruct Ho as [Hf ->]. repeat split.
  - pose proof (filter_split_perm (is_class RunningOrder) rs) as Hp. now rewrite Hf in Hp.
  - assert (In rc (filter (is_class RunningOrder) rs)) as Hin by (rewrite Hf; now left).
    now apply filter_In in Hin.
  - intros r Hr. apply filter_In in Hr. destruct Hr as [_ Hr]. now apply negb_true_iff.
Qed.

(* ---- C09 end to end: from the supplied documents, a collection merge is the sequential
   addition, in ascending message-ID order, of every accepted message other than the roCreate
   to the roCreate document *)
Theorem collection_merge_is_fold (o : oracles) ds inc rs rc others :
  make_readers ds = inr rs -> validate (sort_readers rs) inc = inr (rc, others) ->
  all_lib o others (rd_doc rc) = true ->
  exists r, collection_merge o ds inc false = inr r /\
    r_err r = None /\
    r_st r = fold_left (fun st rd => r_st (step o st rd)) others (rd_doc rc) /\
    r_ws r = loop_ws o others (rd_doc rc).
Proof.
  intros Hrs Hv Hall. unfold collection_merge. rewrite Hrs, Hv.
  eexists. split; [reflexivity|]. exact (nonstrict_loop o others (rd_doc rc) Hall).
Qed.
