(* Atomic.v — C05: a merge that raises leaves the running order exactly as it was. *)
From Coq Require Import List Bool Arith NArith Lia Permutation.
Import ListNotations.
From Mos Require Import Str Xml Outcome Seq Spec Elements Classify Messages Merge Proto.
From Mos.proofs Require Import ListFacts SeqFacts MoveFacts XmlFacts StoryOrder Lift.

Definition atomic {S} (r : res S) (s0 : S) : Prop := r_err r <> None -> r_st r = s0.

Section Generic.
Context {A K : Type}.
Variable kof : A -> kres K.
Variable keqb : K -> K -> bool.
Hypothesis keqb_eq : forall a b, keqb a b = true <-> a = b.

(* since a warning never raises (repair F29), the loops that warn do not depend on whether the
   message ID can be evaluated *)
Lemma delete_loop_mex mex w ids : forall l,
  delete_loop kof keqb mex w ids l = delete_loop kof keqb None w ids l.
Proof.
  induction ids as [|id ids IH]; intros l; simpl; [reflexivity|].
  destruct (lookup kof keqb id l); [apply IH | | reflexivity].
  unfold bind, emit. cbn [r_err r_st r_ws]. now rewrite IH.
Qed.

Lemma insert_dups_mex (id_of : A -> option K) okeqb mex w new : forall seen i l,
  insert_dups mex id_of okeqb w seen i new l = insert_dups None id_of okeqb w seen i new l.
Proof.
  induction new as [|s r IH]; intros seen i l; simpl; [reflexivity|].
  destruct (existsb (okeqb (id_of s)) seen); [|apply IH].
  unfold bind, emit. cbn [r_err r_st r_ws]. now rewrite IH.
Qed.

Lemma atomic_delete mex w ids l : no_bad kof l = true -> atomic (delete_loop kof keqb mex w ids l) l.
Proof.
  intros Hb Hc. exfalso. apply Hc. rewrite delete_loop_mex.
  now destruct (delete_loop_spec kof keqb keqb_eq w ids l Hb) as (He & _).
Qed.

Lemma atomic_dups (id_of : A -> option K) okeqb mex w seen i new l :
  i <= length l -> atomic (insert_dups mex id_of okeqb w seen i new l) l.
Proof.
  intros Hi Hc. exfalso. apply Hc. rewrite insert_dups_mex.
  now destruct (insert_dups_spec id_of okeqb w seen i new l Hi) as (He & _).
Qed.

Lemma atomic_move mex tgt srcs l : atomic (gen_move kof keqb mex tgt srcs l) l.
Proof.
  intros Hc. pose proof (gen_move_total kof keqb keqb_eq mex tgt srcs l) as H. cbv zeta in H.
  destruct (r_err (gen_move kof keqb mex tgt srcs l)); [assumption | contradiction].
Qed.

Lemma atomic_swap mex ids l : atomic (gen_swap kof keqb mex ids l) l.
Proof.
  intros Hc. pose proof (gen_swap_total kof keqb keqb_eq mex ids l) as H. cbv zeta in H.
  destruct (r_err (gen_swap kof keqb mex ids l)); [assumption | contradiction].
Qed.

Lemma atomic_replace mex tgt new l : atomic (gen_replace kof keqb mex tgt new l) l.
Proof.
  unfold atomic, gen_replace. destruct (lookup kof keqb tgt l); cbn [r_err r_st ok fail raise_merge]; auto.
  intros H. now contradiction H.
Qed.

Lemma atomic_insert mex tgt new l : atomic (gen_insert kof keqb mex tgt new l) l.
Proof.
  unfold atomic, gen_insert. destruct (locate_target kof keqb tgt l);
    cbn [r_err r_st ok fail raise_merge]; auto; intros H; now contradiction H.
Qed.

End Generic.

(* an item-level edit that is atomic on the story's children is atomic on roCreate's *)
Lemma atomic_with_story sid kids missing f :
  atomic missing kids ->
  (forall i s, find_story sid kids = FFound i -> nth_error kids i = Some s -> atomic (f (kids_of s)) (kids_of s)) ->
  atomic (with_story sid kids missing f) kids.
Proof.
  intros Hm Hf. unfold with_story.
  destruct (find_story sid kids) as [i| |] eqn:E; [|assumption | now intros _].
  destruct (nth_error kids i) as [s|] eqn:En; [|now intros _].
  intros Hc. cbn [map_res r_err r_st] in *. rewrite (Hf i s eq_refl En Hc).
  apply (update_nth_id i _ kids s En). apply set_kids_id.
Qed.

Lemma atomic_fail {S} (s : S) e : atomic (fail s e) s.
Proof. now intros _. Qed.
Lemma atomic_raise {S} mex (s : S) : atomic (raise_merge mex s) s.
Proof. now intros _. Qed.
Lemma atomic_ok {S} (s s0 : S) : atomic (ok s) s0.
Proof. intros H. now contradiction H. Qed.
Lemma atomic_emit {S} mex w (s : S) : atomic (emit mex w s) s.
Proof. now intros _. Qed.

Lemma found_story_is_story sid kids i s :
  find_story sid kids = FFound i -> nth_error kids i = Some s -> has_tag t_story s = true.
Proof.
  unfold find_story. destruct sid as [t|]; [|discriminate]. intros H Hn.
  destruct (lookup_found_nth skey str_eqb str_eqb_eq t kids i H) as (x & Hx & Hk).
  rewrite Hn in Hx. injection Hx as <-. unfold skey, ckey in Hk.
  destruct (has_tag t_story s); [reflexivity | discriminate].
Qed.

Lemma wf_rc_story rc sid i s :
  wf_rc rc = true -> find_story sid (kids_of rc) = FFound i -> nth_error (kids_of rc) i = Some s ->
  no_bad ikey (kids_of s) = true.
Proof.
  unfold wf_rc. intros H Hf Hn. apply andb_prop in H as [_ H].
  rewrite forallb_forall in H. specialize (H s (nth_error_In _ _ Hn)). unfold wf_story in H.
  now rewrite (found_story_is_story sid _ i s Hf Hn) in H.
Qed.

(* ---- every merge on roCreate's children *)
(* for every message: whether its messageID can be evaluated or not (it is evaluated only where
   an exception is raised before anything has been changed) *)
Theorem merge_kids_atomic o k m b rc :
  wf_rc rc = true ->
  atomic (merge_kids o k m b rc) (kids_of rc).
Proof.
  intros Hwf.
  assert (Hb : no_bad skey (kids_of rc) = true) by (unfold wf_rc in Hwf; now apply andb_prop in Hwf as [H _]).
  assert (Hitems : forall sid i s, find_story sid (kids_of rc) = FFound i ->
                     nth_error (kids_of rc) i = Some s -> no_bad ikey (kids_of s) = true)
    by (intros; eapply wf_rc_story; eauto).
  unfold merge_kids. set (kids := kids_of rc) in *.
  destruct k.
  - apply atomic_ok.
  - destruct (convert_story_send b); [|apply atomic_fail].
    destruct (find_story (story_id x) kids); [apply atomic_ok | apply atomic_emit | apply atomic_fail].
  - apply atomic_ok.
  - now apply (atomic_delete skey str_eqb str_eqb_eq).
  - destruct (find_story (first_story_id b) kids) as [i| |] eqn:E; [|apply atomic_raise|apply atomic_fail].
    destruct (ro_stories_err o rc); [apply atomic_fail|].
    apply atomic_dups. unfold find_story in E. destruct (first_story_id b) as [t|]; [|discriminate].
    apply (lookup_found_lt skey str_eqb str_eqb_eq) in E. fold kids in E. lia.
  - destruct (story_move_source b); [|apply atomic_raise]. apply (atomic_move skey str_eqb str_eqb_eq).
  - destruct (find_story (first_story_id b) kids); [|apply atomic_raise|apply atomic_fail].
    destruct (carried t_story b); [apply atomic_raise | apply atomic_ok].
  - apply atomic_with_story; [apply atomic_raise|]. intros i s Hf Hn.
    apply (atomic_delete ikey str_eqb str_eqb_eq). eauto.
  - apply atomic_with_story; [apply atomic_raise|]. intros i s Hf Hn. apply atomic_insert.
  - destruct (first_story_id b) as [sid0|] eqn:Es; [|apply atomic_raise].
    apply atomic_with_story; [apply atomic_raise|]. intros i s Hf Hn.
    destruct (imm_target b); [apply (atomic_move ikey str_eqb str_eqb_eq) | apply atomic_fail].
  - apply atomic_with_story; [apply atomic_raise|]. intros i s Hf Hn. apply atomic_replace.
  - apply atomic_ok.
  - apply atomic_ok.
  - apply atomic_ok.
  - apply atomic_ok.
  - apply atomic_replace.
  - apply atomic_with_story; [apply atomic_raise|]. intros i s Hf Hn. apply atomic_replace.
  - now apply (atomic_delete skey str_eqb str_eqb_eq).
  - apply atomic_with_story; [apply atomic_emit|]. intros i s Hf Hn.
    apply (atomic_delete ikey str_eqb str_eqb_eq). eauto.
  - destruct (locate_target skey str_eqb (ea_target_id t_storyID b) kids) as [|i| |] eqn:E;
      [| |apply atomic_raise|apply atomic_fail].
    + destruct (ro_stories_err o rc); [apply atomic_fail|]. apply atomic_dups. lia.
    + destruct (ro_stories_err o rc); [apply atomic_fail|]. apply atomic_dups.
      unfold locate_target in E. destruct (ea_target_id t_storyID b) as [t|]; [|discriminate].
      destruct (lookup skey str_eqb (Some t) kids) as [j| |] eqn:El; try discriminate.
      injection E as <-. apply (lookup_found_lt skey str_eqb str_eqb_eq) in El. lia.
  - apply atomic_with_story; [apply atomic_raise|]. intros i s Hf Hn. apply atomic_insert.
  - apply (atomic_swap skey str_eqb str_eqb_eq).
  - apply atomic_with_story; [apply atomic_raise|]. intros i s Hf Hn.
    apply (atomic_swap ikey str_eqb str_eqb_eq).
  - apply (atomic_move skey str_eqb str_eqb_eq).
  - apply atomic_with_story; [apply atomic_raise|]. intros i s Hf Hn.
    apply (atomic_move ikey str_eqb str_eqb_eq).
Qed.

(* ---- C05: ro + msg *)
Theorem failed_merge_is_identity_all o ro k m :
  wf_ro ro = true ->
  r_err (add o ro k m) <> None -> r_st (add o ro k m) = ro.
Proof.
  intros Hwf. unfold wf_ro in Hwf. destruct (rc_of ro) as [rc|] eqn:Hrc; [|discriminate].
  unfold add. destruct (ro_completed ro); [reflexivity|].
  unfold merge. destruct (base_of k m) as [b|] eqn:Hb; [|reflexivity].
  assert (Hgen : edits_rc k = true ->
            r_err (map_res (put_kids ro) (merge_kids o k m b rc)) <> None ->
            r_st (map_res (put_kids ro) (merge_kids o k m b rc)) = ro).
  { intros _ Hc. cbn [map_res r_err r_st] in *.
    rewrite (merge_kids_atomic o k m b rc Hwf Hc). now apply put_kids_id. }
  unfold rc_of in Hrc.
  destruct k; try (rewrite Hrc; apply Hgen; reflexivity).
  - reflexivity.
  - destruct (find_index t_roCreate (kids_of ro)); [|reflexivity]. intros H. now contradiction H.
  - intros H. now contradiction H.
Qed.

Theorem failed_merge_is_identity o ro k m :
  wf_ro ro = true -> msg_ok m = true ->
  r_err (add o ro k m) <> None -> r_st (add o ro k m) = ro.
Proof. intros Hwf _. now apply failed_merge_is_identity_all. Qed.

