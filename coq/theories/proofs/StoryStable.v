(* StoryStable.v — what item-level merges cannot touch.  For every item-level class, every
   message and every running order: the children of roCreate are the old ones except that the
   addressed story's child list is replaced by one with the same non-item children in the same
   order (paragraphs, storyID, storySlug, mosExternalMetadata ... never move, appear or vanish).
   Hence the story's ID, its slug and its duration are unchanged, and so are the sequence of
   story IDs and the timing guard.  No hypothesis on IDs, on the message or on its outcome. *)
From Coq Require Import List Bool Arith NArith Lia Permutation.
Import ListNotations.
From Mos Require Import Str Xml Outcome Seq Spec Elements Classify Messages Merge Proto.
From Mos.proofs Require Import ListFacts SeqFacts MoveFacts XmlFacts StoryOrder Lift Atomic WfFacts Clean Warn Frame ItemFacts Others.

(* ---- keyed = carries the tag *)
Lemma is_keyed_ckey tag idtag x : is_keyed (ckey tag idtag) x = has_tag tag x.
Proof.
  unfold is_keyed, ckey. destruct (has_tag tag x); [|reflexivity].
  destruct (find idtag (kids_of x)); reflexivity.
Qed.

Lemma findall_all_keyed tag idtag l : all_keyed (ckey tag idtag) (findall tag l) = true.
Proof.
  unfold all_keyed, findall. apply forallb_forall. intros x Hx. apply filter_In in Hx as [_ Hx].
  now rewrite is_keyed_ckey.
Qed.
Lemma carried_all_keyed' tag idtag b : all_keyed (ckey tag idtag) (carried tag b) = true.
Proof. apply findall_all_keyed. Qed.
Lemma ea_carried_all_keyed tag idtag b : all_keyed (ckey tag idtag) (ea_carried tag b) = true.
Proof. unfold ea_carried. destruct (ea_source b); [apply findall_all_keyed | reflexivity]. Qed.

(* a lookup by another tag only sees the others *)
Lemma find_others tag idtag t l :
  str_eqb t tag = false -> find t l = find t (others (ckey tag idtag) l).
Proof.
  intros Hne. induction l as [|x l IH]; [reflexivity|]. cbn [find]. unfold others. cbn [filter].
  rewrite is_keyed_ckey. destruct (has_tag tag x) eqn:Ex; cbn [negb].
  - assert (Hx : has_tag t x = false).
    { unfold has_tag in *. apply str_eqb_eq in Ex. rewrite Ex.
      destruct (str_eqb tag t) eqn:E; [|reflexivity]. apply str_eqb_eq in E. subst.
      now rewrite str_eqb_refl in Hne. }
    rewrite Hx. exact IH.
  - cbn [find]. destruct (has_tag t x); [reflexivity | exact IH].
Qed.

Section Stable.
Variable o : oracles.

(* ---- the nine item-level edits keep the others of the child list they are applied to *)
Lemma item_edit_others k m b f ik :
  item_edit k m b = Some f -> others ikey (r_st (f ik)) = others ikey ik.
Proof.
  intros Hf. destruct k; try discriminate Hf; cbn [item_edit] in Hf; injection Hf as <-.
  - apply (delete_loop_others ikey str_eqb str_eqb_eq).
  - apply (gen_insert_others ikey str_eqb). apply carried_all_keyed'.
  - destruct (imm_target b); [apply (gen_move_others ikey str_eqb str_eqb_eq) | reflexivity].
  - apply (gen_replace_others ikey str_eqb str_eqb_eq). apply carried_all_keyed'.
  - apply (gen_replace_others ikey str_eqb str_eqb_eq). apply ea_carried_all_keyed.
  - apply (delete_loop_others ikey str_eqb str_eqb_eq).
  - apply (gen_insert_others ikey str_eqb). apply ea_carried_all_keyed.
  - apply (gen_swap_others ikey str_eqb str_eqb_eq).
  - apply (gen_move_others ikey str_eqb str_eqb_eq).
Qed.

(* the shape of the result of an item-level merge, whatever happens *)
Definition same_but_items (s s' : xml) : Prop :=
  exists ik', s' = set_kids s ik' /\ others ikey ik' = others ikey (kids_of s).

Lemma same_but_items_refl s : same_but_items s s.
Proof. exists (kids_of s). split; [now destruct s | reflexivity]. Qed.

(* the cases of an item-level merge, whatever happens: nothing changed, or the edit f of the
   class was applied to the children of the addressed story *)
Theorem item_merge_cases k m b rc :
  is_item_class k = true ->
  r_st (merge_kids o k m b rc) = kids_of rc \/
  exists i s f, item_edit k m b = Some f /\
    find_story (addressed_story k b) (kids_of rc) = FFound i /\
    nth_error (kids_of rc) i = Some s /\ has_tag t_story s = true /\
    r_st (merge_kids o k m b rc) = update_nth i (fun s' => set_kids s' (r_st (f (kids_of s)))) (kids_of rc).
Proof.
  intros Hk.
  assert (Hf : exists f, item_edit k m b = Some f) by (destruct k; try discriminate Hk; eexists; reflexivity).
  destruct Hf as (f & Hf).
  destruct (find_story (addressed_story k b) (kids_of rc)) as [i| |] eqn:Es.
  - assert (Hx : exists s, nth_error (kids_of rc) i = Some s /\ is_keyed skey s = true).
    { unfold find_story in Es. apply (lookup_found_nth_keyed skey str_eqb str_eqb_eq) in Es. exact Es. }
    destruct Hx as (s & Hn & Hks). right. exists i, s, f.
    split; [exact Hf|]. split; [reflexivity|]. split; [exact Hn|].
    split; [unfold skey in Hks; now rewrite is_keyed_ckey in Hks|].
    now rewrite (item_merge_found o k m b rc i s f Hf Es Hn).
  - left. unfold merge_kids.
    assert (Hws : forall missing g, r_st missing = kids_of rc ->
              r_st (with_story (addressed_story k b) (kids_of rc) missing g) = kids_of rc).
    { intros missing g Hm. unfold with_story. now rewrite Es. }
    destruct k; try discriminate Hk; cbn [addressed_story] in *;
      try (apply Hws; unfold raise_merge, emit; destruct (msg_id_exn m); reflexivity).
    destruct (first_story_id b); [apply Hws; unfold raise_merge; destruct (msg_id_exn m); reflexivity|].
    unfold raise_merge. destruct (msg_id_exn m); reflexivity.
  - left. unfold merge_kids.
    assert (Hws : forall missing g,
              r_st (with_story (addressed_story k b) (kids_of rc) missing g) = kids_of rc).
    { intros missing g. unfold with_story. now rewrite Es. }
    destruct k; try discriminate Hk; cbn [addressed_story] in *; try apply Hws.
    destruct (first_story_id b); [apply Hws | discriminate Es].
Qed.

Theorem item_merge_shape k m b rc :
  is_item_class k = true ->
  r_st (merge_kids o k m b rc) = kids_of rc \/
  exists i s ik', nth_error (kids_of rc) i = Some s /\ has_tag t_story s = true /\
    others ikey ik' = others ikey (kids_of s) /\
    r_st (merge_kids o k m b rc) = update_nth i (fun s' => set_kids s' ik') (kids_of rc).
Proof.
  intros Hk. destruct (item_merge_cases k m b rc Hk) as [H|(i & s & f & Hf & _ & Hn & Ht & H)]; [now left|].
  right. exists i, s, (r_st (f (kids_of s))). repeat split; try assumption.
  now apply (item_edit_others k m b).
Qed.

(* ---- consequences for one story *)
Lemma t_storyID_not_item : str_eqb t_storyID t_item = false.
Proof. vm_compute. reflexivity. Qed.
Lemma t_storySlug_not_item : str_eqb t_storySlug t_item = false.
Proof. vm_compute. reflexivity. Qed.
Lemma t_md_not_item : str_eqb t_mosExternalMetadata t_item = false.
Proof. vm_compute. reflexivity. Qed.

Lemma find_same_others t ik ik' :
  str_eqb t t_item = false -> others ikey ik' = others ikey ik -> find t ik' = find t ik.
Proof.
  intros Ht Ho. unfold ikey in *. rewrite (find_others t_item t_itemID t ik' Ht), (find_others t_item t_itemID t ik Ht).
  now rewrite Ho.
Qed.

Lemma skey_same_but_items s s' : same_but_items s s' -> skey s' = skey s.
Proof.
  intros (ik' & -> & Ho). unfold skey, ckey. rewrite has_tag_set_kids, kids_set_kids.
  now rewrite (find_same_others t_storyID (kids_of s) ik' t_storyID_not_item Ho).
Qed.

Lemma story_id_same_but_items s s' : same_but_items s s' -> story_id s' = story_id s.
Proof.
  intros (ik' & -> & Ho). unfold story_id, elem_id. rewrite kids_set_kids.
  now rewrite (find_same_others t_storyID (kids_of s) ik' t_storyID_not_item Ho).
Qed.

Lemma payload_same_but_items s s' : same_but_items s s' -> payload_of s' = payload_of s.
Proof.
  intros (ik' & -> & Ho). unfold payload_of. rewrite kids_set_kids.
  now rewrite (find_same_others t_mosExternalMetadata (kids_of s) ik' t_md_not_item Ho).
Qed.

Lemma duration_same_but_items s s' : same_but_items s s' -> story_duration o s' = story_duration o s.
Proof. intros H. unfold story_duration. now rewrite (payload_same_but_items s s' H). Qed.

(* ---- consequences for the running order *)
Lemma keys_update_nth_same (l : list xml) : forall i s s',
  nth_error l i = Some s -> skey s' = skey s ->
  keys skey (update_nth i (fun _ => s') l) = keys skey l.
Proof.
  induction l as [|x l IH]; intros [|i] s s' Hn Hk; simpl in *; try discriminate.
  - injection Hn as ->. now rewrite Hk.
  - f_equal. eapply IH; eauto.
Qed.

Lemma update_nth_ext {A} (f g : A -> A) (l : list A) : forall i x,
  nth_error l i = Some x -> f x = g x -> update_nth i f l = update_nth i g l.
Proof.
  induction l as [|y l IH]; intros [|i] x Hn Hfg; simpl in *; try discriminate.
  - injection Hn as ->. now rewrite Hfg.
  - f_equal. eapply IH; eauto.
Qed.

(* the sequence of story IDs of roCreate is untouched by every item-level merge *)
Theorem item_merge_story_keys k m b rc :
  is_item_class k = true -> keys skey (r_st (merge_kids o k m b rc)) = keys skey (kids_of rc).
Proof.
  intros Hk. destruct (item_merge_shape k m b rc Hk) as [->|(i & s & ik' & Hn & Ht & Ho & ->)]; [reflexivity|].
  rewrite (update_nth_ext (fun s' => set_kids s' ik') (fun _ => set_kids s ik') _ i s Hn eq_refl).
  apply (keys_update_nth_same _ i s); [assumption|].
  apply skey_same_but_items. now exists ik'.
Qed.

(* ---- story-level merges: the children of roCreate that are not stories (roID, roSlug,
   roEdStart, mosExternalMetadata, triggers ...) stay as they are, in the same order, for every
   message of the 11 story-level classes and every outcome *)
Lemma convert_is_story b s : convert_story_send b = Some s -> has_tag t_story s = true.
Proof.
  unfold convert_story_send. destruct (splice_body (kids_of b)); [|discriminate].
  intros H. injection H as <-. destruct b. reflexivity.
Qed.

Theorem story_merge_others k m b rc :
  is_story_class k = true ->
  others skey (r_st (merge_kids o k m b rc)) = others skey (kids_of rc).
Proof.
  intros Hk. unfold merge_kids. set (kids := kids_of rc).
  destruct k; try discriminate Hk.
  - (* StorySend *)
    destruct (convert_story_send b) as [story|] eqn:Ec; [|reflexivity].
    destruct (find_story (story_id story) kids) as [i| |] eqn:E; cbn [r_st ok fail]; try reflexivity.
    + unfold find_story in E. unfold replace_with.
      rewrite (insert_loop_others skey).
      * destruct (lookup_found_nth_keyed skey str_eqb str_eqb_eq _ _ _ E) as (x & Hx & Hkx).
        apply (filter_remove_at _ kids i x Hx). now rewrite Hkx.
      * cbn. unfold skey. rewrite is_keyed_ckey, (convert_is_story b story Ec). reflexivity.
  - (* StoryAppend *)
    cbn [r_st ok]. unfold others. rewrite filter_app.
    assert (H : filter (fun x => negb (is_keyed skey x)) (carried t_story b) = []).
    { apply (others_all_keyed skey). apply carried_all_keyed'. }
    rewrite H. apply app_nil_r.
  - apply (delete_loop_others skey str_eqb str_eqb_eq).
  - (* StoryInsert *)
    destruct (find_story (first_story_id b) kids); cbn [r_st fail raise_merge]; try reflexivity;
      try (unfold raise_merge; destruct (msg_id_exn m); reflexivity).
    destruct (ro_stories_err o rc); [reflexivity|].
    apply (insert_dups_others skey). apply carried_all_keyed'.
  - (* StoryMove *)
    destruct (story_move_source b); [apply (gen_move_others skey str_eqb str_eqb_eq)|].
    unfold raise_merge. destruct (msg_id_exn m); reflexivity.
  - (* StoryReplace *)
    destruct (find_story (first_story_id b) kids) as [i| |] eqn:E; cbn [r_st fail]; try reflexivity;
      try (unfold raise_merge; destruct (msg_id_exn m); reflexivity).
    destruct (carried t_story b) as [|n0 nr] eqn:En; [unfold raise_merge; destruct (msg_id_exn m); reflexivity|].
    cbn [r_st ok]. unfold replace_with. rewrite (insert_loop_others skey) by (rewrite <- En; apply carried_all_keyed').
    unfold find_story in E.
    destruct (lookup_found_nth_keyed skey str_eqb str_eqb_eq _ _ _ E) as (x & Hx & Hkx).
    apply (filter_remove_at _ kids i x Hx). now rewrite Hkx.
  - apply (gen_replace_others skey str_eqb str_eqb_eq). apply ea_carried_all_keyed.
  - apply (delete_loop_others skey str_eqb str_eqb_eq).
  - (* EAStoryInsert *)
    destruct (locate_target skey str_eqb (ea_target_id t_storyID b) kids); cbn [r_st fail]; try reflexivity;
      try (unfold raise_merge; destruct (msg_id_exn m); reflexivity);
      (destruct (ro_stories_err o rc); [reflexivity|]; apply (insert_dups_others skey); apply ea_carried_all_keyed).
  - apply (gen_swap_others skey str_eqb str_eqb_eq).
  - apply (gen_move_others skey str_eqb str_eqb_eq).
Qed.

(* and item-level merges do not touch them either (only one story's inside changes) *)
Theorem item_merge_others k m b rc :
  is_item_class k = true ->
  others skey (r_st (merge_kids o k m b rc)) = others skey (kids_of rc).
Proof.
  intros Hk. destruct (item_merge_shape k m b rc Hk) as [->|(i & s & ik' & Hn & Ht & Ho & ->)]; [reflexivity|].
  clear Ho. revert i Hn. generalize (kids_of rc) as l.
  induction l as [|x l IH]; intros [|i] Hn; simpl in *; try discriminate.
  - injection Hn as ->. unfold others. simpl. unfold skey. rewrite !is_keyed_ckey, has_tag_set_kids, Ht. reflexivity.
  - unfold others in *. simpl. destruct (negb (is_keyed skey x)); [f_equal|]; now apply IH.
Qed.

End Stable.
