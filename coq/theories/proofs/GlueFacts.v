(* GlueFacts.v — C18 (listing, readers) and C19 (command line). *)
From Coq Require Import List Bool String NArith.
Import ListNotations.
From Mos Require Import Str Xml Outcome Elements Classify Messages Merge Collection Inspect S3 Cli.
From Mos.proofs Require Import ClassifyFacts.
Local Open Scope list_scope.

(* ---- C18: the listing returns every key with the suffix, across all pages, in order *)
Definition page_keys (p : page) : list str := match p with Some ks => ks | None => [] end.

Theorem listing_complete pages suffix :
  get_mos_files pages suffix = filter (str_endswith suffix) (flat_map page_keys pages).
Proof.
  induction pages as [|[ks|] r IH]; simpl; [reflexivity | | exact IH].
  now rewrite filter_app, IH.
Qed.

(* ... so a page without Contents, wherever it is, hides nothing *)
Theorem listing_ignores_empty_pages pre post suffix :
  get_mos_files (pre ++ None :: post) suffix = get_mos_files (pre ++ post) suffix.
Proof. rewrite !listing_complete, !flat_map_app. reflexivity. Qed.

(* the reader of a document reports its message ID, running-order ID and class, and restores
   that very document *)
Theorem reader_faithful d r :
  make_reader d = inr r ->
  classify d = inr (rd_class r) /\ message_id d = Some (rd_mid r) /\
  ro_id_of (rd_class r) d = inr (rd_roid r) /\ rd_doc r = d.
Proof.
  unfold make_reader. destruct (classify d) as [e|k]; [discriminate|].
  destruct (msg_id_exn d); [discriminate|]. destruct (message_id d) as [mid|]; [|discriminate].
  destruct (ro_id_of k d) as [e|rid] eqn:Er; [discriminate|]. intros H. injection H as <-. simpl.
  repeat split; auto.
Qed.

(* ---- C19: one bad or unreadable file never prevents the others from being processed *)
Theorem detect_compositional o b (fs1 fs2 : list (str * file_res)) :
  fs1 <> [] -> fs2 <> [] ->
  fst (detect_cmd o b (fs1 ++ fs2)) = fst (detect_cmd o b fs1) ++ fst (detect_cmd o b fs2).
Proof.
  intros H1 H2. unfold detect_cmd.
  destruct fs1 as [|a fs1]; [now contradiction H1|]. destruct fs2 as [|c fs2]; [now contradiction H2|].
  simpl. rewrite flat_map_app. simpl. now rewrite <- app_assoc.
Qed.

Definition is_out (l : line) : bool := match l with Out _ => true | Err _ => false end.

(* detect prints, for every file in order, exactly one line: on stdout with the class the
   library assigns (and "(completed)"), or on stderr marking the file invalid *)
Theorem detect_one_line o name f :
  detect_one o false (name, f) =
  match load f with
  | inl _ => [Err (name ++ lit ": Invalid")]
  | inr (k, d) => [Out (name ++ lit ": " ++ class_name k ++ (if completed k d then lit " (completed)" else []))]
  end.
Proof. unfold detect_one. destruct (load f) as [e|[k d]]; reflexivity. Qed.

Theorem detect_status o b fs : fs <> [] -> snd (detect_cmd o b fs) = 0.
Proof. destruct fs; [intros H; now contradiction H | reflexivity]. Qed.

(* merge: status 0 exactly when the collection is valid and the merge raises nothing, and
   then the output is the merged running order of the library with the flags passed through *)
Theorem merge_cmd_spec o files inc nonstrict :
  match merge_cmd o files inc nonstrict with
  | (0, Some out) =>
    exists ds r, load_docs files = inr ds /\ collection_merge o ds inc (negb nonstrict) = inr r /\
                 r_err r = None /\ out = r_st r
  | (2, None) => True
  | _ => False
  end.
Proof.
  unfold merge_cmd. destruct files as [|f fs]; [exact I|].
  destruct (load_docs (f :: fs)) as [e|ds]; [exact I|].
  destruct (collection_merge o ds inc (negb nonstrict)) as [e|r] eqn:E; [exact I|].
  destruct (r_err r) eqn:Er; [exact I|]. exists ds, r. auto.
Qed.
