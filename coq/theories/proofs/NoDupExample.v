(* NoDupExample.v — the hypotheses of the unique-ID invariant are satisfiable. *)
From Coq Require Import List Bool String NArith ZArith.
Import ListNotations.
From Mos Require Import Str Xml Outcome Seq Spec Elements Classify Messages Merge Proto.
From Mos Require Import Collection.
From Mos.proofs Require Import XmlFacts Examples NoDupFacts CollFacts Timing.
Local Open Scope string_scope.
Local Open Scope list_scope.

(* ---- the hypotheses are satisfiable: append a new story, then move it, then replace it *)
Definition ex_append : xml :=
  el "mos" [tx "messageID" "20"; el "roStoryAppend" [tx "roID" "RO"; ex_story "N"]].
Definition ex_move_n : xml :=
  el "mos" [tx "messageID" "21"; el "roStoryMove" [tx "roID" "RO"; tx "storyID" "N"; tx "storyID" "A"]].
Definition ex_replace_n : xml :=
  el "mos" [tx "messageID" "22"; el "roStoryReplace" [tx "roID" "RO"; tx "storyID" "N"; ex_story "P"; ex_story "Q"]].
Definition ex_history : list (mclass * xml) :=
  [(StoryAppend, ex_append); (StoryMove, ex_move_n); (StoryReplace, ex_replace_n)].

Definition ex_history_ids : list (option str) :=
  [Some (lit "P"); Some (lit "Q"); Some (lit "A"); Some (lit "B"); Some (lit "C"); Some (lit "D")].

Lemma ex_fresh_history :
  rc_of ex_ro <> None /\ NoDup (story_ids ex_ro) /\ fresh_along no_oracles ex_ro ex_history /\
  story_ids (fold_left (fun s km => r_st (add no_oracles s (fst km) (snd km))) ex_history ex_ro)
  = ex_history_ids.
Proof.
  split; [vm_compute; discriminate|]. split; [apply nodup_dec_str; vm_compute; reflexivity|].
  split; [|vm_compute; reflexivity].
  cbn [fresh_along ex_history].
  split; [vm_compute; reflexivity|]. split; [apply nodup_dec_str; vm_compute; reflexivity|].
  split; [vm_compute; reflexivity|]. split; [vm_compute; exact I|].
  split; [vm_compute; reflexivity|]. split; [apply nodup_dec_str; vm_compute; reflexivity|].
  exact I.
Qed.

(* ---- the timing guard: holds of the example running order and of the example messages *)
Definition ex_readers : list reader :=
  map (fun km => {| rd_mid := 0%N; rd_roid := None; rd_class := fst km; rd_doc := snd km |}) ex_history.
Lemma ex_timing :
  ro_timing no_oracles ex_ro = true /\ forallb (reader_timing no_oracles) ex_readers = true /\ ex_readers <> [].
Proof. split; [vm_compute; reflexivity|]. split; [vm_compute; reflexivity | discriminate]. Qed.
