(* Warn.v — C06: nothing named by a message is skipped silently. *)
From Coq Require Import List Bool Arith NArith Lia Permutation.
Import ListNotations.
From Mos Require Import Str Xml Outcome Seq Spec Elements Classify Messages Merge Proto.
From Mos.proofs Require Import ListFacts SeqFacts MoveFacts XmlFacts StoryOrder Lift Atomic WfFacts Clean.

Section Generic.
Variables tag idtag : str.
Notation kof := (ckey tag idtag).
Notation keys := (keys kof).
Notation no_bad := (no_bad kof).
Notation lookup := (lookup kof str_eqb).

Lemma found_present id l i : lookup id l = FFound i -> present (keys l) id = true.
Proof.
  destruct id as [s|]; [|discriminate]. intros H.
  destruct (lookup_found kof str_eqb str_eqb_eq s l i H) as (pre & x & post & _ & _ & _ & _ & _ & Hk & _).
  simpl. rewrite Hk. apply (sp_mem_split str_eqb str_eqb_eq).
Qed.

Lemma sp_mem_remove1 s t l : sp_mem str_eqb s (sp_remove1 str_eqb t l) = true -> sp_mem str_eqb s l = true.
Proof.
  induction l as [|a l IH]; simpl; [auto|]. destruct (oeq str_eqb a t); simpl.
  - intros H. rewrite H. apply orb_true_r.
  - destruct (oeq str_eqb a s); simpl; auto.
Qed.

(* no warning from a delete loop: every named ID was there *)
Lemma sp_missing_zero ids l :
  sp_missing str_eqb ids l = 0 -> forall id, In id ids -> present l id = true.
Proof.
  revert l. induction ids as [|[s|] ids IH]; intros l H id Hin; simpl in *; try discriminate; [destruct Hin|].
  destruct (sp_mem str_eqb s l) eqn:E; [|discriminate].
  destruct Hin as [<-|Hin]; [exact E|].
  specialize (IH _ H id Hin). destruct id as [t|]; [|discriminate]. simpl in *.
  eapply sp_mem_remove1; eauto.
Qed.

Lemma repeat_nil {B} (w : B) n : repeat w n = [] -> n = 0.
Proof. destruct n; [reflexivity | discriminate]. Qed.

Lemma delete_silent w ids l :
  no_bad l = true -> r_ws (delete_loop kof str_eqb None w ids l) = [] ->
  forall id, In id ids -> present (keys l) id = true.
Proof.
  intros Hb Hw. destruct (delete_loop_spec kof str_eqb str_eqb_eq w ids l Hb) as (_ & _ & _ & Hws & _).
  rewrite Hws in Hw. apply repeat_nil in Hw. now apply sp_missing_zero.
Qed.

Lemma replace_silent tgt new l :
  r_err (gen_replace kof str_eqb None tgt new l) = None -> present (keys l) tgt = true.
Proof.
  unfold gen_replace. destruct (lookup tgt l) eqn:E; cbn [r_err ok fail raise_merge]; try discriminate.
  intros _. eapply found_present; eauto.
Qed.

Lemma insert_silent tgt new l :
  r_err (gen_insert kof str_eqb None tgt new l) = None ->
  forall id, In id (opt_list tgt) -> present (keys l) id = true.
Proof.
  unfold gen_insert, locate_target. destruct tgt as [t|]; [|intros _ ? []].
  destruct (lookup (Some t) l) eqn:E; cbn [r_err ok fail raise_merge]; try discriminate.
  intros _ id [<-|[]]. eapply found_present; eauto.
Qed.

Lemma validate_present tp acc ids l ps :
  validate_sources kof str_eqb tp acc ids l = VOk ps ->
  forall id, In id ids -> present (keys l) id = true.
Proof.
  intros H. apply (validate_sources_ok kof str_eqb) in H as (qs & _ & Hf & _).
  induction Hf as [|id q ids qs Hl Hf IH]; intros id' Hin; [destruct Hin|].
  destruct Hin as [<-|Hin]; [eapply found_present; eauto | auto].
Qed.

Lemma move_silent tgt srcs l :
  r_err (gen_move kof str_eqb None tgt srcs l) = None ->
  forall id, In id (srcs ++ opt_list tgt) -> present (keys l) id = true.
Proof.
  unfold gen_move, locate_target. intros H id Hin.
  destruct tgt as [t|].
  - destruct (lookup (Some t) l) as [i| |] eqn:E; cbn [r_err fail raise_merge] in H; try discriminate.
    destruct (validate_sources kof str_eqb (Some i) [] srcs l) as [ps| |] eqn:Ev;
      cbn [r_err fail raise_merge] in H; try discriminate.
    apply in_app_or in Hin as [Hin|[<-|[]]]; [eapply validate_present; eauto | eapply found_present; eauto].
  - destruct (validate_sources kof str_eqb None [] srcs l) as [ps| |] eqn:Ev;
      cbn [r_err fail raise_merge] in H; try discriminate.
    apply in_app_or in Hin as [Hin|[]]. eapply validate_present; eauto.
Qed.

Lemma swap_silent ids l :
  r_err (gen_swap kof str_eqb None ids l) = None ->
  forall id, In id ids -> present (keys l) id = true.
Proof.
  unfold gen_swap. destruct ids as [|a [|b [|? ?]]]; cbn [r_err fail raise_merge]; try discriminate.
  destruct (lookup a l) eqn:Ea; cbn [r_err fail raise_merge]; try discriminate.
  destruct (lookup b l) eqn:Eb; cbn [r_err fail raise_merge]; try discriminate.
  intros _ id [<-|[<-|[]]]; eapply found_present; eauto.
Qed.

End Generic.

Section Warn.
Variable o : oracles.

(* story-level: a merge that neither raises nor warns found every story it names, and
   skipped no carried story as a duplicate *)
Theorem story_silent_means_resolved k m b rc :
  is_story_class k = true -> msg_ok m = true -> no_bad skey (kids_of rc) = true ->
  let r := merge_kids o k m b rc in
  r_err r = None -> r_ws r = [] ->
  forall id, In id (named_story_ids k b) -> present (story_ids_rc rc) id = true.
Proof.
  intros Hk Hm Hb r He Hw. subst r.
  assert (Hmex : msg_id_exn m = None) by (unfold msg_ok in Hm; destruct (msg_id_exn m); [discriminate|reflexivity]).
  unfold story_ids_rc. unfold merge_kids in *. rewrite Hmex in *. set (kids := kids_of rc) in *.
  destruct k; try discriminate Hk; cbn [named_story_ids].
  - destruct (convert_story_send b) as [s|]; [|intros ? []].
    unfold find_story in *. destruct (lookup skey str_eqb (story_id s) kids) eqn:E;
      cbn [r_err r_ws ok fail emit] in *; try discriminate.
    intros id [<-|[]]. eapply found_present; eauto.
  - intros ? [].
  - exact (delete_silent t_story t_storyID StoryNotFound _ kids Hb Hw).
  - unfold find_story in *. destruct (lookup skey str_eqb (first_story_id b) kids) eqn:E;
      cbn [r_err fail raise_merge] in *; try discriminate.
    intros id [<-|[]]. eapply found_present; eauto.
  - destruct (story_move_source b) as [src|]; [|intros ? []].
    intros id Hin. apply (move_silent t_story t_storyID (story_move_target b) [src] kids He). exact Hin.
  - unfold find_story in *. destruct (lookup skey str_eqb (first_story_id b) kids) eqn:E;
      cbn [r_err fail raise_merge] in *; try discriminate.
    intros id [<-|[]]. eapply found_present; eauto.
  - intros id [<-|[]]. eapply replace_silent; eauto.
  - exact (delete_silent t_story t_storyID StoryNotFound _ kids Hb Hw).
  - unfold locate_target in *. destruct (ea_target_id t_storyID b) as [t|]; [|intros ? []].
    destruct (lookup skey str_eqb (Some t) kids) eqn:E; cbn [r_err fail raise_merge] in *; try discriminate.
    intros id [<-|[]]. eapply found_present; eauto.
  - exact (swap_silent t_story t_storyID _ kids He).
  - exact (move_silent t_story t_storyID _ _ kids He).
Qed.

(* the warnings of the warn-and-continue classes are counted exactly *)
Theorem story_delete_warnings k m b rc :
  (k = StoryDelete \/ k = EAStoryDelete) -> msg_ok m = true -> no_bad skey (kids_of rc) = true ->
  let ids := match k with StoryDelete => id_tags t_storyID b | _ => ea_source_ids t_storyID b end in
  let r := merge_kids o k m b rc in
  r_err r = None /\ r_ws r = repeat StoryNotFound (sp_missing str_eqb ids (story_ids_rc rc)).
Proof.
  intros Hk Hm Hb.
  assert (Hmex : msg_id_exn m = None) by (unfold msg_ok in Hm; destruct (msg_id_exn m); [discriminate|reflexivity]).
  unfold merge_kids, story_ids_rc. rewrite Hmex.
  destruct Hk as [->| ->];
    match goal with |- context [delete_loop _ _ _ ?w ?ids ?l] =>
      destruct (delete_loop_spec skey str_eqb str_eqb_eq w ids l Hb) as (He & _ & _ & Hws & _) end;
    now split.
Qed.

Theorem story_insert_warnings k m b rc :
  (k = StoryInsert \/ k = EAStoryInsert) -> msg_ok m = true -> no_bad skey (kids_of rc) = true ->
  let new := match k with StoryInsert => carried t_story b | _ => ea_carried t_story b end in
  let r := merge_kids o k m b rc in
  r_err r = None ->
  r_ws r = repeat DuplicateStory (sp_dups ostr_eqb (story_ids_rc rc) (map story_id new)).
Proof.
  intros Hk Hm Hb new r He. subst r new.
  assert (Hmex : msg_id_exn m = None) by (unfold msg_ok in Hm; destruct (msg_id_exn m); [discriminate|reflexivity]).
  unfold merge_kids, story_ids_rc in *. rewrite Hmex in *. set (kids := kids_of rc) in *.
  rewrite <- (known_ids_keys kids Hb).
  destruct Hk as [->| ->].
  - unfold find_story in *. destruct (lookup skey str_eqb (first_story_id b) kids) as [i| |] eqn:E;
      cbn [r_err fail raise_merge] in He; try discriminate.
    destruct (ro_stories_err o rc); [discriminate|].
    destruct (first_story_id b) as [t|]; [|discriminate].
    apply (lookup_found_lt skey str_eqb str_eqb_eq) in E.
    now destruct (insert_dups_spec story_id ostr_eqb DuplicateStory (known_story_ids kids) i (carried t_story b) kids)
      as (_ & _ & Hws); [lia|].
  - destruct (locate_target skey str_eqb (ea_target_id t_storyID b) kids) as [|i| |] eqn:E;
      cbn [r_err fail raise_merge] in He; try discriminate.
    + destruct (ro_stories_err o rc); [discriminate|].
      now destruct (insert_dups_spec story_id ostr_eqb DuplicateStory (known_story_ids kids) (length kids)
                      (ea_carried t_story b) kids) as (_ & _ & Hws); [lia|].
    + destruct (ro_stories_err o rc); [discriminate|].
      unfold locate_target in E. destruct (ea_target_id t_storyID b) as [t|]; [|discriminate].
      destruct (lookup skey str_eqb (Some t) kids) as [j| |] eqn:El; try discriminate. injection E as <-.
      apply (lookup_found_lt skey str_eqb str_eqb_eq) in El.
      now destruct (insert_dups_spec story_id ostr_eqb DuplicateStory (known_story_ids kids) j
                      (ea_carried t_story b) kids) as (_ & _ & Hws); [lia|].
Qed.

(* a message whose references all resolve (the order theorem applies) emits no warning *)
Theorem resolved_move_swap_silent tag idtag tgt srcs ids l ks :
  no_bad (ckey tag idtag) l = true -> NoDup (keys (ckey tag idtag) l) ->
  (proto_move tgt srcs (keys (ckey tag idtag) l) = Some ks ->
   r_ws (gen_move (ckey tag idtag) str_eqb None tgt srcs l) = []) /\
  (proto_swap ids (keys (ckey tag idtag) l) = Some ks ->
   r_ws (gen_swap (ckey tag idtag) str_eqb None ids l) = []).
Proof.
  intros Hb Hnd. split; intros Hp.
  - now destruct (proto_move_sound tag idtag None tgt srcs l ks eq_refl Hb Hnd Hp) as (_ & Hw & _).
  - now destruct (proto_swap_sound tag idtag None ids l ks eq_refl Hb Hnd Hp) as (_ & Hw & _).
Qed.

End Warn.
