(* HeapCopy.v — C13, content side: the deep copy of a tree denotes exactly that tree (so
   inserting a copy is inserting the value - "merging depends only on content"), and trees
   that were there keep denoting what they denoted. *)
From Coq Require Import List Arith Bool Lia.
Import ListNotations.
From Mos Require Import Heap.
From Mos.proofs Require Import HeapFacts.

Section Copy.
Variable D : Type.
Notation heap := (heap D).
Notation tree := (tree D).
Notation lookup := (lookup D).
Notation view := (view D).
Notation alloc := (alloc D).
Notation alloc_list := (alloc_list D).
Notation fresh_spec := (fresh_spec D).

(* every cell, and every child a cell names, lies below the allocation pointer *)
Definition scoped (h : heap) : Prop :=
  forall l n, lookup h l = Some n -> l < next D h /\ forall k, In k (kids D n) -> k < next D h.

Fixpoint depth (t : tree) : nat :=
  match t with T _ _ ks => S (fold_right (fun k m => Nat.max (depth k) m) 0 ks) end.

Lemma all_some_map_ext {X Y} (f g : X -> option Y) l :
  (forall x, In x l -> f x = g x) -> all_some (map f l) = all_some (map g l).
Proof. intros H. f_equal. now apply map_ext_in. Qed.

Lemma all_some_none {X Y} (f : X -> option Y) l k : In k l -> f k = None -> all_some (map f l) = None.
Proof.
  induction l as [|x r IH]; intros Hin Hk; [destruct Hin|]. simpl.
  destruct Hin as [->|Hin]; [now rewrite Hk|]. destruct (f x); [now rewrite (IH Hin Hk) | reflexivity].
Qed.

(* a tree denoted in a scoped heap is still denoted after any extension that keeps old cells *)
Lemma view_extend f : forall h h' l t,
  scoped h -> fresh_spec h h' -> view f h l = Some t -> view f h' l = Some t.
Proof.
  induction f as [|f IH]; intros h h' l t Hs [Hn Hl] Hv; simpl in *; [discriminate|].
  destruct (lookup h l) as [n|] eqn:E; [|discriminate].
  destruct (Hs l n E) as [Hlt Hk]. rewrite (Hl l Hlt), E.
  rewrite <- Hv. f_equal. apply all_some_map_ext. intros k Hin.
  destruct (view f h k) as [tk|] eqn:Ek.
  - now apply (IH h h' k tk Hs (conj Hn Hl)).
  - (* the whole view is None then; both sides are computed from the same list *)
    exfalso. rewrite (all_some_none (view f h) (kids D n) k Hin Ek) in Hv. discriminate.
Qed.

Lemma all_some_view_extend f h h' roots : forall ts,
  scoped h -> fresh_spec h h' ->
  all_some (map (view f h) roots) = Some ts -> all_some (map (view f h') roots) = Some ts.
Proof.
  induction roots as [|r rs IH]; intros ts Hs Hf H; simpl in *; [assumption|].
  destruct (view f h r) as [tr|] eqn:Er; [|discriminate].
  rewrite (view_extend f h h' r tr Hs Hf Er).
  destruct (all_some (map (view f h) rs)) as [us|] eqn:Eu; [|discriminate].
  now rewrite (IH us Hs Hf eq_refl).
Qed.

(* more fuel never hurts *)
Lemma view_more_fuel f : forall h l t, view f h l = Some t -> forall g, f <= g -> view g h l = Some t.
Proof.
  induction f as [|f IH]; intros h l t Hv g Hg; simpl in Hv; [discriminate|].
  destruct g as [|g]; [lia|]. simpl. destruct (lookup h l) as [n|]; [|discriminate].
  rewrite <- Hv. f_equal.
  assert (Hall : forall ks ts, all_some (map (view f h) ks) = Some ts -> all_some (map (view g h) ks) = Some ts).
  { induction ks as [|k ks IHk]; intros ts H; simpl in *; [assumption|].
    destruct (view f h k) as [tk|] eqn:Ek; [|discriminate].
    rewrite (IH h k tk Ek g) by lia.
    destruct (all_some (map (view f h) ks)) as [r|]; [|discriminate]. now rewrite (IHk r eq_refl). }
  destruct (all_some (map (view f h) (kids D n))) as [ts|] eqn:Ets; [|discriminate].
  now rewrite (Hall _ _ Ets).
Qed.

(* allocation keeps the heap scoped *)
Lemma alloc_scoped' t : forall h, scoped h -> scoped (fst (alloc t h)).
Proof.
  induction t as [d ks IH] using (tree_ind' D). intros h Hs. rewrite alloc_unfold.
  assert (Hl : forall h, scoped h -> scoped (fst (alloc_list ks h)) /\
             (forall r, In r (snd (alloc_list ks h)) -> r < next D (fst (alloc_list ks h))) /\
             next D h <= next D (fst (alloc_list ks h))).
  { clear h Hs. induction IH as [|t r Ht _ IHr]; intros h Hs; [simpl; split; [assumption | split; [intros ? [] | lia]]|].
    rewrite alloc_list_cons. destruct (alloc t h) as [h' root] eqn:E1.
    pose proof (Ht h Hs) as Hs'. rewrite E1 in Hs'. cbn [fst] in Hs'.
    destruct (alloc_fresh D t h) as [[Hn1 _] [_ Hr1]]. rewrite E1 in Hn1, Hr1. cbn [fst snd] in Hn1, Hr1.
    destruct (IHr h' Hs') as (Hs'' & Hroots & Hn2). destruct (alloc_list r h') as [h'' roots] eqn:E2.
    cbn [fst snd] in *. split; [assumption|]. split; [|lia].
    intros x [<-|Hx]; [lia | now apply Hroots]. }
  destruct (Hl h Hs) as (Hs1 & Hroots & _). destruct (alloc_list ks h) as [h1 roots] eqn:E. cbn [fst snd] in *.
  intros l n Hln. unfold Heap.lookup in Hln. simpl in Hln.
  destruct (Nat.eqb (next D h1) l) eqn:El.
  - apply Nat.eqb_eq in El. subst l. injection Hln as <-. simpl. split; [lia|].
    intros k Hk. specialize (Hroots k Hk). lia.
  - destruct (Hs1 l n Hln) as [H1 H2]. simpl. split; [lia|]. intros k Hk. specialize (H2 k Hk). lia.
Qed.

(* the copy denotes the tree that was copied *)
Theorem alloc_view t : forall h, scoped h ->
  view (depth t) (fst (alloc t h)) (snd (alloc t h)) = Some t.
Proof.
  induction t as [d ks IH] using (tree_ind' D). intros h Hs. rewrite alloc_unfold.
  (* the children, allocated in sequence: each root denotes its tree in the final heap *)
  assert (Hl : forall h, scoped h ->
             scoped (fst (alloc_list ks h)) /\ fresh_spec h (fst (alloc_list ks h)) /\
             forall f, fold_right (fun k m => Nat.max (depth k) m) 0 ks <= f ->
                       all_some (map (view f (fst (alloc_list ks h))) (snd (alloc_list ks h))) = Some ks).
  { clear h Hs. induction IH as [|t r Ht _ IHr]; intros h Hs; [simpl; split; [assumption | split; [apply fresh_refl | reflexivity]]|].
    rewrite alloc_list_cons. destruct (alloc t h) as [h' root] eqn:E1.
    pose proof (alloc_scoped' t h Hs) as Hs'. rewrite E1 in Hs'. cbn [fst] in Hs'.
    destruct (alloc_fresh D t h) as [Hf1 _]. rewrite E1 in Hf1. cbn [fst] in Hf1.
    pose proof (Ht h Hs) as Hv. rewrite E1 in Hv. cbn [fst snd] in Hv.
    destruct (IHr h' Hs') as (Hs'' & Hf2 & Hall). destruct (alloc_list r h') as [h'' roots] eqn:E2.
    cbn [fst snd] in *. split; [assumption|]. split; [eapply fresh_trans; eauto|].
    intros f Hf. simpl in Hf. simpl.
    rewrite (view_extend f h' h'' root t Hs' Hf2); [| apply (view_more_fuel _ _ _ _ Hv); lia].
    rewrite (Hall f) by lia. reflexivity. }
  destruct (Hl h Hs) as (Hs1 & Hf & Hall). destruct (alloc_list ks h) as [h1 roots] eqn:E. cbn [fst snd] in *.
  simpl. unfold Heap.lookup. simpl. rewrite Nat.eqb_refl. simpl.
  (* views in h1 extend to the heap with the new root cell *)
  set (h2 := {| cells := (next D h1, {| dat := d; kids := roots |}) :: cells D h1; next := S (next D h1) |}).
  assert (Hf2 : fresh_spec h1 h2).
  { split; [simpl; lia|]. intros l Hl'. unfold Heap.lookup. simpl.
    destruct (Nat.eqb (next D h1) l) eqn:El; [apply Nat.eqb_eq in El; lia | reflexivity]. }
  set (f := fold_right (fun k m => Nat.max (depth k) m) 0 ks).
  assert (Hmap : all_some (map (view f h2) roots) = Some ks).
  { apply (all_some_view_extend f h1 h2 roots ks Hs1 Hf2). apply Hall. unfold f. apply le_n. }
  fold h2. now rewrite Hmap.
Qed.

(* deepcopy of a location: the copy denotes what the source denotes, the source still does *)
Theorem deepcopy_same_content fu h src t :
  scoped h -> view fu h src = Some t ->
  let hr := alloc t h in
  view (depth t) (fst hr) (snd hr) = Some t /\ view fu (fst hr) src = Some t.
Proof.
  intros Hs Hv hr. split; [now apply alloc_view|].
  apply (view_extend fu h (fst hr) src t Hs); [|assumption].
  now destruct (alloc_fresh D t h).
Qed.

End Copy.
