(* Examples.v — concrete documents showing that the hypotheses of the property theorems
   are satisfiable (and, where a property is refuted, the witness). *)
From Coq Require Import List Bool String NArith ZArith.
Import ListNotations.
From Mos Require Import Str Xml Outcome Seq Spec Elements Classify Messages Merge Proto.
From Mos.proofs Require Import XmlFacts.
Local Open Scope string_scope.

(* a small DSL for documents *)
Definition el (tag : string) (kids : list xml) : xml := Elem (lit tag) [] None None kids.
Definition tx (tag : string) (text : string) : xml := Elem (lit tag) [] (Some (lit text)) None [].

Definition no_oracles : oracles := {| parse_num := fun _ => None; parse_time := fun _ => None |}.

Definition ex_item (id : string) : xml := el "item" [tx "itemID" id; tx "itemSlug" "slug"].
Definition ex_story (id : string) : xml :=
  el "story" [tx "storyID" id; tx "storySlug" "slug"; ex_item "i1"; tx "p" "text"; ex_item "i2"; ex_item "i3"].
Definition ex_ro : xml :=
  el "mos" [tx "mosID" "M"; tx "ncsID" "N"; tx "messageID" "1";
            el "roCreate" [tx "roID" "RO"; tx "roSlug" "S"; ex_story "A"; tx "roTrigger" "t";
                           ex_story "B"; ex_story "C"; ex_story "D"]].
Definition ex_rc : xml :=
  el "roCreate" [tx "roID" "RO"; tx "roSlug" "S"; ex_story "A"; tx "roTrigger" "t";
                 ex_story "B"; ex_story "C"; ex_story "D"].
(* roStoryMove A before C: a forward move *)
Definition ex_move_b : xml := el "roStoryMove" [tx "roID" "RO"; tx "storyID" "A"; tx "storyID" "C"].
Definition ex_move : xml :=
  el "mos" [tx "mosID" "M"; tx "ncsID" "N"; tx "messageID" "7"; ex_move_b].

Lemma nodup_dec_str (l : list (option str)) :
  (fix nd (l : list (option str)) : bool :=
     match l with [] => true | x :: r => negb (existsb (ostr_eqb x) r) && nd r end) l = true -> NoDup l.
Proof.
  induction l as [|x l IH]; [constructor|]. intros H. apply andb_prop in H as [Hx Hl].
  constructor; [|auto]. intros Hc. apply negb_true_iff in Hx.
  assert (existsb (ostr_eqb x) l = true); [|congruence].
  apply existsb_exists. exists x. split; [assumption | now apply ostr_eqb_eq].
Qed.

Lemma ex_story_move :
  exists o ro k m b rc ids',
  rc_of ro = Some rc /\ ro_completed ro = false /\
  is_story_class k = true /\ schema_ok k m = true /\ base_of k m = Some b /\
  no_bad skey (kids_of rc) = true /\ NoDup (story_ids ro) /\ ro_stories_err o rc = None /\
  proto_story k b (story_ids ro) = Some ids' /\ ids' <> story_ids ro.
Proof.
  exists no_oracles, ex_ro, StoryMove, ex_move, ex_move_b, ex_rc,
    [Some (lit "B"); Some (lit "A"); Some (lit "C"); Some (lit "D")].
  repeat split; try (vm_compute; reflexivity).
  - apply nodup_dec_str. vm_compute. reflexivity.
  - vm_compute. discriminate.
Qed.

(* an item move inside story B: i1 before i3 *)
Definition ex_imove_b : xml :=
  el "roItemMoveMultiple" [tx "roID" "RO"; tx "storyID" "B"; tx "itemID" "i1"; tx "itemID" "i3"].
Definition ex_imove : xml :=
  el "mos" [tx "mosID" "M"; tx "ncsID" "N"; tx "messageID" "8"; ex_imove_b].

Lemma ex_item_move :
  exists (o : oracles) ro k m b rc i s ids',
  rc_of ro = Some rc /\ ro_completed ro = false /\
  is_item_class k = true /\ schema_ok k m = true /\ base_of k m = Some b /\
  find_story (addressed_story k b) (kids_of rc) = FFound i /\ nth_error (kids_of rc) i = Some s /\
  no_bad ikey (kids_of s) = true /\ NoDup (item_ids s) /\
  proto_item k b (item_ids s) = Some ids' /\ ids' <> item_ids s.
Proof.
  exists no_oracles, ex_ro, ItemMoveMultiple, ex_imove, ex_imove_b, ex_rc, 4, (ex_story "B"),
    [Some (lit "i2"); Some (lit "i1"); Some (lit "i3")].
  repeat split; try (vm_compute; reflexivity).
  - apply nodup_dec_str. vm_compute. reflexivity.
  - vm_compute. discriminate.
Qed.

(* ---- C05: a merge that fails (second source unknown) *)
Definition ex_imove_bad_b : xml :=
  el "roItemMoveMultiple" [tx "roID" "RO"; tx "storyID" "B"; tx "itemID" "i3"; tx "itemID" "zz"; tx "itemID" "i1"].
Definition ex_imove_bad : xml :=
  el "mos" [tx "mosID" "M"; tx "ncsID" "N"; tx "messageID" "9"; ex_imove_bad_b].
Lemma ex_failing_move :
  exists (o : oracles) ro k m,
  wf_ro ro = true /\ msg_ok m = true /\ r_err (add o ro k m) = Some MosMergeError.
Proof. exists no_oracles, ex_ro, ItemMoveMultiple, ex_imove_bad. repeat split; vm_compute; reflexivity. Qed.

(* ... and the same message without a messageID: the f-string of the MosMergeError raises
   AttributeError instead - still before anything is changed; and a delete of a known and an
   unknown story without messageID is applied with one warning, no exception (repair F29) *)
Definition ex_imove_noid : xml := el "mos" [tx "mosID" "M"; tx "ncsID" "N"; ex_imove_bad_b].
Lemma ex_failing_move_noid :
  exists (o : oracles) ro k m,
  rc_of ro <> None /\ msg_ok m = false /\ r_err (add o ro k m) = Some PyAttributeError.
Proof. exists no_oracles, ex_ro, ItemMoveMultiple, ex_imove_noid. split; [vm_compute; discriminate | split; vm_compute; reflexivity]. Qed.
Definition ex_delete_noid : xml :=
  el "mos" [el "roStoryDelete" [tx "roID" "RO"; tx "storyID" "A"; tx "storyID" "zz"]].
Lemma ex_delete_noid_warns :
  msg_ok ex_delete_noid = false /\ r_err (add no_oracles ex_ro StoryDelete ex_delete_noid) = None /\
  r_ws (add no_oracles ex_ro StoryDelete ex_delete_noid) = [StoryNotFound].
Proof. repeat split; vm_compute; reflexivity. Qed.

(* ---- C12: a roStorySend without storyBody is not schema-shaped: AttributeError escapes *)
Definition ex_send_bad : xml :=
  el "mos" [tx "messageID" "2"; el "roStorySend" [tx "roID" "RO"; tx "storyID" "A"]].
Lemma ex_attribute_error :
  exists (o : oracles) ro k m, wf_ro ro = true /\ r_err (add o ro k m) = Some PyAttributeError.
Proof. exists no_oracles, ex_ro, StorySend, ex_send_bad. split; vm_compute; reflexivity. Qed.

(* ---- C08: the rows of the two classification tables *)
Definition doc_with (tag : str) : xml := el "mos" [tx "messageID" "1"; Elem tag [] None None []].
Definition ea_doc (op : option str) (target_item source source_item : bool) : xml :=
  el "mos" [Elem t_roElementAction (match op with Some o => [(t_operation, o)] | None => [] end) None None
              ((el "element_target" (tx "storyID" "A" :: if target_item then [tx "itemID" "i"] else []))
               :: if source then [el "element_source" (if source_item then [tx "itemID" "j"] else [tx "storyID" "B"])] else [])].
Definition is_class_res (r : exn + mclass) (k : mclass) : bool :=
  match r with inr k' => mclass_eqb k k' | inl _ => false end.
Definition is_unknown (r : exn + mclass) : bool :=
  match r with inl UnknownMosFileType => true | _ => false end.
Definition class_table_ok : bool :=
  forallb (fun tc => match snd tc with
                     | Some k => is_class_res (classify (doc_with (fst tc))) k
                     | None => true end) tag_class_map
  && forallb (fun row => let '((op, t, s), k) := row in
                         is_class_res (classify (ea_doc (Some op) t true s)) k) ea_table
  && is_unknown (classify (ea_doc None false true false))
  && is_unknown (classify (ea_doc (Some (lit "FROB")) false true false))
  && is_unknown (classify (ea_doc (Some op_MOVE) false true true))
  && is_unknown (classify (ea_doc (Some op_MOVE) false false false))
  && is_unknown (classify (el "mos" [tx "messageID" "1"; tx "heartbeat" "x"]))
  && is_unknown (classify (el "notmos" [])).
