(* ItemNoDup.v — "the item IDs of every story are pairwise distinct" is an invariant of merging
   (the hypothesis of the item-order theorem C02), under a freshness condition on the items and
   stories a message carries.  Boolean throughout, so the conditions are executable. *)
From Coq Require Import List Bool Arith NArith ZArith Lia Permutation.
Import ListNotations.
From Mos Require Import Str Xml Outcome Seq Spec Elements Classify Messages Merge Collection Proto.
From Mos.proofs Require Import ListFacts SeqFacts MoveFacts XmlFacts StoryOrder Lift Atomic WfFacts Clean
     Warn Frame ItemFacts Others StoryStable NoDupFacts CollFacts Timing.

(* ---- decidable NoDup on optional IDs *)
Fixpoint nodup_ostr (l : list (option str)) : bool :=
  match l with
  | [] => true
  | x :: r => negb (existsb (ostr_eqb x) r) && nodup_ostr r
  end.
Lemma nodup_ostr_iff l : nodup_ostr l = true <-> NoDup l.
Proof.
  induction l as [|x l IH]; simpl; [split; [constructor | reflexivity]|].
  rewrite andb_true_iff, negb_true_iff, IH. split.
  - intros [Hx Hl]. constructor; [|assumption]. intros Hc.
    assert (existsb (ostr_eqb x) l = true); [|congruence].
    apply existsb_exists. exists x. split; [assumption | now apply ostr_eqb_eq].
  - intros H. inversion H as [|? ? Hx Hl]; subst. split; [|assumption].
    destruct (existsb (ostr_eqb x) l) eqn:E; [|reflexivity]. exfalso. apply Hx.
    apply existsb_exists in E as (y & Hy & Ey). apply ostr_eqb_eq in Ey. now subst.
Qed.

(* ---- the ID-level facts the spec functions need *)
Section Ids.
Context {K : Type}.
Variable keqb : K -> K -> bool.

Lemma sp_insert_before_perm t new (l : list (option K)) : forall ks,
  sp_insert_before keqb t new l = Some ks -> Permutation ks (l ++ new).
Proof.
  induction l as [|a l IH]; intros ks H; simpl in H; [discriminate|].
  destruct (oeq keqb a t).
  - injection H as <-. rewrite Permutation_app_comm. reflexivity.
  - destruct (sp_insert_before keqb t new l) as [r'|]; [|discriminate]. injection H as <-.
    simpl. constructor. now apply IH.
Qed.
Lemma sp_insert_perm tgt new (l ks : list (option K)) :
  sp_insert keqb tgt new l = Some ks -> Permutation ks (l ++ new).
Proof.
  destruct tgt as [t|]; simpl; [apply sp_insert_before_perm|]. intros H. injection H as <-. reflexivity.
Qed.
End Ids.

Section Items.
Variable o : oracles.
Notation ikeys := (keys ikey).

(* the per-class condition on the items a message carries, in the story it addresses *)
Definition item_fresh (k : mclass) (b : xml) (ids : list (option str)) : bool :=
  match k with
  | ItemInsert => nodup_ostr (ids ++ ikeys (carried t_item b))
  | EAItemInsert => nodup_ostr (ids ++ ikeys (ea_carried t_item b))
  | ItemReplace =>
    match first_item_id b with
    | Some t => nodup_ostr (sp_remove1 str_eqb t ids ++ ikeys (carried t_item b))
    | None => true
    end
  | EAItemReplace =>
    match ea_target_id t_itemID b with
    | Some t => nodup_ostr (sp_remove1 str_eqb t ids ++ ikeys (ea_carried t_item b))
    | None => true
    end
  | _ => true
  end.

Lemma insert_nodup mex tgt new l :
  mex = None -> NoDup (ikeys l) -> NoDup (ikeys l ++ ikeys new) ->
  NoDup (ikeys (r_st (gen_insert ikey str_eqb mex tgt new l))).
Proof.
  intros -> Hnd Hf.
  pose proof (gen_insert_spec ikey str_eqb str_eqb_eq tgt new l (no_bad_ckey _ _ l)) as [_ H].
  destruct (sp_insert str_eqb tgt (ikeys new) (ikeys l)) as [ks|] eqn:Es.
  - destruct H as (_ & -> & _). eapply Permutation_NoDup; [symmetry; eapply sp_insert_perm; eauto | exact Hf].
  - destruct H as (_ & ->). exact Hnd.
Qed.

Lemma replace_nodup mex tgt new l :
  mex = None -> NoDup (ikeys l) ->
  match tgt with Some t => NoDup (sp_remove1 str_eqb t (ikeys l) ++ ikeys new) | None => True end ->
  NoDup (ikeys (r_st (gen_replace ikey str_eqb mex tgt new l))).
Proof.
  intros -> Hnd Hf.
  pose proof (gen_replace_spec ikey str_eqb str_eqb_eq tgt new l (no_bad_ckey _ _ l)) as [_ H].
  destruct tgt as [t|].
  - destruct (sp_replace str_eqb t (ikeys new) (ikeys l)) as [ks|] eqn:Es.
    + destruct H as (_ & -> & _). eapply (sp_replace_nodup str_eqb); eauto.
    + destruct H as (_ & ->). exact Hnd.
  - destruct H as (_ & ->). exact Hnd.
Qed.

Lemma perm_or_same_nodup (r : res (list xml)) l :
  match r_err r with None => Permutation (r_st r) l | Some _ => r_st r = l end ->
  NoDup (ikeys l) -> NoDup (ikeys (r_st r)).
Proof.
  intros H Hnd. destruct (r_err r); [now rewrite H|].
  eapply Permutation_NoDup; [symmetry; apply keys_perm; exact H | exact Hnd].
Qed.

(* one item-level edit on the children of the story it is applied to *)
Theorem item_edit_nodup k m b f ik :
  item_edit k m b = Some f -> msg_ok m = true -> NoDup (ikeys ik) -> item_fresh k b (ikeys ik) = true ->
  NoDup (ikeys (r_st (f ik))).
Proof.
  intros Hf Hm Hnd Hfr.
  assert (Hmex : msg_id_exn m = None) by (unfold msg_ok in Hm; destruct (msg_id_exn m); [discriminate|reflexivity]).
  destruct k; try discriminate Hf; cbn [item_edit] in Hf; injection Hf as <-; cbn [item_fresh] in Hfr.
  - rewrite Hmex.
    pose proof (proto_delete_sound t_item t_itemID None ItemNotFound (id_tags t_itemID b) ik eq_refl (no_bad_ckey _ _ ik)) as (_ & Hk & _).
    fold ikey in Hk. rewrite Hk. now apply sp_delete_nodup.
  - apply insert_nodup; try assumption. now apply nodup_ostr_iff.
  - destruct (imm_target b); [|exact Hnd].
    apply (perm_or_same_nodup _ ik); [apply (gen_move_total ikey str_eqb str_eqb_eq) | exact Hnd].
  - apply replace_nodup; try assumption. destruct (first_item_id b); [now apply nodup_ostr_iff | exact I].
  - apply replace_nodup; try assumption. destruct (ea_target_id t_itemID b); [now apply nodup_ostr_iff | exact I].
  - rewrite Hmex.
    pose proof (proto_delete_sound t_item t_itemID None ItemNotFound (ea_source_ids t_itemID b) ik eq_refl (no_bad_ckey _ _ ik)) as (_ & Hk & _).
    fold ikey in Hk. rewrite Hk. now apply sp_delete_nodup.
  - apply insert_nodup; try assumption. now apply nodup_ostr_iff.
  - apply (perm_or_same_nodup _ ik); [apply (gen_swap_total ikey str_eqb str_eqb_eq) | exact Hnd].
  - apply (perm_or_same_nodup _ ik); [apply (gen_move_total ikey str_eqb str_eqb_eq) | exact Hnd].
Qed.

(* ---- the invariant on the children of roCreate *)
Definition uniq_items (x : xml) : bool := if has_tag t_story x then nodup_ostr (item_ids x) else true.

(* freshness of what the message carries, in the running order it meets *)
Definition items_fresh_in (k : mclass) (b : xml) (kids : list xml) : bool :=
  forallb uniq_items (story_payload k b) &&
  (match k with MetaDataReplace => forallb uniq_items (kids_of b) | _ => true end) &&
  (if is_item_class k then
     match find_story (addressed_story k b) kids with
     | FFound i => match nth_error kids i with Some s => item_fresh k b (item_ids s) | None => true end
     | _ => true
     end
   else true).

Theorem merge_kids_uniq_items k m b rc :
  msg_ok m = true -> forallb uniq_items (kids_of rc) = true -> items_fresh_in k b (kids_of rc) = true ->
  forallb uniq_items (r_st (merge_kids o k m b rc)) = true.
Proof.
  intros Hm Hk Hf. unfold items_fresh_in in Hf. apply andb_prop in Hf as [Hf Hitem]. apply andb_prop in Hf as [Hsp Hmd].
  apply (merge_kids_inv_gen o uniq_items k m b rc); try assumption.
  - intros i s f Hedit Hfs Hn Ht Hq.
    assert (Hic : is_item_class k = true) by (destruct k; try discriminate Hedit; reflexivity).
    rewrite Hic, Hfs, Hn in Hitem.
    unfold uniq_items in *. rewrite has_tag_set_kids, Ht in *. unfold item_ids in *. rewrite kids_set_kids.
    apply nodup_ostr_iff. apply (item_edit_nodup k m b f); try assumption. now apply nodup_ostr_iff.
  - intros ->. exact Hmd.
Qed.

End Items.
