(* Frame.v — C03: a merge changes only what the message names; C04: payloads arrive intact. *)
From Coq Require Import List Bool Arith NArith Lia Permutation.
Import ListNotations.
From Mos Require Import Str Xml Outcome Seq Spec Elements Classify Messages Merge Proto.
From Mos.proofs Require Import ListFacts SeqFacts MoveFacts XmlFacts StoryOrder Lift Atomic WfFacts Clean Warn.

Lemma mem_ostr_in id ids : mem_ostr id ids = true <-> In id ids.
Proof.
  unfold mem_ostr. rewrite existsb_exists. split.
  - intros (x & Hx & E). apply ostr_eqb_eq in E. now subst.
  - intros H. exists id. split; [assumption | now apply ostr_eqb_eq].
Qed.
Lemma mem_ostr_incl id ids ids' : incl ids ids' -> mem_ostr id ids = true -> mem_ostr id ids' = true.
Proof. intros Hi H. apply mem_ostr_in. apply Hi. now apply mem_ostr_in. Qed.

Section Generic.
Variables tag idtag : str.
Notation kof := (ckey tag idtag).
Notation keys := (keys kof).
Notation no_bad := (no_bad kof).
Notation lookup := (lookup kof str_eqb).
Notation untouched := (untouched kof).
Notation touched := (touched kof).

(* replacing a touched stretch by touched elements leaves the untouched ones as they were *)
Lemma frame_splice ids pre mid new post :
  forallb (touched ids) mid = true -> forallb (touched ids) new = true ->
  untouched ids (pre ++ new ++ post) = untouched ids (pre ++ mid ++ post).
Proof.
  intros Hm Hn. unfold Proto.untouched. rewrite !filter_app.
  assert (H : forall l, forallb (touched ids) l = true -> filter (fun x => negb (touched ids x)) l = []).
  { induction l as [|x l IH]; [reflexivity|]. simpl. intros H. apply andb_prop in H as [Hx Hl].
    rewrite Hx. simpl. auto. }
  now rewrite (H _ Hm), (H _ Hn).
Qed.

Lemma untouched_all_touched ids l : forallb (touched ids) l = true -> untouched ids l = [].
Proof.
  unfold Proto.untouched. induction l as [|x l IH]; [reflexivity|]. simpl. intros H.
  apply andb_prop in H as [Hx Hl]. rewrite Hx. simpl. auto.
Qed.

Lemma touched_carried ids new :
  carried_ok tag idtag new = true -> incl (map (elem_id idtag) new) ids ->
  forallb (touched ids) new = true.
Proof.
  intros Hc Hi. apply forallb_forall. intros x Hx. unfold carried_ok in Hc.
  rewrite forallb_forall in Hc. specialize (Hc x Hx). unfold Proto.touched.
  rewrite (ckey_keyed _ _ _ Hc). apply mem_ostr_in. apply Hi. now apply in_map.
Qed.

Lemma touched_key ids x id : kof x = KKey id -> In id ids -> touched ids x = true.
Proof. intros Hk Hi. unfold Proto.touched. rewrite Hk. now apply mem_ostr_in. Qed.

Lemma frame_replace ids tgt new l :
  no_bad l = true -> In tgt ids -> forallb (touched ids) new = true ->
  untouched ids (r_st (gen_replace kof str_eqb None tgt new l)) = untouched ids l.
Proof.
  intros Hb Ht Hn.
  pose proof (gen_replace_spec kof str_eqb str_eqb_eq tgt new l Hb) as [_ H].
  destruct (match tgt with Some t => sp_replace str_eqb t (keys new) (keys l) | None => None end).
  - destruct H as (_ & _ & pre & x & post & El & Hx & _ & Hst). rewrite Hst, El.
    apply (frame_splice ids pre [x] new post); [|assumption].
    simpl. now rewrite (touched_key ids x tgt Hx Ht).
  - destruct H as [_ ->]. reflexivity.
Qed.

Lemma frame_insert ids tgt new l :
  no_bad l = true -> forallb (touched ids) new = true ->
  untouched ids (r_st (gen_insert kof str_eqb None tgt new l)) = untouched ids l.
Proof.
  intros Hb Hn.
  pose proof (gen_insert_spec kof str_eqb str_eqb_eq tgt new l Hb) as [_ H].
  destruct (sp_insert str_eqb tgt (keys new) (keys l)).
  - destruct H as (_ & _ & pre & post & El & Hst). rewrite Hst, El.
    apply (frame_splice ids pre [] new post); [reflexivity | assumption].
  - destruct H as [_ ->]. reflexivity.
Qed.

Lemma fresh_incl (id_of : xml -> option str) okeqb seen new x :
  In x (fresh_elems id_of okeqb seen new) -> In x new.
Proof.
  revert seen. induction new as [|s new IH]; intros seen H; [destruct H|]. simpl in H.
  destruct (existsb (okeqb (id_of s)) seen); [right; eauto|].
  destruct H as [<-|H]; [now left | right; eauto].
Qed.

Lemma frame_dups ids (id_of : xml -> option str) okeqb w seen i new l :
  i <= length l -> forallb (touched ids) new = true ->
  untouched ids (r_st (insert_dups None id_of okeqb w seen i new l)) = untouched ids l.
Proof.
  intros Hi Hn.
  destruct (insert_dups_spec id_of okeqb w seen i new l Hi) as (_ & Hst & _). rewrite Hst.
  unfold insert_many. rewrite <- (firstn_skipn i l) at 3.
  apply (frame_splice ids (firstn i l) [] _ (skipn i l)); [reflexivity|].
  apply forallb_forall. intros x Hx. rewrite forallb_forall in Hn. apply Hn. eapply fresh_incl; eauto.
Qed.

Lemma filter_filter_impl {B} (f g : B -> bool) l :
  (forall x, f x = true -> g x = true) ->
  filter f (filter g l) = filter f l.
Proof.
  intros H. induction l as [|x l IH]; [reflexivity|]. simpl.
  destruct (g x) eqn:Eg; simpl.
  - destruct (f x); now rewrite IH.
  - destruct (f x) eqn:Ef; [apply H in Ef; congruence | exact IH].
Qed.

(* a frame for a smaller set of names is a frame for a larger one *)
Lemma frame_weaken (P Q : xml -> bool) l l' :
  (forall x, P x = true -> Q x = true) ->
  filter (fun x => negb (P x)) l' = filter (fun x => negb (P x)) l ->
  filter (fun x => negb (Q x)) l' = filter (fun x => negb (Q x)) l.
Proof.
  intros H E.
  rewrite <- (filter_filter_impl (fun x => negb (Q x)) (fun x => negb (P x)) l').
  - rewrite E. apply filter_filter_impl. intros x Hx. destruct (P x) eqn:Ep; [apply H in Ep; rewrite Ep in Hx; discriminate | reflexivity].
  - intros x Hx. destruct (P x) eqn:Ep; [apply H in Ep; rewrite Ep in Hx; discriminate | reflexivity].
Qed.

Lemma named_by_touched ids ids' x :
  incl ids ids' -> named_by kof str_eqb ids x = true -> touched ids' x = true.
Proof.
  intros Hi H. unfold named_by in H. apply existsb_exists in H as ([s|] & Hs & Hk); [|discriminate].
  unfold key_is in Hk. unfold Proto.touched. destruct (kof x) as [| |[k|]]; try discriminate.
  apply str_eqb_eq in Hk. subst. apply mem_ostr_in. now apply Hi.
Qed.

Lemma frame_delete ids ids' w l :
  no_bad l = true -> incl ids ids' ->
  untouched ids' (r_st (delete_loop kof str_eqb None w ids l)) = untouched ids' l.
Proof.
  intros Hb Hi. unfold Proto.untouched.
  apply (frame_weaken (named_by kof str_eqb ids)); [intros x; now apply named_by_touched|].
  now apply (delete_loop_frame kof str_eqb str_eqb_eq).
Qed.

Lemma named_touched ss ids' x :
  incl (map Some ss) ids' -> named kof str_eqb ss x = true -> touched ids' x = true.
Proof.
  intros Hi H. unfold named in H. apply existsb_exists in H as (s & Hs & Hk).
  unfold key_is in Hk. unfold Proto.touched. destruct (kof x) as [| |[k|]]; try discriminate.
  apply str_eqb_eq in Hk. subst. apply mem_ostr_in. apply Hi. now apply in_map.
Qed.

(* a move whose references resolve in a list with unique IDs: everything it does not name
   keeps its content and relative order *)
Lemma frame_move ids' tgt srcs l ks :
  no_bad l = true -> NoDup (keys l) -> proto_move tgt srcs (keys l) = Some ks -> incl srcs ids' ->
  untouched ids' (r_st (gen_move kof str_eqb None tgt srcs l)) = untouched ids' l.
Proof.
  intros Hb Hnd Hp Hi. unfold proto_move in Hp.
  destruct (all_some srcs) as [ss|] eqn:Ea; [|discriminate].
  apply all_some_map in Ea. subst srcs.
  destruct (nodup_str ss) eqn:E1; [|discriminate].
  destruct (forallb (fun s => sp_mem str_eqb s (keys l)) ss) eqn:E2; [|discriminate].
  cbn [andb] in Hp.
  destruct (match tgt with Some t => sp_mem str_eqb t (keys l) && negb (mem_str t ss) | None => true end) eqn:E3;
    [|discriminate].
  pose proof (gen_move_keys kof str_eqb str_eqb_eq tgt ss l Hb Hnd (nodup_str_NoDup _ E1)) as H.
  destruct H as (_ & _ & _ & _ & Hf).
  - intros s Hs. rewrite forallb_forall in E2. now apply E2.
  - destruct tgt as [t|]; [|exact I]. apply andb_prop in E3 as [Ht Hn]. split; [assumption|].
    intros Hc. apply mem_str_in in Hc. rewrite Hc in Hn. discriminate.
  - unfold Proto.untouched. apply (frame_weaken (named kof str_eqb ss)); [intros x; now apply named_touched | exact Hf].
Qed.

Lemma frame_swap ids' ids l ks :
  no_bad l = true -> NoDup (keys l) -> proto_swap ids (keys l) = Some ks -> incl ids ids' ->
  untouched ids' (r_st (gen_swap kof str_eqb None ids l)) = untouched ids' l.
Proof.
  intros Hb Hnd Hp Hi. unfold proto_swap in Hp.
  destruct ids as [|[a|] [|[b|] [|? ?]]]; try discriminate.
  destruct (str_eqb a b) eqn:E1; [discriminate|].
  destruct (sp_mem str_eqb a (keys l)) eqn:E2; [|discriminate].
  destruct (sp_mem str_eqb b (keys l)) eqn:E3; [|discriminate].
  assert (Hab : a <> b) by (intros ->; rewrite str_eqb_refl in E1; discriminate).
  pose proof (gen_swap_keys kof str_eqb str_eqb_eq a b l Hb Hnd Hab E2 E3) as (_ & _ & _ & _ & Hf).
  unfold Proto.untouched.
  apply (frame_weaken (fun x => key_is kof str_eqb a x || key_is kof str_eqb b x)); [|exact Hf].
  intros x Hx. apply (named_touched [a; b]); [exact Hi|]. unfold named. simpl. now rewrite orb_false_r.
Qed.

End Generic.

(* ---- C03 for story-level merges: every child of roCreate that the message neither names
   nor carries keeps its content and its place relative to the others *)
Section StoryFrame.
Variable o : oracles.

Lemma incl_app_l {B} (a b : list B) : incl a (a ++ b).
Proof. intros x H. apply in_or_app. now left. Qed.
Lemma incl_app_r {B} (a b : list B) : incl b (a ++ b).
Proof. intros x H. apply in_or_app. now right. Qed.

Theorem story_frame k m b rc :
  is_story_class k = true -> schema_ok k m = true -> base_of k m = Some b ->
  no_bad skey (kids_of rc) = true ->
  (* moves and swaps: the case the order theorem covers (unique IDs, references resolve) *)
  (forall ks,
     (k = StoryMove \/ k = EAStoryMove \/ k = EAStorySwap) ->
     NoDup (story_ids_rc rc) /\ proto_story k b (story_ids_rc rc) = Some ks) ->
  untouched skey (story_touch_ids k b) (r_st (merge_kids o k m b rc))
  = untouched skey (story_touch_ids k b) (kids_of rc).
Proof.
  intros Hk Hs Hbase Hb Hmv.
  unfold schema_ok in Hs. apply andb_prop in Hs as [Hm Hs]. rewrite Hbase in Hs.
  assert (Hmex : msg_id_exn m = None) by (unfold msg_ok in Hm; destruct (msg_id_exn m); [discriminate|reflexivity]).
  unfold merge_kids, story_touch_ids. rewrite Hmex. set (kids := kids_of rc) in *.
  destruct k; try discriminate Hk; cbn [named_story_ids story_payload].
  - (* StorySend *)
    destruct (convert_story_send b) as [s|] eqn:Ec; [|reflexivity].
    unfold find_story. destruct (lookup skey str_eqb (story_id s) kids) as [i| |] eqn:E; try reflexivity.
    destruct (story_id s) as [t|] eqn:Et; [|discriminate].
    pose proof (frame_replace t_story t_storyID [Some t; Some t] (Some t) [s] kids Hb (or_introl eq_refl)) as H.
    unfold gen_replace in H. change (ckey t_story t_storyID) with skey in H. rewrite E in H. cbn [r_st ok] in H.
    cbn [map app r_st ok]. rewrite Et. apply H.
    simpl. rewrite andb_true_r. apply (touched_key t_story t_storyID _ s (Some t)); [|now left].
    apply (skey_converted b s t Ec Et).
  - (* StoryAppend *)
    cbn [r_st ok app].
    assert (H : forallb (touched skey (map story_id (carried t_story b))) (carried t_story b) = true)
      by (apply (touched_carried t_story t_storyID); [assumption | apply incl_refl]).
    apply (untouched_all_touched t_story t_storyID) in H.
    unfold Proto.untouched in *. rewrite filter_app. fold skey in H. rewrite H. now rewrite app_nil_r.
  - apply (frame_delete t_story t_storyID); [assumption | rewrite app_nil_r; apply incl_refl].
  - (* StoryInsert *)
    unfold find_story. destruct (lookup skey str_eqb (first_story_id b) kids) as [i| |] eqn:E; try reflexivity.
    destruct (ro_stories_err o rc); [reflexivity|].
    apply (frame_dups t_story t_storyID).
    + destruct (first_story_id b) as [t|]; [|discriminate].
      apply (lookup_found_lt skey str_eqb str_eqb_eq) in E. fold kids in E. lia.
    + apply (touched_carried t_story t_storyID); [assumption | apply (incl_app_r [first_story_id b])].
  - (* StoryMove *)
    destruct (story_move_source b) as [src|] eqn:Esrc; [|reflexivity].
    destruct (Hmv [] (or_introl eq_refl)) as [Hnd _].
    destruct (proto_story StoryMove b (story_ids_rc rc)) as [ks|] eqn:Ep;
      [|destruct (Hmv [] (or_introl eq_refl)) as [_ Hc]; discriminate].
    cbn [proto_story] in Ep. rewrite Esrc in Ep.
    apply (frame_move t_story t_storyID _ _ _ kids ks Hb Hnd Ep).
    rewrite app_nil_r. intros x [<-|[]]. now left.
  - (* StoryReplace *)
    unfold find_story. destruct (lookup skey str_eqb (first_story_id b) kids) as [i| |] eqn:E; try reflexivity.
    destruct (carried t_story b) as [|n0 nr] eqn:Ecar; [reflexivity|].
    pose proof (frame_replace t_story t_storyID ([first_story_id b] ++ map story_id (n0 :: nr))
                  (first_story_id b) (n0 :: nr) kids Hb (or_introl eq_refl)) as H.
    unfold gen_replace in H. change (ckey t_story t_storyID) with skey in H. rewrite E in H. cbn [r_st ok] in H. apply H.
    apply (touched_carried t_story t_storyID); [assumption | apply (incl_app_r [first_story_id b])].
  - (* EAStoryReplace *)
    apply (frame_replace t_story t_storyID); [assumption | now left|].
    apply (touched_carried t_story t_storyID); [assumption | apply (incl_app_r [_])].
  - apply (frame_delete t_story t_storyID); [assumption | rewrite app_nil_r; apply incl_refl].
  - (* EAStoryInsert *)
    destruct (locate_target skey str_eqb (ea_target_id t_storyID b) kids) as [|i| |] eqn:E; try reflexivity.
    + destruct (ro_stories_err o rc); [reflexivity|].
      apply (frame_dups t_story t_storyID); [lia|].
      apply (touched_carried t_story t_storyID); [assumption | apply incl_app_r].
    + destruct (ro_stories_err o rc); [reflexivity|].
      apply (frame_dups t_story t_storyID).
      * unfold locate_target in E. destruct (ea_target_id t_storyID b) as [t|]; [|discriminate].
        destruct (lookup skey str_eqb (Some t) kids) as [j| |] eqn:El; try discriminate. injection E as <-.
        apply (lookup_found_lt skey str_eqb str_eqb_eq) in El. lia.
      * apply (touched_carried t_story t_storyID); [assumption | apply incl_app_r].
  - (* EAStorySwap *)
    destruct (Hmv [] (or_intror (or_intror eq_refl))) as [Hnd _].
    destruct (proto_story EAStorySwap b (story_ids_rc rc)) as [ks|] eqn:Ep;
      [|destruct (Hmv [] (or_intror (or_intror eq_refl))) as [_ Hc]; discriminate].
    cbn [proto_story] in Ep.
    apply (frame_swap t_story t_storyID _ _ kids ks Hb Hnd Ep). rewrite app_nil_r. apply incl_refl.
  - (* EAStoryMove *)
    destruct (Hmv [] (or_intror (or_introl eq_refl))) as [Hnd _].
    destruct (proto_story EAStoryMove b (story_ids_rc rc)) as [ks|] eqn:Ep;
      [|destruct (Hmv [] (or_intror (or_introl eq_refl))) as [_ Hc]; discriminate].
    cbn [proto_story] in Ep.
    apply (frame_move t_story t_storyID _ _ _ kids ks Hb Hnd Ep). rewrite app_nil_r. apply incl_app_l.
Qed.

(* ---- item-level merges touch only the addressed story: whatever the message, the result
   is the old list of children with (at most) the children of the addressed story replaced *)
Theorem item_ops_touch_one_story k m b rc :
  is_item_class k = true ->
  let kids := kids_of rc in
  let r := merge_kids o k m b rc in
  r_st r = kids \/
  exists i s ik', find_story (addressed_story k b) kids = FFound i /\ nth_error kids i = Some s /\
                 r_st r = update_nth i (fun s' => set_kids s' ik') kids.
Proof.
  intros Hk kids r. subst r.
  assert (Hws : forall sid missing f, r_st missing = kids ->
            r_st (with_story sid kids missing f) = kids \/
            exists i s ik', find_story sid kids = FFound i /\ nth_error kids i = Some s /\
              r_st (with_story sid kids missing f) = update_nth i (fun s' => set_kids s' ik') kids).
  { intros sid missing f Hmiss. unfold with_story.
    destruct (find_story sid kids) as [i| |] eqn:E; [|now left | now left].
    destruct (nth_error kids i) as [s|] eqn:En; [|now left].
    right. exists i, s, (r_st (f (kids_of s))). repeat split; auto. }
  unfold merge_kids. fold kids.
  destruct k; try discriminate Hk; cbn [addressed_story];
    try (apply Hws; destruct (msg_id_exn m); reflexivity).
  destruct (first_story_id b) as [sid0|]; [|left; destruct (msg_id_exn m); reflexivity].
  apply Hws. destruct (msg_id_exn m); reflexivity.
Qed.

End StoryFrame.

(* ---- roMetadataReplace: children not matched by a carried element are untouched *)
Lemma md_index_same s l i :
  md_index s l = Some i -> exists pre x post, l = pre ++ x :: post /\ length pre = i /\ md_same s x = true.
Proof.
  unfold md_index, md_same. destruct (has_tag t_mosExternalMetadata s).
  - revert i. induction l as [|c l IH]; intros i H; simpl in H; [discriminate|].
    destruct (has_tag t_mosExternalMetadata c && ostr_eqb (findtext t_mosSchema (kids_of c)) (findtext t_mosSchema (kids_of s))) eqn:E.
    + injection H as <-. exists [], c, l. repeat split; auto.
    + destruct (md_schema_index _ l) as [j|]; [|discriminate]. injection H as <-.
      destruct (IH j eq_refl) as (pre & x & post & -> & <- & Hx). exists (c :: pre), x, post. repeat split; auto.
  - intros H. destruct (find_index_split _ _ _ H) as (pre & x & post & -> & <- & Hx & _). now exists pre, x, post.
Qed.

Lemma md_same_refl s : md_same s s = true.
Proof.
  unfold md_same. destruct (has_tag t_mosExternalMetadata s) eqn:E.
  - simpl. now apply ostr_eqb_eq.
  - unfold has_tag. apply str_eqb_refl.
Qed.

Theorem metadata_frame srcs kids :
  filter (fun c => negb (md_matched srcs c)) (md_loop srcs kids)
  = filter (fun c => negb (md_matched srcs c)) kids.
Proof.
  assert (Hgen : forall all srcs kids, incl srcs all ->
            filter (fun c => negb (md_matched all c)) (md_loop srcs kids)
            = filter (fun c => negb (md_matched all c)) kids).
  { clear. intros all srcs. induction srcs as [|s srcs IH]; intros kids Hi; [reflexivity|]. simpl.
    assert (Hs : forall x, md_same s x = true -> md_matched all x = true).
    { intros x Hx. unfold md_matched. apply existsb_exists. exists s. split; [apply Hi; now left | assumption]. }
    rewrite IH by (intros x Hx; apply Hi; now right).
    destruct (md_index s kids) as [i|] eqn:E.
    - destruct (md_index_same s kids i E) as (pre & x & post & -> & <- & Hx).
      rewrite replace_at_app, !filter_app. simpl.
      now rewrite (Hs s (md_same_refl s)), (Hs x Hx).
    - rewrite filter_app. simpl. rewrite (Hs s (md_same_refl s)). simpl. now rewrite app_nil_r. }
  apply Hgen. apply incl_refl.
Qed.

(* ---- C04: payloads arrive intact *)
(* the shape of a converted roStorySend: the children of the first storyBody spliced in
   its place in their original order, direct storyItem children renamed item *)
Theorem story_send_shape tg atr tx tl pre body post :
  (forall y, In y pre -> has_tag t_storyBody y = false) -> has_tag t_storyBody body = true ->
  convert_story_send (Elem tg atr tx tl (pre ++ body :: post))
  = Some (Elem t_story atr tx tl (pre ++ map rename_story_item (kids_of body) ++ post)).
Proof.
  intros Hpre Hb. unfold convert_story_send. simpl.
  assert (H : splice_body (pre ++ body :: post) = Some (pre ++ map rename_story_item (kids_of body) ++ post)).
  { induction pre as [|c pre IH]; simpl.
    - now rewrite Hb.
    - rewrite (Hpre c (or_introl eq_refl)). rewrite IH; [reflexivity|]. intros y Hy. apply Hpre. now right. }
  now rewrite H.
Qed.

(* carried elements are spliced in as the identical values, contiguous and in message order *)
Theorem payload_spliced tag idtag tgt new l :
  no_bad (ckey tag idtag) l = true ->
  (r_err (gen_insert (ckey tag idtag) str_eqb None tgt new l) = None ->
   exists pre post, l = pre ++ post /\ r_st (gen_insert (ckey tag idtag) str_eqb None tgt new l) = pre ++ new ++ post) /\
  (r_err (gen_replace (ckey tag idtag) str_eqb None tgt new l) = None ->
   exists pre x post, l = pre ++ x :: post /\ ckey tag idtag x = KKey tgt /\
     r_st (gen_replace (ckey tag idtag) str_eqb None tgt new l) = pre ++ new ++ post).
Proof.
  intros Hb. split; intros He.
  - pose proof (gen_insert_spec (ckey tag idtag) str_eqb str_eqb_eq tgt new l Hb) as [_ H].
    destruct (sp_insert str_eqb tgt _ _); [now destruct H as (_ & _ & H) | destruct H as [H _]; congruence].
  - pose proof (gen_replace_spec (ckey tag idtag) str_eqb str_eqb_eq tgt new l Hb) as [_ H].
    destruct (match tgt with Some t => sp_replace str_eqb t _ _ | None => None end).
    + destruct H as (_ & _ & pre & x & post & H1 & H2 & _ & H3). now exists pre, x, post.
    + destruct H as [H _]. congruence.
Qed.

(* after roReplace the running-order element is the sent one, retagged *)
Theorem roreplace_content o ro m b i :
  ro_completed ro = false -> base_of RunningOrderReplace m = Some b ->
  find_index t_roCreate (kids_of ro) = Some i ->
  rc_of (r_st (add o ro RunningOrderReplace m)) = Some (set_tag b t_roCreate).
Proof.
  intros Hc Hb Hi. unfold add. rewrite Hc. unfold merge. rewrite Hb, Hi. cbn [r_st ok].
  unfold rc_of. rewrite kids_set_kids.
  destruct (find_index_split _ _ _ Hi) as (pre & e & post & El & <- & He & Hpre).
  rewrite El, replace_at_app. apply find_app_first; [apply has_tag_set_tag | assumption].
Qed.

(* after roMetadataReplace every carried element that no later carried element matches is a
   child of roCreate, with the sent content *)
Theorem metadata_carried_present srcs kids s :
  In s srcs ->
  (forall pre post, srcs = pre ++ s :: post -> forall s', In s' post -> md_same s' s = false) ->
  NoDup srcs -> In s (md_loop srcs kids).
Proof.
  revert kids. induction srcs as [|c srcs IH]; intros kids Hin Hlater Hnd; [destruct Hin|].
  inversion Hnd as [|? ? Hc Hnd']; subst. simpl.
  destruct Hin as [->|Hin].
  - (* s is applied now; nothing later matches it, so it survives *)
    assert (Hsurv : forall rest l, (forall s', In s' rest -> md_same s' s = false) -> In s l -> In s (md_loop rest l)).
    { clear. induction rest as [|r rest IH]; intros l Hm Hl; [assumption|]. simpl. apply IH; [intros; apply Hm; now right|].
      destruct (md_index r l) as [i|] eqn:E; [|apply in_or_app; now left].
      destruct (md_index_same r l i E) as (pre & x & post & -> & <- & Hx). rewrite replace_at_app.
      apply in_app_or in Hl as [Hl|[<-|Hl]]; apply in_or_app; auto; [|right; now right].
      rewrite (Hm r (or_introl eq_refl)) in Hx. discriminate. }
    apply Hsurv; [apply (Hlater [] srcs eq_refl)|].
    destruct (md_index s kids) as [i|] eqn:E; [|apply in_or_app; right; now left].
    destruct (md_index_same s kids i E) as (pre & x & post & -> & <- & _). rewrite replace_at_app.
    apply in_or_app. right. now left.
  - apply IH; auto. intros pre post E s' Hs'. apply (Hlater (c :: pre) post); [simpl; now rewrite E | assumption].
Qed.
