(* ClassifyFacts.v — C08: classification is total and a function of the message element
   only; C07: completion is terminal and never spurious. *)
From Coq Require Import List Bool Arith NArith Lia.
Import ListNotations.
From Mos Require Import Str Xml Outcome Seq Spec Elements Classify Messages Merge Collection Proto.
From Mos.proofs Require Import ListFacts XmlFacts Lift Atomic WfFacts.

(* ---- C08 *)
(* what classification looks at in a roElementAction element *)
Definition ea_features (ea : xml) : option str * bool * option bool :=
  (attr_get t_operation (attrs_of ea),
   match find t_element_target (kids_of ea) with Some t => has_child t_itemID t | None => false end,
   match find t_element_source (kids_of ea) with Some s => Some (has_child t_itemID s) | None => None end).

(* what classification looks at in a document: which message tags occur as direct children
   of the root, and the features of the first roElementAction *)
Definition features (d : xml) : list bool * option (option str * bool * option bool) :=
  (map (fun tc => has_child (fst tc) d) tag_class_map,
   option_map ea_features (find t_roElementAction (kids_of d))).

Definition classify_ea_spec (f : option str * bool * option bool) : exn + mclass :=
  let '(op, t, s) := f in
  match s with
  | None => inl UnknownMosFileType
  | Some si => match ea_lookup op t si ea_table with Some c => inr c | None => inl UnknownMosFileType end
  end.

Fixpoint classify_spec_in (present : list bool) (tbl : list (str * option mclass))
         (ea : option (option str * bool * option bool)) : exn + mclass :=
  match present, tbl with
  | p :: ps, (_, c) :: r =>
    if p then match c with
              | Some k => inr k
              | None => match ea with Some f => classify_ea_spec f | None => inl UnknownMosFileType end
              end
    else classify_spec_in ps r ea
  | _, _ => inl UnknownMosFileType
  end.
Definition classify_spec (f : list bool * option (option str * bool * option bool)) : exn + mclass :=
  classify_spec_in (fst f) tag_class_map (snd f).

Lemma classify_ea_factor ea : classify_ea ea = classify_ea_spec (ea_features ea).
Proof.
  unfold classify_ea, classify_ea_spec, ea_features.
  destruct (find t_element_source (kids_of ea)); reflexivity.
Qed.

Lemma has_child_find t e : has_child t e = match find t (kids_of e) with Some _ => true | None => false end.
Proof. reflexivity. Qed.

(* only the roElementAction row of the table dispatches on the element itself *)
Definition ea_rows_ok (tbl : list (str * option mclass)) : Prop :=
  forall t, In (t, None) tbl -> t = t_roElementAction.

Lemma classify_in_factor d tbl :
  ea_rows_ok tbl ->
  classify_in d tbl
  = classify_spec_in (map (fun tc => has_child (fst tc) d) tbl) tbl
      (option_map ea_features (find t_roElementAction (kids_of d))).
Proof.
  induction tbl as [|[t c] r IH]; intros Hok; simpl; [reflexivity|].
  unfold has_child. destruct (find t (kids_of d)) as [e|] eqn:E.
  - destruct c as [k|]; [reflexivity|].
    assert (t = t_roElementAction) as -> by (apply Hok; now left).
    rewrite E. simpl. apply classify_ea_factor.
  - apply IH. intros t' Ht'. apply Hok. now right.
Qed.

Theorem classify_factor d : classify d = classify_spec (features d).
Proof.
  unfold classify, classify_spec, features. simpl fst. simpl snd.
  apply classify_in_factor. intros t Ht. unfold tag_class_map in Ht. simpl in Ht.
  repeat (destruct Ht as [Ht|Ht]; [try discriminate Ht; injection Ht as <-; reflexivity|]).
  destruct Ht.
Qed.

Theorem classify_noninterference d1 d2 : features d1 = features d2 -> classify d1 = classify d2.
Proof. intros H. now rewrite !classify_factor, H. Qed.

(* classification never raises anything but UnknownMosFileType *)
Lemma classify_ea_total ea e : classify_ea ea = inl e -> e = UnknownMosFileType.
Proof.
  unfold classify_ea. destruct (find t_element_source (kids_of ea)); [|congruence].
  destruct (ea_lookup _ _ _ _); congruence.
Qed.
Theorem classify_total d e : classify d = inl e -> e = UnknownMosFileType.
Proof.
  unfold classify. generalize tag_class_map. intros tbl. induction tbl as [|[t c] r IH]; simpl; [congruence|].
  destruct (find t (kids_of d)); [|exact IH].
  destruct c; [discriminate | apply classify_ea_total].
Qed.

(* a classified document has its base tag *)
Lemma classify_ea_class ea k : classify_ea ea = inr k -> base_tag_name k = t_roElementAction.
Proof.
  unfold classify_ea. destruct (find t_element_source (kids_of ea)); [|discriminate].
  destruct (ea_lookup _ _ _ ea_table) as [c|] eqn:E; [|discriminate]. intros H. injection H as <-.
  unfold ea_table in E. simpl in E.
  repeat (match type of E with
          | (if ?c then _ else _) = _ => destruct c; [injection E as <-; reflexivity|]
          end).
  discriminate.
Qed.

Theorem classify_base d k : classify d = inr k -> exists b, base_of k d = Some b.
Proof.
  unfold classify, base_of, tag_class_map. simpl.
  repeat (match goal with
          | |- context [find ?t (kids_of d)] =>
            destruct (find t (kids_of d)) eqn:?; [intros H; try (injection H as <-; simpl; eauto)|]
          end); try discriminate.
  apply classify_ea_class in H. rewrite H. eauto.
Qed.

(* ---- C07 *)
Section Completed.
Variable o : oracles.

(* once completed, adding anything raises MosCompletedMergeError and changes nothing *)
Theorem completed_terminal ro k m :
  ro_completed ro = true -> add o ro k m = fail ro MosCompletedMergeError.
Proof. intros H. unfold add. now rewrite H. Qed.

Theorem completed_terminal_history ro (h : list (mclass * xml)) :
  ro_completed ro = true ->
  fold_left (fun s km => r_st (add o s (fst km) (snd km))) h ro = ro /\
  Forall (fun km => r_err (add o ro (fst km) (snd km)) = Some MosCompletedMergeError) h.
Proof.
  intros Hc. induction h as [|[k m] h [IH1 IH2]]; [split; [reflexivity | constructor]|].
  simpl. rewrite (completed_terminal ro k m Hc). simpl. split; [assumption|].
  constructor; [simpl; now rewrite (completed_terminal ro k m Hc) | assumption].
Qed.

(* merging a roDelete marks the running order completed, records the roDelete, and leaves
   the running-order content unchanged *)
Theorem rodelete_marks ro d b :
  ro_completed ro = false -> base_of RunningOrderEnd d = Some b ->
  let r := add o ro RunningOrderEnd d in
  r_err r = None /\ r_ws r = [] /\
  r_st r = set_kids ro (kids_of ro ++ [Elem t_mosromgrmeta [] None None [b]]) /\
  ro_completed (r_st r) = true /\
  (forall rc, rc_of ro = Some rc -> rc_of (r_st r) = Some rc).
Proof.
  intros Hc Hb. unfold add. rewrite Hc. unfold merge. rewrite Hb. cbn [r_err r_ws r_st ok].
  repeat split; auto.
  - unfold ro_completed, has_child. rewrite kids_set_kids.
    assert (H : forall l, find t_mosromgrmeta (l ++ [Elem t_mosromgrmeta [] None None [b]]) <> None).
    { induction l as [|c l IH]; simpl; [discriminate|]. destruct (has_tag t_mosromgrmeta c); [discriminate|auto]. }
    specialize (H (kids_of ro)). destruct (find _ _); [reflexivity | contradiction].
  - intros rc Hrc. unfold rc_of in *. rewrite kids_set_kids. now apply find_app_found.
Qed.

(* the tags of the root's children decide completion *)
Lemma has_child_tags t e e' :
  map tag_of (kids_of e) = map tag_of (kids_of e') -> has_child t e = has_child t e'.
Proof.
  unfold has_child. generalize (kids_of e) (kids_of e'). intros l.
  induction l as [|c l IH]; intros [|c' l'] H; try discriminate; [reflexivity|].
  simpl in *. injection H as Hc Hl. unfold has_tag. rewrite Hc.
  destruct (str_eqb (tag_of c') t); [reflexivity | now apply IH].
Qed.

Lemma tags_update_first t f l :
  (forall x, tag_of (f x) = tag_of x) -> map tag_of (update_first t f l) = map tag_of l.
Proof.
  intros Hf. induction l as [|c l IH]; simpl; [reflexivity|].
  destruct (has_tag t c); simpl; [now rewrite Hf | now rewrite IH].
Qed.

(* no merge other than roDelete touches the completion record *)
Theorem completion_only_by_rodelete ro k m :
  k <> RunningOrderEnd -> ro_completed (r_st (add o ro k m)) = ro_completed ro.
Proof.
  intros Hk. unfold add. destruct (ro_completed ro) eqn:Hc; [exact Hc|].
  unfold merge. destruct (base_of k m) as [b|]; [|exact Hc].
  assert (Hput : forall r : res (list xml),
            ro_completed (r_st (map_res (fun k' => set_kids ro (update_first t_roCreate (fun e => set_kids e k') (kids_of ro))) r))
            = false).
  { intros r. cbn [map_res r_st]. rewrite <- Hc. unfold ro_completed. apply has_child_tags.
    rewrite kids_set_kids. apply tags_update_first. intros x. apply tag_set_kids. }
  destruct k; try (destruct (find t_roCreate (kids_of ro)); [apply Hput | exact Hc]).
  - exact Hc.
  - destruct (find_index t_roCreate (kids_of ro)) as [i|] eqn:Ei; [|exact Hc].
    cbn [r_st ok]. rewrite <- Hc. unfold ro_completed. apply has_child_tags. rewrite kids_set_kids.
    destruct (find_index_split _ _ _ Ei) as (pre & e & post & El & <- & He & _).
    rewrite El, replace_at_app, !map_app. simpl. f_equal. f_equal.
    destruct b. simpl. unfold has_tag in He. apply str_eqb_eq in He. now rewrite He.
  - now contradiction Hk.
Qed.

Theorem never_spurious ro (h : list (mclass * xml)) :
  ro_completed ro = false -> Forall (fun km => fst km <> RunningOrderEnd) h ->
  ro_completed (fold_left (fun s km => r_st (add o s (fst km) (snd km))) h ro) = false.
Proof.
  revert ro. induction h as [|[k m] h IH]; intros ro Hc Hh; [assumption|].
  inversion Hh; subst. simpl. apply IH; [|assumption].
  simpl in *. now rewrite completion_only_by_rodelete.
Qed.

End Completed.
