(* ListFacts.v — facts about the Python list primitives of Xml.v *)
From Coq Require Import List Bool Arith Lia Permutation.
Import ListNotations.
From Mos Require Import Str Xml.

Section L.
Context {A : Type}.
Implicit Types l xs : list A.

Lemma insert_many_nil i l : i <= length l -> insert_many i [] l = l.
Proof. intros _. unfold insert_many. simpl. apply firstn_skipn. Qed.

Lemma insert_at_many i (x : A) l : insert_at i x l = insert_many i [x] l.
Proof. reflexivity. Qed.

Lemma insert_many_length i xs l : length (insert_many i xs l) = length xs + length l.
Proof.
  unfold insert_many. rewrite !app_length.
  rewrite <- (firstn_skipn i l) at 3. rewrite app_length. lia.
Qed.

(* for k, x in enumerate(xs, start=i): l.insert(k, x)  ==  splice xs in at i *)
Lemma insert_loop_many i xs l : i <= length l -> insert_loop i xs l = insert_many i xs l.
Proof.
  revert i l. induction xs as [|x r IH]; intros i l Hi; simpl.
  - symmetry. now apply insert_many_nil.
  - rewrite IH.
    + unfold insert_many, insert_at.
      assert (Hl : length (firstn i l) = i) by (rewrite firstn_length; lia).
      rewrite firstn_app, skipn_app, Hl.
      replace (S i - i) with 1 by lia.
      rewrite (firstn_all2 (n := S i) (firstn i l)) by lia.
      rewrite (skipn_all2 (n := S i) (firstn i l)) by lia. simpl.
      rewrite <- app_assoc. reflexivity.
    + unfold insert_at. rewrite app_length, firstn_length. simpl. rewrite skipn_length. lia.
Qed.

Lemma insert_many_app pre post xs : insert_many (length pre) xs (pre ++ post) = pre ++ xs ++ post.
Proof.
  unfold insert_many. rewrite firstn_app, skipn_app, Nat.sub_diag, firstn_all, skipn_all.
  simpl. now rewrite app_nil_r.
Qed.

Lemma insert_many_end xs l : insert_many (length l) xs l = l ++ xs.
Proof.
  unfold insert_many. rewrite firstn_all, skipn_all. now rewrite app_nil_r.
Qed.

Lemma remove_at_app pre (x : A) post : remove_at (length pre) (pre ++ x :: post) = pre ++ post.
Proof. induction pre as [|y pre IH]; simpl; [reflexivity | now rewrite IH]. Qed.

Lemma remove_at_length i l : i < length l -> length (remove_at i l) = length l - 1.
Proof.
  revert i. induction l as [|y l IH]; intros [|i] H; simpl in *; try lia.
  rewrite IH by lia. lia.
Qed.

Lemma nth_error_split l i (x : A) :
  nth_error l i = Some x -> exists pre post, l = pre ++ x :: post /\ length pre = i.
Proof.
  intros H. apply nth_error_split in H as (pre & post & -> & <-). now exists pre, post.
Qed.

Lemma nth_error_app_mid pre (x : A) post : nth_error (pre ++ x :: post) (length pre) = Some x.
Proof. rewrite nth_error_app2 by lia. now rewrite Nat.sub_diag. Qed.

Lemma update_nth_app pre (x : A) post f :
  update_nth (length pre) f (pre ++ x :: post) = pre ++ f x :: post.
Proof. induction pre as [|y pre IH]; simpl; [reflexivity | now rewrite IH]. Qed.

Lemma replace_at_app pre (x y : A) post :
  replace_at (length pre) y (pre ++ x :: post) = pre ++ y :: post.
Proof.
  unfold replace_at. rewrite remove_at_app, insert_at_many, insert_many_app. reflexivity.
Qed.

Lemma insert_many_cons i (x : A) xs l :
  i <= length l -> insert_many (S i) xs (insert_at i x l) = insert_many i (x :: xs) l.
Proof.
  intros Hi. unfold insert_many, insert_at.
  assert (Hl : length (firstn i l) = i) by (rewrite firstn_length; lia).
  rewrite firstn_app, skipn_app, Hl.
  replace (S i - i) with 1 by lia.
  rewrite (firstn_all2 (n := S i) (firstn i l)) by lia.
  rewrite (skipn_all2 (n := S i) (firstn i l)) by lia. simpl.
  now rewrite <- app_assoc.
Qed.

Lemma insert_at_length i (x : A) l : length (insert_at i x l) = S (length l).
Proof. rewrite insert_at_many, insert_many_length. reflexivity. Qed.

Lemma NoDup_app_r (a b : list A) : NoDup (a ++ b) -> NoDup b.
Proof. induction a as [|x a IH]; simpl; [auto|]. intros H. inversion H. auto. Qed.
Lemma NoDup_app_l (a b : list A) : NoDup (a ++ b) -> NoDup a.
Proof.
  induction a as [|x a IH]; simpl; [constructor|]. intros H. inversion H as [|? ? Hx Hn]; subst.
  constructor; [|auto]. intros Hc. apply Hx. apply in_or_app. now left.
Qed.
Lemma NoDup_app_disj (a b : list A) x : NoDup (a ++ b) -> In x a -> In x b -> False.
Proof.
  induction a as [|y a IH]; simpl; [tauto|]. intros H [->|Ha] Hb; inversion H as [|? ? Hx Hn]; subst.
  - apply Hx. apply in_or_app. now right.
  - eauto.
Qed.

Lemma filter_partition_perm (f : A -> bool) l :
  Permutation (filter f l ++ filter (fun x => negb (f x)) l) l.
Proof.
  induction l as [|x l IH]; simpl; [constructor|].
  destruct (f x); simpl.
  - now constructor.
  - apply Permutation_sym, Permutation_cons_app, Permutation_sym, IH.
Qed.

End L.

Lemma Forall2_length {A B} (R : A -> B -> Prop) l l' : Forall2 R l l' -> length l = length l'.
Proof. induction 1; simpl; auto. Qed.

