(* Inv.v — a generic invariant principle for merges: any predicate on elements that is
   stable under "replace the children of a story by old and carried ones" holds of every
   child of roCreate after the merge.  Instantiated for wf_xml (C14: every reachable state
   is in the fragment of XML on which the codec round-trips). *)
From Coq Require Import List Bool Arith NArith Lia Permutation.
Import ListNotations.
From Mos Require Import Str Xml Outcome Seq Spec Elements Classify Messages Merge Proto Codec.
From Mos.proofs Require Import ListFacts SeqFacts MoveFacts XmlFacts StoryOrder Lift Atomic WfFacts ClassifyFacts CodecFacts.

Section Generic.
Variable o : oracles.
Variable Q : xml -> bool.
(* replacing the children of a story by children that come from the old ones and from
   elements satisfying Q keeps Q *)
Hypothesis Q_set_kids : forall s new ik',
  Q s = true -> forallb Q new = true -> forallb Q (kids_of s) = true ->
  from new (kids_of s) ik' -> Q (set_kids s ik') = true.
Hypothesis Q_children : forall s, Q s = true -> forallb Q (kids_of s) = true.

Theorem merge_kids_inv k m b rc :
  forallb Q (kids_of rc) = true ->
  forallb Q (story_payload k b) = true -> forallb Q (item_payload k b) = true ->
  (k = MetaDataReplace -> forallb Q (kids_of b) = true) ->
  forallb Q (r_st (merge_kids o k m b rc)) = true.
Proof.
  intros Hk Hsp Hip Hmd. set (kids := kids_of rc) in *.
  assert (Hitem : forall sid missing f new,
            r_st missing = kids -> forallb Q new = true ->
            (forall ik, from new ik (r_st (f ik))) ->
            forallb Q (r_st (with_story sid kids missing f)) = true).
  { intros sid missing f new Hmiss Hnew Hf. unfold with_story.
    destruct (find_story sid kids) as [i| |] eqn:E; [|now rewrite Hmiss | assumption].
    destruct (nth_error kids i) as [s|] eqn:En; [|assumption].
    cbn [map_res r_st]. apply forallb_update_nth; [assumption|].
    intros x Hx. rewrite En in Hx. injection Hx as <-.
    assert (Hs : Q s = true) by (rewrite forallb_forall in Hk; apply Hk; eapply nth_error_In; eauto).
    apply (Q_set_kids s new); auto. }
  assert (Hfrom_story : forall new l', forallb Q new = true -> from new kids l' -> forallb Q l' = true).
  { intros new l' Hn Hf. apply (forallb_from _ new kids l'); auto. }
  unfold merge_kids. fold kids.
  destruct k; cbn [r_st ok story_payload item_payload] in *.
  - assumption.
  - destruct (convert_story_send b) as [s|] eqn:Ec; [|assumption].
    destruct (find_story (story_id s) kids) as [i| |] eqn:E; [|destruct (msg_id_exn m); assumption|assumption].
    cbn [r_st ok]. unfold find_story in E. destruct (story_id s) as [t|] eqn:Et; [|discriminate].
    pose proof (gen_replace_from skey str_eqb str_eqb_eq None (Some t) [s] kids) as [Hf _].
    unfold gen_replace in Hf. rewrite E in Hf. cbn [r_st ok] in Hf.
    apply (Hfrom_story [s]); assumption.
  - rewrite forallb_app, Hk. assumption.
  - apply (Hfrom_story []); [reflexivity | apply delete_loop_from].
  - destruct (find_story (first_story_id b) kids); [|destruct (msg_id_exn m); assumption|assumption].
    destruct (ro_stories_err o rc); [assumption|].
    apply (Hfrom_story (carried t_story b)); [assumption | apply insert_dups_from].
  - destruct (story_move_source b); [|destruct (msg_id_exn m); assumption].
    apply (Hfrom_story []); [reflexivity|].
    apply (perm_from skey). apply (gen_move_total skey str_eqb str_eqb_eq).
  - destruct (find_story (first_story_id b) kids) as [i| |] eqn:E;
      [|destruct (msg_id_exn m); assumption|assumption].
    destruct (carried t_story b) as [|n0 nr] eqn:Ecar; [destruct (msg_id_exn m); assumption|].
    cbn [r_st ok]. unfold find_story in E. destruct (first_story_id b) as [t|]; [|discriminate].
    pose proof (gen_replace_from skey str_eqb str_eqb_eq None (Some t) (n0 :: nr) kids) as [Hf _].
    unfold gen_replace in Hf. rewrite E in Hf. cbn [r_st ok] in Hf.
    apply (Hfrom_story (n0 :: nr)); assumption.
  - apply (Hitem _ _ _ []); [destruct (msg_id_exn m); reflexivity | reflexivity|].
    intros ik. apply delete_loop_from.
  - apply (Hitem _ _ _ (carried t_item b)); [destruct (msg_id_exn m); reflexivity | assumption|].
    intros ik. apply (gen_insert_from ikey str_eqb).
  - destruct (first_story_id b) as [sid0|]; [|destruct (msg_id_exn m); assumption].
    apply (Hitem _ _ _ []); [destruct (msg_id_exn m); reflexivity | reflexivity|].
    intros ik. destruct (imm_target b); [|apply from_refl].
    apply (perm_from ikey). apply (gen_move_total ikey str_eqb str_eqb_eq).
  - apply (Hitem _ _ _ (carried t_item b)); [destruct (msg_id_exn m); reflexivity | assumption|].
    intros ik. apply (gen_replace_from ikey str_eqb str_eqb_eq).
  - assumption.
  - apply (Hfrom_story (kids_of b)); [now apply Hmd | apply md_loop_from].
  - assumption.
  - assumption.
  - apply (Hfrom_story (ea_carried t_story b)); [assumption|].
    apply (gen_replace_from skey str_eqb str_eqb_eq).
  - apply (Hitem _ _ _ (ea_carried t_item b)); [destruct (msg_id_exn m); reflexivity | assumption|].
    intros ik. apply (gen_replace_from ikey str_eqb str_eqb_eq).
  - apply (Hfrom_story []); [reflexivity | apply delete_loop_from].
  - apply (Hitem _ _ _ []); [destruct (msg_id_exn m); reflexivity | reflexivity|].
    intros ik. apply delete_loop_from.
  - destruct (locate_target skey str_eqb (ea_target_id t_storyID b) kids);
      try (destruct (msg_id_exn m); assumption); try assumption.
    + destruct (ro_stories_err o rc); [assumption|].
      apply (Hfrom_story (ea_carried t_story b)); [assumption | apply insert_dups_from].
    + destruct (ro_stories_err o rc); [assumption|].
      apply (Hfrom_story (ea_carried t_story b)); [assumption | apply insert_dups_from].
  - apply (Hitem _ _ _ (ea_carried t_item b)); [destruct (msg_id_exn m); reflexivity | assumption|].
    intros ik. apply (gen_insert_from ikey str_eqb).
  - apply (Hfrom_story []); [reflexivity|].
    apply (perm_from skey). apply (gen_swap_total skey str_eqb str_eqb_eq).
  - apply (Hitem _ _ _ []); [destruct (msg_id_exn m); reflexivity | reflexivity|].
    intros ik. apply (perm_from ikey). apply (gen_swap_total ikey str_eqb str_eqb_eq).
  - apply (Hfrom_story []); [reflexivity|].
    apply (perm_from skey). apply (gen_move_total skey str_eqb str_eqb_eq).
  - apply (Hitem _ _ _ []); [destruct (msg_id_exn m); reflexivity | reflexivity|].
    intros ik. apply (perm_from ikey). apply (gen_move_total ikey str_eqb str_eqb_eq).
Qed.

End Generic.

(* ---- wf_xml: the fragment of XML on which the codec round-trips *)
Lemma wf_xml_children s : wf_xml s = true -> forallb wf_xml (kids_of s) = true.
Proof. destruct s. simpl. intros H. now apply andb_prop in H as [_ H]. Qed.

Lemma wf_xml_set_kids s k : wf_xml s = true -> forallb wf_xml k = true -> wf_xml (set_kids s k) = true.
Proof.
  destruct s. simpl. intros H Hk. apply andb_prop in H as [H _]. now rewrite H, Hk.
Qed.

Lemma wf_xml_set_tag s t : wf_xml s = true -> wf_name t = true -> wf_xml (set_tag s t) = true.
Proof.
  destruct s. simpl. intros H Ht. rewrite Ht.
  repeat (apply andb_prop in H as [H ?]).
  repeat (apply andb_true_intro; split); auto.
Qed.

Lemma wf_xml_from s new ik' :
  wf_xml s = true -> forallb wf_xml new = true -> forallb wf_xml (kids_of s) = true ->
  from new (kids_of s) ik' -> wf_xml (set_kids s ik') = true.
Proof.
  intros Hs Hn Hk Hf. apply wf_xml_set_kids; [assumption|].
  apply (forallb_from _ new (kids_of s) ik'); auto.
Qed.

Lemma forallb_findall {B} (Q : B -> bool) f l : forallb Q l = true -> forallb Q (filter f l) = true.
Proof.
  intros H. rewrite forallb_forall in *. intros x Hx. apply filter_In in Hx as [Hx _]. auto.
Qed.

Lemma wf_find t l e : forallb wf_xml l = true -> find t l = Some e -> wf_xml e = true.
Proof.
  intros H Hf. destruct (find_split _ _ _ Hf) as (pre & post & -> & _).
  rewrite forallb_app in H. apply andb_prop in H as [_ H]. simpl in H. now apply andb_prop in H as [H _].
Qed.

(* the roStorySend conversion stays inside the fragment *)
Lemma wf_splice l k : forallb wf_xml l = true -> splice_body l = Some k -> forallb wf_xml k = true.
Proof.
  revert k. induction l as [|c l IH]; intros k H Hs; simpl in *; [discriminate|].
  apply andb_prop in H as [Hc Hl].
  destruct (has_tag t_storyBody c).
  - injection Hs as <-. rewrite forallb_app, Hl, andb_true_r.
    pose proof (wf_xml_children c Hc) as Hk. clear - Hk.
    induction (kids_of c) as [|x r IH]; [reflexivity|]. simpl in *. apply andb_prop in Hk as [Hx Hr].
    rewrite (IH Hr), andb_true_r. unfold rename_story_item. destruct (has_tag t_storyItem x); [|assumption].
    now apply wf_xml_set_tag.
  - destruct (splice_body l) as [r'|]; [|discriminate]. injection Hs as <-. simpl. now rewrite Hc, (IH r').
Qed.

Lemma wf_convert b s : wf_xml b = true -> convert_story_send b = Some s -> wf_xml s = true.
Proof.
  unfold convert_story_send. intros Hb H. destruct (splice_body (kids_of b)) as [k|] eqn:E; [|discriminate].
  injection H as <-. apply wf_xml_set_kids; [now apply wf_xml_set_tag|].
  eapply wf_splice; eauto. now apply wf_xml_children.
Qed.

Section WfXml.
Variable o : oracles.

Lemma payloads_wf k b :
  wf_xml b = true ->
  forallb wf_xml (story_payload k b) = true /\ forallb wf_xml (item_payload k b) = true.
Proof.
  intros Hb. pose proof (wf_xml_children b Hb) as Hk.
  assert (Hsrc : forall tag, forallb wf_xml (ea_carried tag b) = true).
  { intros tag. unfold ea_carried, ea_source. destruct (find t_element_source (kids_of b)) as [s|] eqn:E; [|reflexivity].
    apply forallb_findall. apply wf_xml_children. eapply wf_find; eauto. }
  split; destruct k; simpl; auto; try (apply forallb_findall; assumption).
  destruct (convert_story_send b) as [s|] eqn:E; [|reflexivity]. simpl. now rewrite (wf_convert b s Hb E).
Qed.

(* every merge keeps the document inside the fragment *)
Theorem add_wf_xml ro k m :
  wf_xml ro = true -> wf_xml m = true -> wf_xml (r_st (add o ro k m)) = true.
Proof.
  intros Hro Hm. unfold add. destruct (ro_completed ro); [assumption|].
  unfold merge. destruct (base_of k m) as [b|] eqn:Hb; [|assumption].
  assert (Hbw : wf_xml b = true) by (unfold base_of in Hb; eapply wf_find; eauto; now apply wf_xml_children).
  pose proof (wf_xml_children ro Hro) as Hrk.
  assert (Hput : forall rc, find t_roCreate (kids_of ro) = Some rc ->
            wf_xml (r_st (map_res (fun k' => set_kids ro (update_first t_roCreate (fun e => set_kids e k') (kids_of ro)))
                                  (merge_kids o k m b rc))) = true).
  { intros rc Hrc. cbn [map_res r_st]. apply wf_xml_set_kids; [assumption|].
    destruct (find_split _ _ _ Hrc) as (pre & post & El & He & Hpre).
    rewrite El, update_first_split by assumption. rewrite El in Hrk.
    rewrite forallb_app in *. apply andb_prop in Hrk as [H1 H2]. simpl in H2. apply andb_prop in H2 as [Hrcw H2].
    rewrite H1. simpl. rewrite H2, andb_true_r. apply wf_xml_set_kids; [assumption|].
    destruct (payloads_wf k b Hbw) as [Hsp Hip].
    apply (merge_kids_inv o wf_xml wf_xml_from wf_xml_children); auto; [now apply wf_xml_children|].
    intros _. now apply wf_xml_children. }
  destruct k; try (destruct (find t_roCreate (kids_of ro)) as [rc|] eqn:Hrc; [now apply Hput | assumption]).
  - assumption.
  - destruct (find_index t_roCreate (kids_of ro)) as [i|] eqn:Ei; [|assumption].
    cbn [r_st ok]. apply wf_xml_set_kids; [assumption|].
    destruct (find_index_split _ _ _ Ei) as (pre & e & post & El & <- & _).
    rewrite El, replace_at_app. rewrite El in Hrk. rewrite forallb_app in *.
    apply andb_prop in Hrk as [H1 H2]. simpl in *. apply andb_prop in H2 as [_ H2].
    rewrite H1, H2, andb_true_r. simpl. now apply wf_xml_set_tag.
  - cbn [r_st ok]. apply wf_xml_set_kids; [assumption|]. rewrite forallb_app, Hrk. simpl.
    now rewrite Hbw.
Qed.

Theorem history_wf_xml ro (h : list (mclass * xml)) :
  wf_xml ro = true -> forallb (fun km => wf_xml (snd km)) h = true ->
  wf_xml (fold_left (fun s km => r_st (add o s (fst km) (snd km))) h ro) = true.
Proof.
  revert ro. induction h as [|[k m] h IH]; intros ro Hro Hh; [assumption|].
  simpl in *. apply andb_prop in Hh as [Hm Hh]. apply IH; [|assumption]. now apply add_wf_xml.
Qed.

(* hence every reachable running order serialises to text that reads back identically *)
Theorem reachable_roundtrip ro (h : list (mclass * xml)) :
  wf_xml ro = true -> forallb (fun km => wf_xml (snd km)) h = true ->
  let s := fold_left (fun s km => r_st (add o s (fst km) (snd km))) h ro in
  parse (ser s) = Some s.
Proof. intros Hro Hh. apply codec_roundtrip. now apply history_wf_xml. Qed.

(* ---- the envelope *)
Definition not_rc (e : xml) : bool := negb (has_tag t_roCreate e).

(* the tags of the root's children never change, except that a successful roDelete appends
   the completion record; the children other than roCreate are never touched *)
Theorem envelope_step ro k m :
  let r := add o ro k m in
  (map tag_of (kids_of (r_st r)) = map tag_of (kids_of ro) /\
   filter not_rc (kids_of (r_st r)) = filter not_rc (kids_of ro))
  \/ (k = RunningOrderEnd /\ ro_completed ro = false /\
      exists b, kids_of (r_st r) = kids_of ro ++ [Elem t_mosromgrmeta [] None None [b]]).
Proof.
  unfold add. destruct (ro_completed ro) eqn:Hc; [left; now split|].
  unfold merge. destruct (base_of k m) as [b|] eqn:Hb; [|left; now split].
  assert (Hput : forall (r : res (list xml)),
            let st := r_st (map_res (fun k' => set_kids ro (update_first t_roCreate (fun e => set_kids e k') (kids_of ro))) r) in
            map tag_of (kids_of st) = map tag_of (kids_of ro) /\ filter not_rc (kids_of st) = filter not_rc (kids_of ro)).
  { intros r. cbn [map_res r_st]. rewrite kids_set_kids. split.
    - apply tags_update_first. intros x. apply tag_set_kids.
    - generalize (kids_of ro). intros l. induction l as [|c l IH]; [reflexivity|]. cbn [update_first].
      destruct (has_tag t_roCreate c) eqn:E; cbn [filter].
      + assert (Hn : not_rc (set_kids c (r_st r)) = not_rc c) by (unfold not_rc; now rewrite has_tag_set_kids).
        rewrite Hn. assert (Hc' : not_rc c = false) by (unfold not_rc; now rewrite E). now rewrite Hc'.
      + now rewrite IH. }
  destruct k; try (left; destruct (find t_roCreate (kids_of ro)); [apply Hput | now split]).
  - left. now split.
  - left. destruct (find_index t_roCreate (kids_of ro)) as [i|] eqn:Ei; [|now split].
    cbn [r_st ok]. rewrite kids_set_kids.
    destruct (find_index_split _ _ _ Ei) as (pre & e & post & El & <- & He & _).
    rewrite El, replace_at_app, !map_app, !filter_app. simpl.
    assert (Ht : tag_of (set_tag b t_roCreate) = tag_of e).
    { destruct b. simpl. unfold has_tag in He. apply str_eqb_eq in He. now rewrite He. }
    rewrite Ht. split; [reflexivity|]. unfold not_rc. rewrite has_tag_set_tag, He. reflexivity.
  - right. repeat split; auto. exists b. cbn [r_st ok]. now rewrite kids_set_kids.
Qed.

End WfXml.

(* U+000D in text does not survive the round trip (CPython's serialiser writes it raw, the
   parser reads it back as U+000A): known finding F18 *)
Definition cr_doc : xml := Elem [109%N] [] (Some [97%N; 13%N; 98%N]) None [].
Lemma cr_refuted : exists e e', parse (ser e) = Some e' /\ e' <> e.
Proof. exists cr_doc. eexists. split; [vm_compute; reflexivity | discriminate]. Qed.
